"""C16 — random demographic histories, written twice: as a demes graph (dict for demes.Builder.fromdict) and as a
hand-written dadi program (a list of JSON-able ops executed by `run_program`), both emitted by the SAME forward simulation
from its own state (topology, lifetimes, epochs, migrations) and from the textbook definitions
    T = Δt / (2 Ne),  nu = N / Ne,  M_ij = 2 Ne m(j -> i),  N_exp(t) = N0 (N1/N0)^((t0-t)/(t0-t1)),  N_lin(t) = N0 + (N1-N0)(t0-t)/(t0-t1)
— nothing here reads dadi/Demes/*.  Axis order in the program follows one documented convention (older demes first, ties
in graph order) so that the two computations normally agree to round-off; when they do not, the caller decides with a
time-step refinement whether the difference is operator-splitting error or a wrong program.

Supported (= the domain of dadi.Demes): binary splits, branches, admixtures whose parents all continue, mergers whose parents
all end, pulses (1-2 sources), unsampled demes that end, renamings (one successor), constant / exponential / linear epochs that
may span several integration intervals, asymmetric and symmetric migrations, ancient samples.
"""
import math, copy, json
import numpy as np

INF = float('inf')

# ------------------------------------------------------------------------------------------------- executing a program
def _nu_callable(spec, T):
    k = spec[0]
    if k == 'c': return float(spec[1])
    n0, n1 = float(spec[1]), float(spec[2])
    if k == 'e': return (lambda t, n0=n0, n1=n1, T=T: n0 * (n1 / n0) ** (t / T))
    if k == 'l': return (lambda t, n0=n0, n1=n1, T=T: n0 + (n1 - n0) * t / T)
    raise ValueError(k)

def new_pop(dadi, phi, xx, props):
    """append a population drawing `props[k]` of its ancestry from axis k (sum 1)"""
    P = dadi.PhiManip; d = phi.ndim
    if d == 1: return P.phi_1D_to_2D(xx, phi)
    if d == 2: return P.phi_2D_to_3D_admix(phi, props[0], xx, xx, xx)
    if d == 3: return P.phi_3D_to_4D(phi, props[0], props[1], xx, xx, xx, xx)
    if d == 4: return P.phi_4D_to_5D(phi, props[0], props[1], props[2], xx, xx, xx, xx, xx)
    raise ValueError('more than five populations')

PULSE_NAMES = {
    2: ['phi_2D_admix_2_into_1', 'phi_2D_admix_1_into_2'],
    3: ['phi_3D_admix_2_and_3_into_1', 'phi_3D_admix_1_and_3_into_2', 'phi_3D_admix_1_and_2_into_3'],
    4: ['phi_4D_admix_into_%d' % k for k in (1, 2, 3, 4)],
    5: ['phi_5D_admix_into_%d' % k for k in (1, 2, 3, 4, 5)],
}

def pulse(dadi, phi, xx, dest, props):
    """axis `dest` receives props[k] of its ancestry from axis k (k != dest); in place on a copy"""
    d = phi.ndim
    f = getattr(dadi.PhiManip, PULSE_NAMES[d][dest])
    args = [props[k] for k in range(d) if k != dest]
    phi = np.array(phi, copy=True)
    return f(phi, *(args + [xx] * d))

def integrate(dadi, phi, xx, T, nus, M, frozen):
    I = dadi.Integration; d = phi.ndim
    nu = [_nu_callable(s, T) for s in nus]
    if d == 1:
        return I.one_pop(phi, xx, T, nu[0], frozen=bool(frozen[0]))
    kw = {}
    for i in range(d):
        kw['nu%d' % (i + 1)] = nu[i]
        kw['frozen%d' % (i + 1)] = bool(frozen[i])
        for j in range(d):
            if i != j: kw['m%d%d' % (i + 1, j + 1)] = float(M[i][j])
    f = {2: I.two_pops, 3: I.three_pops, 4: I.four_pops, 5: I.five_pops}[d]
    return f(phi, xx, T, **kw)

def run_program(dadi, ops, pts, theta=1.0):
    """returns (phi, xx).  ops: phi1d{nu} | integrate{T,nu,M,frozen} | newpop{props} | pulse{dest,props} | remove{axis} | reorder{order}"""
    xx = dadi.Numerics.default_grid(pts)
    phi = None
    for op in ops:
        k = op['op']
        if k == 'phi1d':
            phi = dadi.PhiManip.phi_1D(xx, nu=op.get('nu', 1.0), theta0=theta)
        elif k == 'integrate':
            if op['T'] > 0:
                phi = integrate(dadi, phi, xx, op['T'], op['nu'], op['M'], op['frozen'])
        elif k == 'newpop':
            phi = new_pop(dadi, phi, xx, op['props'])
        elif k == 'pulse':
            phi = pulse(dadi, phi, xx, op['dest'], op['props'])
        elif k == 'remove':
            phi = dadi.PhiManip.remove_pop(phi, xx, op['axis'] + 1)
        elif k == 'reorder':
            phi = dadi.PhiManip.reorder_pops(phi, [o + 1 for o in op['order']])
        else:
            raise ValueError(k)
    return phi, xx

def program_sfs(dadi, ops, pts, ns, theta=1.0):
    phi, xx = run_program(dadi, ops, pts, theta)
    return dadi.Spectrum.from_phi(phi, ns, [xx] * phi.ndim)

# ------------------------------------------------------------------------------------------------- size functions
def size_at(ep, t):
    """size of an epoch (start_time t0 > end_time t1) at time t ago, from the definition in the demes specification"""
    t0, t1, n0, n1, fn = ep['start_time'], ep['end_time'], ep['start_size'], ep['end_size'], ep['size_function']
    if fn == 'constant' or t0 == INF: return n0
    x = (t0 - t) / (t0 - t1)
    if fn == 'exponential': return n0 * (n1 / n0) ** x
    if fn == 'linear': return n0 + (n1 - n0) * x
    raise ValueError(fn)

# ------------------------------------------------------------------------------------------------- the generator
def loguniform(rng, lo, hi):
    return float(np.exp(rng.uniform(np.log(lo), np.log(hi))))

def round_sig(x, nd=6):
    if x == 0 or not math.isfinite(x): return x
    return float('%.*g' % (nd, x))

class History:
    """a random history.  Attributes after generate(): demes (list of dict, graph order), migrations, pulses, Ne, bounds
    (descending times incl. 0), events {time: event}, samples [(deme, time)]"""
    def __init__(self, rng, max_live=5, n_events=None, want_ancient=False, force=None, small_Ne=False, cut_prob=0.45, fn_probs=(0.4, 0.35, 0.25)):
        self.rng = rng
        self.cut_prob = cut_prob; self.fn_probs = list(fn_probs)
        self.max_live = max_live
        self.want_ancient = want_ancient
        self.force = list(force or [])
        self.small_Ne = small_Ne
        self.n_events = int(rng.integers(2, 8)) if n_events is None else n_events
        self.generate()

    # -- pass 1: topology
    def generate(self):
        rng = self.rng
        # the frozen branch of an ancient sample has size 1: keep 1/Ne moderate there (time step ~ nu)
        self.Ne = round_sig(loguniform(rng, 12, 60), 4) if self.small_Ne else round_sig(loguniform(rng, 30, 300), 4)
        Ne = self.Ne
        K = self.n_events
        # interval lengths in units of 2 Ne generations; event k happens at times[k] (descending), present = 0
        Ts = [round_sig(loguniform(rng, 0.01, 0.12), 3) for _ in range(K + 1)]
        gens = [round_sig(T * 2 * Ne, 6) for T in Ts]
        times = []
        acc = 0.0
        for gl in reversed(gens):
            acc = round_sig(acc + gl, 9); times.append(acc)
        times = sorted(times[:-1], reverse=True) if False else sorted(times, reverse=True)
        # times[0] = root end of eternity (first event), ..., times[K] is > 0; we use K+1 boundaries, the last interval ends at 0
        self.bounds = times + [0.0]
        demes = []
        def mk(name, start, anc, props):
            d = dict(name=name, start_time=start, ancestors=list(anc), proportions=list(props), end_time=None, idx=len(demes))
            demes.append(d); return d
        root = mk('d0', INF, [], [])
        live = [root]
        events = {}
        pulses = []
        counter = [1]
        def fresh():
            n = 'd%d' % counter[0]; counter[0] += 1; return n
        kinds_all = ['split', 'branch', 'admix', 'merge', 'pulse', 'remove', 'rename', 'none']
        for k, t in enumerate(times):
            nl = len(live)
            opts = []
            if nl < self.max_live: opts += ['split', 'split', 'branch', 'branch']
            if 2 <= nl < self.max_live: opts += ['admix', 'merge']
            if nl >= 2: opts += ['pulse', 'pulse', 'remove']
            opts += ['rename', 'none']
            if k == 0: opts = ['split', 'split', 'branch', 'none', 'rename'] if self.max_live > 1 else ['none', 'rename']
            kind = None
            if self.force:
                want = self.force[0]
                if want in opts or want == 'any':
                    kind = self.force.pop(0)
                    if kind == 'any': kind = None
            if kind is None:
                kind = opts[int(rng.integers(len(opts)))]
            ev = dict(kind=kind, time=t)
            if kind == 'split':
                p = live[int(rng.integers(nl))]
                p['end_time'] = t
                c1 = mk(fresh(), t, [p['name']], [1.0]); c2 = mk(fresh(), t, [p['name']], [1.0])
                live = [d for d in live if d is not p] + [c1, c2]
                ev.update(parent=p['name'], children=[c1['name'], c2['name']])
            elif kind == 'branch':
                p = live[int(rng.integers(nl))]
                c = mk(fresh(), t, [p['name']], [1.0])
                live = live + [c]
                ev.update(parent=p['name'], child=c['name'])
            elif kind in ('admix', 'merge'):
                npar = 2 if nl == 2 or rng.random() < 0.7 else 3
                ii = sorted(rng.choice(nl, size=npar, replace=False).tolist())
                if rng.random() < 0.5: ii = ii[::-1]          # parents listed in another order than the axes
                par = [live[i] for i in ii]
                if npar == 2:
                    f = float(rng.choice([0.5, 0.25, round_sig(rng.uniform(0.05, 0.95), 3)]))
                    props = [f, 1.0 - f]
                else:
                    a = rng.dirichlet([2, 2, 2]); a = [round_sig(float(x), 3) for x in a[:2]]
                    props = a + [1.0 - a[0] - a[1]]
                c = mk(fresh(), t, [p['name'] for p in par], props)
                if kind == 'merge':
                    for p in par: p['end_time'] = t
                    live = [d for d in live if d not in par] + [c]
                else:
                    live = live + [c]
                ev.update(parents=[p['name'] for p in par], props=props, child=c['name'])
            elif kind == 'pulse':
                di = int(rng.integers(nl))
                others = [i for i in range(nl) if i != di]
                ns = 1 if len(others) == 1 or rng.random() < 0.7 else 2
                si = rng.choice(others, size=ns, replace=False).tolist()
                props = [round_sig(float(rng.uniform(0.02, 0.4)), 3) for _ in si]
                ev.update(sources=[live[i]['name'] for i in si], dest=live[di]['name'], props=props)
                pulses.append(dict(sources=ev['sources'], dest=ev['dest'], proportions=props, time=t))
            elif kind == 'remove':
                p = live[int(rng.integers(nl))]
                p['end_time'] = t
                live = [d for d in live if d is not p]
                ev.update(deme=p['name'])
            elif kind == 'rename':
                p = live[int(rng.integers(nl))]
                p['end_time'] = t
                c = mk(fresh(), t, [p['name']], [1.0])
                live = [d for d in live if d is not p] + [c]
                ev.update(parent=p['name'], child=c['name'])
            events[t] = ev
        for d in live:
            d['end_time'] = 0.0
        self.demes = demes; self.events = events; self.pulses = pulses
        self.final = [d['name'] for d in live]
        self._epochs()
        self._migrations()
        self._samples()

    def by_name(self, n):
        for d in self.demes:
            if d['name'] == n: return d
        raise KeyError(n)

    # -- pass 2: epochs (may span several intervals)
    def _epochs(self):
        rng = self.rng; Ne = self.Ne
        for d in self.demes:
            inner = [b for b in self.bounds if d['end_time'] < b < d['start_time']]
            cuts = [b for b in inner if rng.random() < self.cut_prob]
            edges = [d['start_time']] + cuts + [d['end_time']]
            eps = []
            prev_end = None
            for a, b in zip(edges[:-1], edges[1:]):
                if d['start_time'] == INF and a == INF:
                    fn = 'constant'
                else:
                    fn = ['constant', 'exponential', 'linear'][int(rng.choice(3, p=self.fn_probs))]
                n0 = round_sig(Ne * loguniform(rng, 0.25, 3.0), 4)
                if d['name'] == 'd0' and a == INF: n0 = Ne
                if prev_end is not None and rng.random() < 0.3: n0 = prev_end        # continuous size
                n1 = n0 if fn == 'constant' else round_sig(Ne * loguniform(rng, 0.25, 3.0), 4)
                if fn != 'constant' and n1 == n0: n1 = round_sig(n0 * 1.5, 4)
                eps.append(dict(start_time=a, end_time=b, start_size=n0, end_size=n1, size_function=fn))
                prev_end = n1
            d['epochs'] = eps

    def epoch_at(self, d, hi, lo):
        for e in d['epochs']:
            if e['start_time'] >= hi and e['end_time'] <= lo: return e
        raise KeyError((d['name'], hi, lo))

    def live_in(self, hi, lo):
        """demes alive on the open interval (lo, hi), in the documented axis order: older first, ties in graph order"""
        L = [d for d in self.demes if d['start_time'] >= hi and d['end_time'] <= lo]
        return sorted(L, key=lambda d: (-d['start_time'] if d['start_time'] != INF else -INF, d['idx']))

    # -- pass 3: migrations
    def _migrations(self):
        rng = self.rng; Ne = self.Ne
        migs = []
        style = rng.choice(['none', 'sparse', 'dense'], p=[0.2, 0.5, 0.3])
        pr = {'none': 0.0, 'sparse': 0.25, 'dense': 0.6}[str(style)]
        ivs = list(zip(self.bounds[:-1], self.bounds[1:]))
        # interval-wise pairs; a migration may be extended over following intervals while both demes live
        used = {}
        for k, (hi, lo) in enumerate(ivs):
            L = self.live_in(hi, lo)
            for a in L:
                for b in L:
                    if a is b or (a['name'], b['name'], hi) in used: continue
                    if rng.random() < pr:
                        end = lo
                        j = k + 1
                        while j < len(ivs) and rng.random() < 0.4 and a['end_time'] <= ivs[j][1] and b['end_time'] <= ivs[j][1]:
                            end = ivs[j][1]; j += 1
                        for jj in range(k, j): used[(a['name'], b['name'], ivs[jj][0])] = True
                        rate = round_sig(loguniform(rng, 0.1, 3.0) / (2 * Ne), 4)
                        if rng.random() < 0.25 and not any((b['name'], a['name'], ivs[jj][0]) in used for jj in range(k, j)):
                            for jj in range(k, j): used[(b['name'], a['name'], ivs[jj][0])] = True
                            migs.append(dict(demes=[a['name'], b['name']], rate=rate, start_time=hi, end_time=end))
                        else:
                            migs.append(dict(source=a['name'], dest=b['name'], rate=rate, start_time=hi, end_time=end))
        self.migrations = migs

    def rate(self, src, dst, hi, lo):
        r = 0.0
        for m in self.migrations:
            if m['start_time'] >= hi and m['end_time'] <= lo:
                if 'demes' in m:
                    if src in m['demes'] and dst in m['demes']: r = m['rate']
                elif m['source'] == src and m['dest'] == dst: r = m['rate']
        return r

    # -- samples
    def _samples(self):
        rng = self.rng
        fin = list(self.final)
        rng.shuffle(fin)
        k = int(rng.integers(1, len(fin) + 1))
        samples = [(n, 0.0) for n in fin[:k]]
        if self.want_ancient:
            cands = []
            frozen_n = 0
            for d in self.demes:
                if d['start_time'] == INF and len(self.demes) > 1 and d['end_time'] > 0 and False: continue
                # sample strictly inside an interval of the deme's life (never at an event time)
                for hi, lo in zip(self.bounds[:-1], self.bounds[1:]):
                    if d['start_time'] >= hi and d['end_time'] <= lo:
                        cands.append((d['name'], round_sig(lo + (hi - lo) * float(rng.uniform(0.2, 0.8)), 6), hi, lo))
            rng.shuffle(cands)
            na = int(rng.integers(1, 3))
            for c in cands:
                if na == 0: break
                # adding a frozen branch must not exceed max_live on any later interval
                ok = True
                for hi, lo in zip(self.bounds[:-1], self.bounds[1:]):
                    if lo < c[1]:
                        ev = self.events.get(lo, {}).get('kind')
                        grow = 1 if ev in ('split', 'branch', 'admix', 'merge') else 0     # the child exists before parents are removed
                        if len(self.live_in(hi, lo)) + grow + 1 + sum(1 for s in samples if s[1] > lo) > self.max_live: ok = False
                if ok and not any(s[0] == c[0] and s[1] == c[1] for s in samples):
                    samples.append((c[0], c[1])); na -= 1
            if rng.random() < 0.25 and any(t > 0 for _, t in samples):
                samples = [s for s in samples if s[1] > 0]            # only ancient samples: the present is cut off
        self.samples = samples

    # -- the demes graph
    def graph_dict(self, time_units='generations', generation_time=None, scale=1.0, tmul=1.0):
        """dict for demes.Builder.fromdict.  scale: sizes and times multiplied, rates divided.  tmul: additional factor on
        times only (years = generations * generation_time)"""
        def T(t): return t if t == INF else t * scale * tmul
        def R(r): return r / scale
        d = dict(time_units=time_units, demes=[], migrations=[], pulses=[])
        if generation_time is not None: d['generation_time'] = generation_time
        elif time_units != 'generations': d['generation_time'] = 1
        for dm in self.demes:
            e = dict(name=dm['name'], epochs=[dict(end_time=T(ep['end_time']), start_size=ep['start_size'] * scale, end_size=ep['end_size'] * scale,
                                                   size_function=ep['size_function']) for ep in dm['epochs']])
            if dm['ancestors']:
                e['ancestors'] = list(dm['ancestors']); e['start_time'] = T(dm['start_time'])
                if len(dm['ancestors']) > 1: e['proportions'] = list(dm['proportions'])
            d['demes'].append(e)
        for m in self.migrations:
            mm = dict(rate=R(m['rate']), start_time=T(m['start_time']), end_time=T(m['end_time']))
            if 'demes' in m: mm['demes'] = list(m['demes'])
            else: mm['source'] = m['source']; mm['dest'] = m['dest']
            d['migrations'].append(mm)
        for p in self.pulses:
            d['pulses'].append(dict(sources=list(p['sources']), dest=p['dest'], proportions=list(p['proportions']), time=T(p['time'])))
        return d

    # -- the hand-written dadi program
    def program(self, samples=None, Ne=None, frozen_nu=1.0):
        """ops and the axis names at the end.  Ancient samples become frozen branches (relative size `frozen_nu`, irrelevant
        for a frozen population); if every sample is ancient the program stops at the youngest sample time."""
        samples = list(self.samples if samples is None else samples)
        Nr = self.Ne if Ne is None else Ne
        t_stop = min(t for _, t in samples)
        anc = sorted([(n, t) for n, t in samples if t > t_stop], key=lambda s: -s[1])
        # integration intervals end where something in the history changes (an epoch, a migration, a pulse, a deme, a sample)
        used = set()
        for d in self.demes:
            for e in d['epochs']: used.add(e['start_time']); used.add(e['end_time'])
        for m in self.migrations: used.add(m['start_time']); used.add(m['end_time'])
        for p in self.pulses: used.add(p['time'])
        used.discard(INF)
        bounds = sorted(used | set(t for _, t in anc) | {t_stop}, reverse=True)
        bounds = [b for b in bounds if b >= t_stop]
        ops = [dict(op='phi1d', nu=self.demes[0]['epochs'][0]['start_size'] / Nr)]
        axes = ['d0']
        frozen = {}            # axis name -> (creation time, creation index)
        nfz = [0]
        def order_key(name):
            if name in frozen: return (-frozen[name][0], 10 ** 6 + frozen[name][1])
            d = self.by_name(name)
            return (-d['start_time'] if d['start_time'] != INF else -INF, d['idx'])
        def canon(axes):
            want = sorted(axes, key=order_key)
            if want != axes:
                ops.append(dict(op='reorder', order=[axes.index(n) for n in want]))
            return want
        def unit(n, k):
            return [1.0 if i == k else 0.0 for i in range(n)]
        hi = INF
        for lo in bounds:
            if hi != INF and hi > lo:
                T = (hi - lo) / (2.0 * Nr)
                nus = []; fz = []
                for n in axes:
                    if n in frozen:
                        nus.append(('c', frozen_nu)); fz.append(True); continue
                    d = self.by_name(n)
                    ep = self.epoch_at(d, hi, lo)
                    if ep['size_function'] == 'constant': nus.append(('c', ep['start_size'] / Nr))
                    else:
                        nus.append(({'exponential': 'e', 'linear': 'l'}[ep['size_function']], size_at(ep, hi) / Nr, size_at(ep, lo) / Nr))
                    fz.append(False)
                M = [[0.0] * len(axes) for _ in axes]
                for i, a in enumerate(axes):
                    for j, b in enumerate(axes):
                        if i != j and a not in frozen and b not in frozen:
                            M[i][j] = 2.0 * Nr * self.rate(b, a, hi, lo)      # into a (axis i) from b (axis j)
                ops.append(dict(op='integrate', T=T, nu=nus, M=M, frozen=fz))
            hi = lo
            if lo == t_stop:
                break
            # ancient samples taken at this time: a frozen copy of the sampled deme
            for (n, t) in anc:
                if t == lo:
                    nm = '%s@%r' % (n, t)
                    ops.append(dict(op='newpop', props=unit(len(axes), axes.index(n))))
                    frozen[nm] = (t, nfz[0]); nfz[0] += 1
                    axes = canon(axes + [nm])
            ev = self.events.get(lo)
            if ev is None: continue
            k = ev['kind']
            if k == 'split':
                i = axes.index(ev['parent'])
                ops.append(dict(op='newpop', props=unit(len(axes), i)))
                axes = axes[:i] + [ev['children'][0]] + axes[i + 1:] + [ev['children'][1]]
            elif k == 'branch':
                ops.append(dict(op='newpop', props=unit(len(axes), axes.index(ev['parent']))))
                axes = axes + [ev['child']]
            elif k in ('admix', 'merge'):
                pr = [0.0] * len(axes)
                for p, f in zip(ev['parents'], ev['props']): pr[axes.index(p)] = f
                ops.append(dict(op='newpop', props=pr))
                axes = axes + [ev['child']]
                if k == 'merge':
                    for p in ev['parents']:
                        i = axes.index(p); ops.append(dict(op='remove', axis=i)); axes.pop(i)
            elif k == 'pulse':
                pr = [0.0] * len(axes)
                for s, f in zip(ev['sources'], ev['props']): pr[axes.index(s)] = f
                ops.append(dict(op='pulse', dest=axes.index(ev['dest']), props=pr))
            elif k == 'remove':
                i = axes.index(ev['deme']); ops.append(dict(op='remove', axis=i)); axes.pop(i)
            elif k == 'rename':
                i = axes.index(ev['parent']); axes[i] = ev['child']
            axes = canon(axes)
        # final: keep the sampled axes in the requested order
        want = []
        for n, t in samples:
            want.append(n if t == t_stop else '%s@%r' % (n, t))
        for n in [a for a in axes if a not in want][::-1]:
            i = axes.index(n); ops.append(dict(op='remove', axis=i)); axes.pop(i)
        if axes != want:
            ops.append(dict(op='reorder', order=[axes.index(n) for n in want])); axes = want
        return ops, axes

    def describe(self):
        return dict(Ne=self.Ne, events=[self.events[t]['kind'] for t in sorted(self.events, reverse=True)],
                    demes=len(self.demes), samples=self.samples,
                    fns=sorted(set(e['size_function'] for d in self.demes for e in d['epochs'])),
                    migrations=len(self.migrations), sym=sum(1 for m in self.migrations if 'demes' in m),
                    max_live=max(len(self.live_in(hi, lo)) for hi, lo in zip(self.bounds[:-1], self.bounds[1:])))

# ------------------------------------------------------------------------------------------------- only-ancient samples (sliced graphs)
SLICE_MODES = ['first', 'middle', 'last', 'boundary']

def slice_history(rng, mode, sampled_target=True):
    """a history whose demes have 2-4 epochs of mixed size functions, sampled ONLY in the past: the youngest sample time (= the time at
    which dadi.Demes slices the graph) lies inside the first / a middle / the last epoch of a chosen multi-epoch deme, or exactly at one
    of its epoch boundaries; that deme is itself sampled (sampled_target) or an unsampled contemporary of the sampled ones.
    Returns (History, info) or None when the draw has no suitable deme."""
    first = str(rng.choice(['split', 'branch', 'branch']))
    k = int(rng.integers(4, 7))
    force = [first] + [str(rng.choice(['none', 'none', 'none', 'pulse', 'branch'])) for _ in range(k)]
    h = History(rng, max_live=3, n_events=k, force=force, small_Ne=True, cut_prob=0.85, fn_probs=(0.2, 0.45, 0.35))
    cands = [d for d in h.demes if d['end_time'] == 0.0 and len(d['epochs']) >= 2]
    if not cands: return None
    d = cands[int(rng.integers(len(cands)))]
    eps = d['epochs']
    if mode == 'first': j = 0
    elif mode == 'last': j = len(eps) - 1
    elif mode == 'middle':
        if len(eps) < 3: return None
        j = int(rng.integers(1, len(eps) - 1))
    else: j = None
    if mode == 'boundary':
        # an epoch boundary of the deme at which nothing structural happens
        bs = [e['end_time'] for e in eps[:-1] if h.events.get(e['end_time'], {}).get('kind') == 'none']
        if not bs: return None
        ts = float(bs[int(rng.integers(len(bs)))])
    else:
        e = eps[j]
        hi = min(e['start_time'], h.bounds[0] * 1.5 if e['start_time'] == INF else e['start_time']); lo = e['end_time']
        if e['start_time'] == INF: hi = h.bounds[0] * 1.3 + 1.0
        # strictly inside one integration interval of the epoch
        inner = sorted([b for b in h.bounds if lo < b < hi] + [lo, hi])
        m = int(rng.integers(len(inner) - 1))
        ts = round_sig(inner[m] + (inner[m + 1] - inner[m]) * float(rng.uniform(0.25, 0.75)), 6)
    alive = [x for x in h.demes if x['start_time'] > ts >= x['end_time']]
    if d not in alive: return None
    others = [x for x in alive if x is not d]
    if sampled_target or not others:
        youngest = [d] + [x for x in others if rng.random() < 0.4]
        sampled_target = True
    else:
        youngest = [others[int(rng.integers(len(others)))]]
    samples = [(x['name'], ts) for x in youngest]
    # possibly one older sample (a frozen branch), strictly inside an interval
    if rng.random() < 0.5:
        ivs = [(a, b) for a, b in zip(h.bounds[:-1], h.bounds[1:]) if b >= ts]
        rng.shuffle(ivs)
        for a, b in ivs:
            live = [x for x in h.demes if x['start_time'] >= a and x['end_time'] <= b]
            t2 = round_sig(max(b, ts) + (a - max(b, ts)) * float(rng.uniform(0.3, 0.7)), 6)
            ok = all(len(h.live_in(p, q)) + (1 if h.events.get(q, {}).get('kind') in ('split', 'branch', 'admix', 'merge') else 0) + 1 <= h.max_live + 1
                     for p, q in zip(h.bounds[:-1], h.bounds[1:]) if ts <= q < t2)
            if live and t2 > ts and ok:
                samples.append((live[int(rng.integers(len(live)))]['name'], t2)); break
    h.samples = samples
    cut = [e for x in alive for e in x['epochs'] if e['start_time'] > ts >= e['end_time']]
    info = dict(mode=mode, target=d['name'], target_sampled=bool(sampled_target), slice_time=ts, epochs_of_target=len(eps),
                cut_epoch_index=(j if j is not None else -1),
                cut_fns=sorted(set(e['size_function'] for e in cut if e['start_time'] > ts > e['end_time'])))
    return h, info

# ------------------------------------------------------------------------------------------------- random dadi programs (export)
def draw_order(rng, d):
    """a reordering of d axes (0-based).  Swaps are their own inverse and cannot tell `new[i] = old[order[i]]` from its inverse:
    from three populations on most draws are NOT involutions (3-cycles; for d = 4, 5 also full d-cycles and other non-involutions)."""
    ident = list(range(d))
    if d < 3 or rng.random() < 0.2:
        return rng.permutation(d).tolist()
    if d >= 4 and rng.random() < 0.4:                      # a full d-cycle
        names = rng.permutation(d).tolist()
        o = [0] * d
        for a, b in zip(names, names[1:] + names[:1]): o[a] = b
        return o
    for _ in range(50):
        o = rng.permutation(d).tolist()
        if [o[o[i]] for i in range(d)] != ident: return o
    return [(i + 1) % d for i in range(d)]

def is_involution(o):
    return [o[o[i]] for i in range(len(o))] == list(range(len(o)))

def random_program(rng, max_pops=5, n_steps=None, allow_admix=True, p_reorder=1.0, final_reorder=0.3, clean=False):
    """a neutral dadi program of 1..max_pops populations from splits, admixture, pulses, removal, reordering and constant /
    exponential / linear size changes with migration; root relative size `nu0` (1 mostly).
    clean: no admixture and no pulse directly followed by a new population (programs the open finding F-16f does not touch)."""
    if clean: allow_admix = False
    n_steps = int(rng.integers(3, 9)) if n_steps is None else n_steps
    nu0 = 1.0 if rng.random() < 0.6 else round_sig(loguniform(rng, 0.4, 2.5), 3)
    ops = [dict(op='phi1d', nu=nu0)]
    d = 1
    def integ(d, distinct=False):
        T = round_sig(loguniform(rng, 0.01, 0.12), 3)
        if distinct: T = round_sig(loguniform(rng, 0.04, 0.12), 3)
        nus = []
        for _ in range(d):
            r = rng.random()
            n0 = round_sig(loguniform(rng, 0.3, 3.0), 3); n1 = round_sig(loguniform(rng, 0.3, 3.0), 3)
            # the export recognises a linear change numerically (numpy.allclose at three instants): an exponential change
            # by a factor close to 1 is indistinguishable from a linear one by design -> keep exponential changes clear
            if 0.8 < n1 / n0 < 1.25: n1 = round_sig(n0 * (1.6 if rng.random() < 0.5 else 0.6), 3)
            nus.append(('c', n0) if r < 0.5 else (('e', n0, n1) if r < 0.8 else ('l', n0, n1)))
        M = [[0.0 if i == j or rng.random() < 0.5 else round_sig(float(rng.uniform(0.1, 3.0)), 3) for j in range(d)] for i in range(d)]
        if distinct and d >= 2:
            # the epoch after a reordering must tell the populations apart: well separated sizes, asymmetric migration
            base = round_sig(loguniform(rng, 0.25, 0.5), 3)
            sizes = [round_sig(base * (1.8 ** k), 3) for k in range(d)]
            rng.shuffle(sizes)
            nus = [(s[0], sizes[k]) if s[0] == 'c' else (s[0], sizes[k], round_sig(sizes[k] * (1.7 if rng.random() < 0.5 else 0.55), 3)) for k, s in enumerate(nus)]
            M = [[0.0 if i == j else round_sig(0.2 + 0.45 * ((3 * i + 5 * j) % 7), 3) for j in range(d)] for i in range(d)]
        return dict(op='integrate', T=T, nu=nus, M=M, frozen=[False] * d)
    ops.append(integ(1))
    for _ in range(n_steps):
        opts = []
        if d < max_pops: opts += ['split', 'split'] + (['admix'] if allow_admix else ['split'])
        if d >= 2: opts += ['pulse', 'pulse', 'remove'] + (['reorder'] if rng.random() < p_reorder else [])
        k = opts[int(rng.integers(len(opts)))]
        if clean and k == 'split' and ops[-1]['op'] == 'pulse':
            ops.append(integ(d))                                              # never a pulse directly followed by a new population
        if k == 'split':
            p = int(rng.integers(d)); ops.append(dict(op='newpop', props=[1.0 if i == p else 0.0 for i in range(d)])); d += 1
        elif k == 'admix':
            if d == 1: continue
            pr = rng.dirichlet([1.5] * d); pr = [round_sig(float(x), 3) for x in pr[:-1]]
            if rng.random() < 0.4 and d > 2: pr[int(rng.integers(d - 1))] = 0.0
            pr = pr + [1.0 - sum(pr)]
            ops.append(dict(op='newpop', props=pr)); d += 1
        elif k == 'pulse':
            dest = int(rng.integers(d))
            pr = [0.0] * d
            srcs = [i for i in range(d) if i != dest]
            ns = int(rng.integers(1, min(len(srcs), 3) + 1))
            for s in rng.choice(srcs, size=ns, replace=False).tolist(): pr[s] = round_sig(float(rng.uniform(0.02, 0.3)), 3)
            ops.append(dict(op='pulse', dest=dest, props=pr))
        elif k == 'remove':
            if ops[-1]['op'] != 'integrate': ops.append(integ(d))          # not at the instant of a pulse
            ops.append(dict(op='remove', axis=int(rng.integers(d)))); d -= 1
        elif k == 'reorder':
            ops.append(dict(op='reorder', order=draw_order(rng, d)))
            ops.append(integ(d, distinct=True))
            continue
        # a new or a removed population is followed by an integration (a deme of zero duration cannot be exported, and the
        # order of events at one instant is not a property of the history); pulses may pile up
        if k in ('split', 'admix', 'remove') or rng.random() < 0.75:
            ops.append(integ(d))
    if ops[-1]['op'] != 'integrate':
        ops.append(integ(d))
    if d >= 2 and rng.random() < final_reorder:
        ops.append(dict(op='reorder', order=draw_order(rng, d)))      # no integration follows: no splitting effect
    return ops, d
