"""C18 — the low-pass calling model redistributes probability and vanishes at deep coverage.

K  : the real helpers of dadi/LowPass/LowPass.py against the exact-rational Lean model (which evaluates the formulas
     *generated* from the current source): `Numerics.cached_part`, `partitions_and_probabilities` (both partition types,
     F = 0 and F > 0), `projection_inbreeding`, `projection_matrix`, `calling_error_matrix` (and prob_het_err read off its
     2-haplotype matrix), `probability_of_no_call_1D_GATK_multisample`, `probability_enough_individuals_covered`,
     `use_sim_mat` and the full output of `make_low_pass_func_GATK_multisample(...)` in 1-3 populations, analytic
     (sim_threshold = 1), mixed (1e-2) and simulated (0) regimes — in the simulated regimes the implementation's own
     simulated outputs (fixed rng seeds) are handed to the model, so the assembly is compared exactly while only closure
     properties are asserted of the simulations themselves.
L3 : written from the property statement with Fractions / brute force only (no Lean, no dadi internals): partitions =
     all and only the sorted {0,1,2}-vectors (brute-force enumeration); partition probabilities = exact multinomial /
     beta-binomial law (Fractions), positive, sum 1, continuous as F -> 0; matrices row-stochastic and non-negative, mean
     preserving; no-call and enough-coverage probabilities in [0,1]; corrected total <= uncorrected total, entries >= 0;
     deep coverage: corrected = plain projection up to the explicit 2^-D bound.
Simulated path (statistical, 6-sigma Monte-Carlo tolerances): `subsample_genotypes_1D` directly — L copies of fully and partly
     called locus patterns; kept rows, no uncalled genotype drawn, mean and whole distribution of the subsampled allele count =
     "nsub/2 of the called individuals at random" (exact by enumeration; K against the model's `projInb` row); and
     `check_sim_deep`: deep coverage with sim_threshold = 0 / 1e-30 / 1e-20, nsub < nseq, 1 and 2 populations, nsim 2000 / 1000:
     every simulated table = projection row(s) of its allele counts, corrected model = projected model within the summed bound.
Round 4: definedness (`check_defined`: coverage distributions with exactly zero mass at depth 0 / 0 and 1 / everywhere but one
     depth, all floating-point division/invalid warnings turned into errors — no `0 ** -1`, no nan; K: the generated definedness
     conditions `lp_defined`); the proved l1 deep-coverage bound `C18_deep_coverage` evaluated on the real code (`deep_l1_check`,
     K `projected` = the model's plain projection against projection_matrix / Spectrum.project, K `deepbound` = the bound's
     constants against an independent formula); the limit of the F > 0 branch of projection_matrix (`check_projmix0`: the model's
     exact Hardy-Weinberg mixture against the code's F = 0 matrix and, exactly, against the hypergeometric rows); and
     `check_part_cache`: after every case that runs the calling model, every entry of `Numerics._part_cache` is deep-compared
     with an independent enumeration (cached partition lists must never be modified by their users).
Round 5: `check_simtable` — ONE call of simulate_GATK_multisample_calling with every random draw recorded (`DrawRecorder` wraps the module
     globals `ss`, `rng`, `simulate_reads`, `subsample_genotypes_1D`): L3 from the recorded draws (probability table made of multiples of
     1/#loci, reads = f(genotype, depth, draw), depths in the support, entry 0 holds at least the loci without two alternative reads),
     K `simtable` (the model's `simTable` on the same draws, exactly), `simcount` (loci per aggregate partition = int(nsim p)), `simfit`;
     `check_simpipeline` — a whole corrected model (simulated / mixed regime, small sizes) with all draws recorded: K `corrected:draws`, the
     model computes the simulated tables itself from the draws and assembles the output (the object of C18_total_le_simulated);
     the proved entry-wise deep-coverage bound ((1 + D) + sum nsub) 2^-D |model|_1 replaces the heuristic of `deep_check` where its
     hypotheses hold and is evaluated where informative (`deep_l1_check`, K `deepentry`).
History: every single-function case starts from freshly reloaded LowPass module state, and `check_history` builds several
     low-pass functions in ONE process with the same population names (same sizes/options but different coverage; same
     coverage but different Fx / sizes / threshold / nsim / model), evaluates them in shuffled orders and repeatedly, and
     requires every result to equal (a) the same function built and evaluated alone (module reloaded, or a fresh
     interpreter), (b) the exact model fed that function's OWN coverage (K op `corrected:history`), (c) closure and, for
     deeply covered data, the deep-coverage identity.  The implementation's precalculated tables are observed by wrapping
     the module-level `low_cov_precalc_…` (not by looking into a closure), so it does not matter where the code caches them.
"""
import math, itertools, warnings
import numpy as np
from fractions import Fraction
from . import common
from .common import rat, fmt_list, fmt_nd, close

PROP = 'C18'
GENERATED = ['LowPass']
NEEDS_BUILD = False
NEEDS_DRIVER = True
DRIVER_MODULES = ['LowPass']

RTOL = 1e-9
TINY_F = 2.0 ** -18       # below this the pinned code's log-gamma route is ill-conditioned (absolute error ~ 1e-15 / F)

# --------------------------------------------------------------------------- helpers
def have_driver(ctx):
    d = ctx.get('driver')
    return d is not None and d.p is not None

def LPmod(ctx):
    import importlib
    return importlib.import_module('dadi.LowPass.LowPass')

def pf(t):
    if '/' in t:
        a, b = t.split('/')
        return int(a) / int(b)
    return float(int(t))

def parse_floats(s):
    return np.zeros(0) if s == '-' else np.array([pf(t) for t in s.split(',')])

def parse_rows(s):
    return np.array([parse_floats(r) for r in s.split(';')])

def parse_ndf(s):
    sh, dat = s.split(':')
    shape = tuple(int(t) for t in sh.split('x'))
    return parse_floats(dat).reshape(shape)

def covarr(probs):
    p = np.array(probs, dtype=float)
    return np.array([np.arange(len(p), dtype=float), p])

def gen_cov(rng, kind=None):
    """coverage distribution over depths 0..D (D <= 80): integer weights / 2^12, so the float probabilities are exact
    dyadic rationals summing to exactly 1"""
    kinds = ['poisson', 'poisson', 'poisson', 'geometric', 'uniform', 'two-point', 'point', 'no-zero-depth', 'mostly-zero', 'deep', 'depth1-only', 'full80']
    if kind is None:
        kind = kinds[int(rng.integers(len(kinds)))]
    T = 4096
    if kind == 'poisson':
        lam = float(rng.choice([0.3, 1.0, 2.0, 3.0, 5.0, 8.0, 15.0]))
        D = int(min(80, max(2, math.ceil(lam + 6 * math.sqrt(lam) + 2))))
        w = np.array([math.exp(-lam + d * math.log(lam) - math.lgamma(d + 1)) for d in range(D + 1)])
    elif kind == 'geometric':
        q = float(rng.uniform(0.3, 0.9)); D = int(rng.integers(2, 41))
        w = q ** np.arange(D + 1)
    elif kind == 'uniform':
        D = int(rng.integers(1, 31)); w = np.ones(D + 1)
    elif kind == 'two-point':
        D = int(rng.integers(1, 81)); w = np.zeros(D + 1); w[0] = rng.uniform(0.05, 0.9); w[D] = 1 - w[0]
    elif kind == 'point':
        D = int(rng.integers(1, 81)); w = np.zeros(D + 1); w[D] = 1.0
    elif kind == 'no-zero-depth':
        D = int(rng.integers(2, 41)); w = rng.uniform(0, 1, D + 1); w[0] = 0.0
    elif kind == 'mostly-zero':
        D = int(rng.integers(1, 11)); w = rng.uniform(0, 1, D + 1) * 0.05; w[0] = 1.0
    elif kind == 'deep':
        D = int(rng.integers(45, 81)); w = np.zeros(D + 1); lo = int(rng.integers(40, D + 1)); w[lo:] = rng.uniform(0.1, 1, D + 1 - lo)
    elif kind == 'depth1-only':
        D = 1; w = np.array([rng.uniform(0.0, 0.8), 1.0])
    else:
        D = 80; w = rng.uniform(0, 1, D + 1) ** 3
    w = np.asarray(w, dtype=float)
    iw = np.floor(w / w.sum() * T).astype(int)
    if iw[1:].sum() == 0:
        iw[len(iw) - 1] = 1
    # put the rounding remainder on the largest entry that is not depth 0 (keeps "no-zero-depth" honest)
    k = 1 + int(np.argmax(iw[1:]))
    iw[k] += T - iw.sum()
    assert iw.sum() == T and iw.min() >= 0 and iw[1:].sum() > 0
    return (iw / T).tolist(), kind

def gen_F(rng, allow_tiny=False):
    r = rng.random()
    if r < 0.3:
        return 0.0
    if allow_tiny and r < 0.4:
        return float(2.0 ** -int(rng.choice([24, 30, 36, 40, 44])))
    k = int(rng.choice([1, 8, 51, 102, 205, 307, 512, 717, 922, 1014, 1023, int(rng.integers(1, 1024))]))
    return k / 1024.0

def gen_sizes(rng, hi=20):
    nseq = 2 * int(rng.integers(1, hi // 2 + 1))
    r = rng.random()
    if r < 0.25: nsub = nseq
    elif r < 0.4: nsub = 2
    elif r < 0.55: nsub = max(2, nseq - 2)
    else: nsub = 2 * int(rng.integers(1, nseq // 2 + 1))
    return nseq, nsub

def fr(x):
    return Fraction(x)

# --------------------------------------------------------------------------- exact oracles (property text)
def brute_parts(x, n, minv=0, maxv=2):
    return [list(t) for t in itertools.combinations_with_replacement(range(minv, maxv + 1), n) if sum(t) == x]

def exact_partprobs(parts, x, n, F):
    """the probability of each genotype configuration given the allele count: F = 0 multinomial ways * 2^het / C(2n, x);
    F > 0 multinomial over the one-individual genotype law under inbreeding, normalised"""
    F = fr(F)
    if x == 0 or x == 2 * n:
        return [Fraction(1)] * len(parts) if len(parts) == 1 else None
    p = Fraction(x, 2 * n)
    g = [(1 - p) ** 2 + F * p * (1 - p), 2 * p * (1 - p) * (1 - F), p * p + F * p * (1 - p)]
    w = []
    for pt in parts:
        c = [pt.count(k) for k in range(3)]
        w.append(Fraction(math.factorial(n), math.factorial(c[0]) * math.factorial(c[1]) * math.factorial(c[2]))
                 * g[0] ** c[0] * g[1] ** c[1] * g[2] ** c[2])
    s = sum(w)
    return [v / s for v in w]

# --------------------------------------------------------------------------- partitions
def check_parts(chk, ctx, x, n, minv=0, maxv=2):
    N = ctx['dadi'].Numerics
    inp = dict(kind='part', x=x, n=n, minv=minv, maxv=maxv)
    try:
        got = [list(p) for p in (N.cached_part(x, n) if (minv, maxv) == (0, 2) else N.cached_part(x, n, minv, maxv))]
    except Exception as e:
        chk.fail('cached_part:raises:%s' % type(e).__name__, 'cached_part(%d,%d,%d,%d) raises %r' % (x, n, minv, maxv, e), inp); return None
    chk.l3(('part', n, x == 0, x == n * maxv, minv, maxv))
    want = brute_parts(x, n, minv, maxv)
    if sorted(map(tuple, got)) != sorted(map(tuple, want)) or len(set(map(tuple, got))) != len(got):
        chk.fail('cached_part:all-and-only', 'cached_part(%d,%d,%d,%d) = %r, the sorted vectors with that sum are %r' % (x, n, minv, maxv, got, want), inp)
    if have_driver(ctx):
        out = ctx['driver'].ask('lp_part %d %d %d %d' % (x, n, minv, maxv))
        mine = 'ok ' + ('none' if not got else ';'.join(','.join(str(v) for v in p) if p else '-' for p in got))
        if out == mine: chk.k_ok('part')
        else: chk.k_bad('part', inp, mine, out, None)
    return got

def check_partprobs(chk, ctx, nseq, F, x):
    """partitions_and_probabilities(nseq, 'allele_frequency', F, x): L3 exact law, K model; tiny F handled as ill-conditioned"""
    LP = LPmod(ctx)
    n = nseq // 2
    inp = dict(kind='partprob', nseq=nseq, F=F, x=x)
    try:
        parts, probs = LP.partitions_and_probabilities(nseq, 'allele_frequency', F, x)
        probs = np.array(probs, dtype=float)
    except Exception as e:
        chk.fail('partitions_and_probabilities:raises:%s' % type(e).__name__, 'partitions_and_probabilities(%d, allele_frequency, %r, %d) raises %r' % (nseq, F, x, e), inp); return
    tiny = 0 < F < TINY_F
    chk.l3(('partprob', n, 'F0' if F == 0 else ('tiny' if tiny else 'F'), x in (0, 2 * n), len(parts)))
    chk.stat('partprob_F0' if F == 0 else ('partprob_tinyF' if tiny else 'partprob_F'))
    if [list(p) for p in parts] != brute_parts(x, n):
        chk.fail('partitions_and_probabilities:partitions', 'partitions for allele count %d among %d individuals are %r' % (x, n, parts), inp)
    if len(probs) != len(parts) or not np.all(np.isfinite(probs)):
        chk.fail('partitions_and_probabilities:nonfinite', 'probabilities %r' % (probs,), inp); return
    if abs(probs.sum() - 1) > 1e-12 or probs.min() < 0:
        chk.fail('partitions_and_probabilities:sum', 'partition probabilities sum to %r, min %r' % (probs.sum(), probs.min()), inp)
    ex = exact_partprobs([list(p) for p in parts], x, n, F)
    if ex is not None:
        exf = np.array([float(v) for v in ex])
        err = float(np.max(np.abs(probs - exf)))
        if err > RTOL:
            if F > 0:
                ex0 = np.array([float(v) for v in exact_partprobs([list(p) for p in parts], x, n, 0)])
                chk.fail('part_inbreeding_probability:small-F:precision' if F < 1e-3 else 'part_inbreeding_probability:value',
                         'partition probabilities for x=%d, n=%d, F=%.3g are %r; the beta-binomial law gives %r (error %.3g; the F=0 law is %r, '
                         'true distance to it %.3g): not continuous as F -> 0' % (x, n, F, probs.tolist(), exf.tolist(), err, ex0.tolist(), float(np.max(np.abs(exf - ex0)))), inp)
            else:
                chk.fail('partitions_and_probabilities:F0:value', 'F=0 partition probabilities %r, exact %r (error %.3g)' % (probs.tolist(), exf.tolist(), err), inp)
    if have_driver(ctx):
        out = ctx['driver'].ask('lp_partprobs %d %d %s' % (x, n, rat(F)))
        if not out.startswith('ok '):
            chk.k_bad('partprobs', inp, probs, out, None)
        else:
            model = parse_floats(out[3:])
            ok, err, _ = close(probs, model, rtol=RTOL)
            if ok: chk.k_ok('partprobs')
            elif tiny: chk.k_skipped += 1          # ill-conditioned in floating point; decided by the exact oracle above
            else: chk.k_bad('partprobs', inp, probs, model, err)

def check_genotype_type(chk, ctx, nseq, F):
    """the 'genotype' partition type is the list over allele counts of the 'allele_frequency' results"""
    LP = LPmod(ctx)
    inp = dict(kind='genotype-type', nseq=nseq, F=F)
    try:
        parts, probs = LP.partitions_and_probabilities(nseq, 'genotype', F)
    except Exception as e:
        chk.fail('partitions_and_probabilities:genotype:raises:%s' % type(e).__name__, 'raises %r' % (e,), inp); return
    chk.l3(('genotype-type', nseq, F == 0))
    if len(parts) != nseq + 1:
        chk.fail('partitions_and_probabilities:genotype:length', '%d allele counts for %d haplotypes' % (len(parts), nseq), inp); return
    for x in range(nseq + 1):
        p1, q1 = LP.partitions_and_probabilities(nseq, 'allele_frequency', F, x)
        q = np.array(probs[x], dtype=float); q1 = np.array(q1, dtype=float)
        if [list(a) for a in parts[x]] != [list(a) for a in p1] or q.shape != q1.shape or float(np.max(np.abs(q - q1))) > 1e-12:
            chk.fail('partitions_and_probabilities:types-differ', "allele count %d: 'genotype' gives %r, 'allele_frequency' gives %r" % (x, q.tolist(), q1.tolist()), inp)
            return


# --------------------------------------------------------------------------- cached partitions must never be modified by their users
_CACHE_VERIFIED = {}

def check_part_cache(chk, ctx, inp, where):
    """every entry of `Numerics._part_cache` equals an independent enumeration of the sorted bounded vectors of that length
    and sum (deep comparison).  An entry found modified is reported and removed, so that the next case starts from a sound
    cache and is judged on its own."""
    N = ctx['dadi'].Numerics
    cache = getattr(N, '_part_cache', None)
    if not isinstance(cache, dict):
        return True
    ok = True
    for key in list(cache.keys()):
        try:
            cur = tuple(tuple(p) for p in cache[key])
        except Exception:
            cur = ('unreadable', repr(cache[key])[:80])
        want = _CACHE_VERIFIED.get(key)
        if want is None:
            if not (isinstance(key, tuple) and len(key) == 4):
                # a key of another shape cannot be interpreted here (not a violation by itself); what the table returns for every
                # (x, n, minval, maxval) is judged by check_parts on direct calls
                chk.stat('part_cache_key_other_shape'); continue
            x, n, minv, maxv = key
            try:
                if float(n) == int(n) and int(n) <= 12 and float(x) == int(x):
                    want = tuple(tuple(p) for p in brute_parts(int(x), int(n), int(minv), int(maxv)))
                else:
                    want = tuple(tuple(p) for p in N.part(x, n, minv, maxv))
            except Exception:
                continue
            if cur == want:
                _CACHE_VERIFIED[key] = want
        if cur != want:
            ok = False
            bad = next((p for p in cur if p not in set(want)), None)
            chk.fail('cached_part:cache-mutated:%s' % where,
                     'after %s the cached partition list Numerics._part_cache[%r] is no longer the list of the sorted vectors of length %r and sum %r: '
                     '%d entries (expected %d), e.g. %r — a function that received the cached list changed it in place, every later use of '
                     'cached_part(%r, %r) is wrong' % (where, key, key[1], key[0], len(cur), len(want), bad, key[0], key[1]), inp)
            del cache[key]
            pc = getattr(N, '_part_precalc_cache', None)
            if isinstance(pc, dict): pc.pop(key, None)
    chk.l3(('part-cache', where, len(cache) > 0))
    return ok

# --------------------------------------------------------------------------- definedness: no 0 ** -1, no x / 0
def gen_zero_cov(rng):
    """coverage distributions with *exactly* zero mass at depth 0 (and often 1): the cases in which a wrongly guarded power of
    coverage_distribution[1][0] is `0 ** -1`"""
    kind = ['no-depth0', 'no-depth01', 'depth1-only', 'point', 'deep', 'depth0-tiny', 'two-depths'][int(rng.integers(7))]
    if kind == 'no-depth0':
        D = int(rng.integers(2, 12)); w = rng.uniform(0.05, 1, D + 1); w[0] = 0.0
    elif kind == 'no-depth01':
        D = int(rng.integers(3, 12)); w = rng.uniform(0.05, 1, D + 1); w[0] = 0.0; w[1] = 0.0
    elif kind == 'depth1-only':
        w = np.array([0.0, 1.0])
    elif kind == 'point':
        D = int(rng.integers(2, 60)); w = np.zeros(D + 1); w[D] = 1.0
    elif kind == 'deep':
        return gen_cov(rng, 'deep')[0], 'deep'
    elif kind == 'depth0-tiny':
        D = int(rng.integers(2, 8)); w = rng.uniform(0.05, 1, D + 1); w[0] = 0.0
    else:
        D = int(rng.integers(2, 30)); w = np.zeros(D + 1); w[1] = rng.uniform(0.1, 0.9); w[D] = 1 - w[1]
    T = 4096
    iw = np.floor(w / w.sum() * T).astype(int)
    k = 1 + int(np.argmax(iw[1:])); iw[k] += T - iw.sum()
    c = (iw / T).tolist()
    if kind == 'depth0-tiny':
        c[0] = 2.0 ** -40; c[k] -= 2.0 ** -40       # positive but tiny: the guarded and the unguarded forms agree here
    return c, kind

def check_defined(chk, ctx, c, nseq, nsub, F):
    """with every floating-point divide-by-zero / invalid-operation turned into an exception, the three coverage functionals
    evaluate without one and give finite numbers in [0, 1] — in particular when P(depth 0) is exactly 0"""
    LP = LPmod(ctx)
    inp = dict(kind='defined', cov=c, nseq=nseq, nsub=nsub, F=F)
    chk.l3(('defined', c[0] == 0, len(c) > 1 and c[1] == 0, nseq, F == 0))
    res = {}
    for name, call in (('probability_of_no_call', lambda: LP.probability_of_no_call_1D_GATK_multisample(covarr(c), nseq, F)),
                       ('calling_error_matrix', lambda: LP.calling_error_matrix(covarr(c), nsub, F)),
                       ('probability_enough_individuals_covered', lambda: LP.probability_enough_individuals_covered(covarr(c), nseq, nsub))):
        try:
            with np.errstate(divide='raise', invalid='raise'), warnings.catch_warnings():
                warnings.simplefilter('error', RuntimeWarning)
                v = np.asarray(call(), dtype=float)
        except (FloatingPointError, ZeroDivisionError, RuntimeWarning) as e:
            chk.fail('%s:undefined-arithmetic' % name, '%s evaluates an undefined operation (%r) for a coverage distribution with P(depth 0) = %r, P(depth 1) = %r, '
                     'n_sequenced=%d, F=%r: a power of a zero base with a negative exponent or a division by zero is not guarded' % (name, e, c[0], c[1] if len(c) > 1 else None, nseq, F), inp)
            res[name] = False; continue
        except Exception as e:
            chk.fail('%s:raises:%s' % (name, type(e).__name__), '%s raises %r' % (name, e), inp); res[name] = False; continue
        res[name] = bool(np.all(np.isfinite(v)))
        if not res[name] or v.min() < -1e-12 or v.max() > 1 + 1e-9:
            chk.fail('%s:nonfinite' % name, '%s returns %r for P(depth 0) = %r' % (name, v.ravel()[:8].tolist(), c[0]), inp)
            continue
        # C18_deep_depth on the real code: no mass below depth D >= 2
        D = min(i for i, x in enumerate(c) if x != 0)
        if D >= 2 and sum(Fraction(x) for x in c) == 1:
            two = 2.0 ** -D
            if name == 'probability_of_no_call':
                lim = (1 + np.arange(nseq + 1) * D) * two
                if np.any(v[1:] > lim[1:] * (1 + 1e-9) + 1e-300):          # relative: the no-call probabilities are sums of non-negative products, no cancellation
                    af = 1 + int(np.argmax(v[1:] - lim[1:]))
                    chk.fail('probability_of_no_call:deep-bound', 'no depth below %d has mass, yet the no-call probability of allele count %d is %.3g > (1 + af*D) 2^-D = %.3g' % (D, af, float(v[af]), float(lim[af])), inp)
            elif name == 'calling_error_matrix':
                worst = float(np.max(1 - np.diag(v)))
                if worst > nsub * 2 * two * (1 + 1e-9) + 1e-12:          # 1e-12: rounding of a row of <= nsub+1 accumulated products
                    chk.fail('calling_error_matrix:deep-bound', 'no depth below %d has mass, yet a diagonal entry of the calling-error matrix is %.3g below 1 (> nsub * 2 * 2^-D = %.3g)' % (D, worst, nsub * 2 * two), inp)
            elif abs(float(v) - 1) > 1e-12:
                chk.fail('probability_enough_individuals_covered:deep', 'P(depth 0) = 0 but P(enough covered) = %r' % float(v), inp)
    if have_driver(ctx):
        out = ctx['driver'].ask('lp_defined %s %d %d' % (fmt_list(c), nseq, nsub))
        mine = 'ok %d,%d,%d' % (int(res.get('probability_of_no_call', False)), int(res.get('calling_error_matrix', False)), int(res.get('probability_enough_individuals_covered', False)))
        chk.k_ok('defined') if out == mine else chk.k_bad('defined', inp, mine, out, None)

# --------------------------------------------------------------------------- the limit of the F > 0 branch of projection_matrix
def check_projmix0(chk, ctx, nseq, nsub):
    """the Hardy-Weinberg mixture of individual-subsampling rows (limit of the inbreeding branch as F -> 0+, proved) is the
    hypergeometric matrix of the F = 0 branch: exact inside the model, numerical against the code (both branches)"""
    LP = LPmod(ctx)
    inp = dict(kind='projmix0', nseq=nseq, nsub=nsub)
    try:
        M0 = np.array(LP.projection_matrix(nseq, nsub, 0), dtype=float)
        Mt = np.array(LP.projection_matrix(nseq, nsub, 2.0 ** -30), dtype=float)
    except Exception as e:
        chk.fail('projection_matrix:raises:%s' % type(e).__name__, 'raises %r' % (e,), inp); return
    chk.l3(('projmix0', nseq, nsub))
    ex = np.array([exact_projrow(nseq, nsub, Fraction(1, 2 ** 30), af) for af in range(nseq + 1)]) if nseq <= 8 else None
    d = float(np.max(np.abs(Mt - M0)))
    if d > 4 * nseq * 2.0 ** -30 + RTOL:
        chk.fail('projection_matrix:small-F:continuity', 'projection_matrix(%d,%d,F=2^-30) differs from the F=0 matrix by %.3g' % (nseq, nsub, d), inp)
    if ex is not None and float(np.max(np.abs(Mt - ex))) > RTOL:
        chk.fail('projection_matrix:value', 'projection_matrix(%d,%d,2^-30) differs from the exact mixture by %.3g' % (nseq, nsub, float(np.max(np.abs(Mt - ex)))), inp)
    if have_driver(ctx):
        out = ctx['driver'].ask('lp_projmix0 %d %d' % (nseq, nsub))
        if out.startswith('ok ') and '|' in out:
            rows, mx = out[3:].split('|')
            ok, err, _ = close(M0, parse_rows(rows), rtol=RTOL)
            if ok and mx == '0': chk.k_ok('projmix0')
            else: chk.k_bad('projmix0', inp, M0, out[:300], err)
        else:
            chk.k_bad('projmix0', inp, M0, out, None)

# --------------------------------------------------------------------------- matrices
def row_checks(chk, M, name, inp, mean_target=None):
    """non-negative, rows sum to one, optional row means"""
    M = np.asarray(M, dtype=float)
    if not np.all(np.isfinite(M)):
        chk.fail('%s:nonfinite' % name, '%s has non-finite entries' % name, inp); return False
    ok = True
    if M.min() < -1e-15:
        chk.fail('%s:negative' % name, '%s has a negative entry %r' % (name, float(M.min())), inp); ok = False
    rs = M.sum(axis=1)
    if float(np.max(np.abs(rs - 1))) > RTOL:
        i = int(np.argmax(np.abs(rs - 1)))
        chk.fail('%s:rowsum' % name, 'row %d of %s sums to %r' % (i, name, float(rs[i])), inp); ok = False
    if mean_target is not None:
        mu = M.dot(np.arange(M.shape[1]))
        if float(np.max(np.abs(mu - mean_target))) > RTOL * max(1.0, float(np.max(np.abs(mean_target)))):
            i = int(np.argmax(np.abs(mu - mean_target)))
            chk.fail('%s:mean' % name, 'row %d of %s has mean allele count %r, expected %r' % (i, name, float(mu[i]), float(mean_target[i])), inp); ok = False
    return ok

def check_projinb(chk, ctx, rng):
    LP = LPmod(ctx)
    n = int(rng.integers(1, 11)); g = sorted(int(v) for v in rng.integers(0, 3, n))
    k = 2 * int(rng.integers(1, n + 1))
    inp = dict(kind='projinb', g=g, k=k)
    try:
        r = np.array(LP.projection_inbreeding(g, k), dtype=float)
    except Exception as e:
        chk.fail('projection_inbreeding:raises:%s' % type(e).__name__, 'projection_inbreeding(%r, %d) raises %r' % (g, k, e), inp); return
    chk.l3(('projinb', n, k == 2 * n, len(set(g))))
    # exact: number of k/2-subsets of the individuals with genotype sum s / C(n, k/2)
    ex = np.zeros(k + 1)
    for c in itertools.combinations(range(n), k // 2):
        ex[sum(g[i] for i in c)] += 1
    ex /= math.comb(n, k // 2)
    if r.shape != ex.shape or float(np.max(np.abs(r - ex))) > RTOL:
        chk.fail('projection_inbreeding:value', 'projection_inbreeding(%r, %d) = %r, subsampling %d of the %d individuals gives %r' % (g, k, r.tolist(), k // 2, n, ex.tolist()), inp)
    if have_driver(ctx):
        out = ctx['driver'].ask('lp_projinb %s %d' % (','.join(map(str, g)), k))
        if out.startswith('ok '):
            ok, err, _ = close(r, parse_floats(out[3:]), rtol=RTOL)
            chk.k_ok('projinb') if ok else chk.k_bad('projinb', inp, r, out, err)
        else:
            chk.k_bad('projinb', inp, r, out, None)

def check_projmat(chk, ctx, nseq, nsub, F):
    LP = LPmod(ctx)
    inp = dict(kind='projmat', nseq=nseq, nsub=nsub, F=F)
    try:
        M = np.array(LP.projection_matrix(nseq, nsub, F), dtype=float)
    except Exception as e:
        chk.fail('projection_matrix:raises:%s' % type(e).__name__, 'projection_matrix(%d,%d,%r) raises %r' % (nseq, nsub, F, e), inp); return None
    tiny = 0 < F < TINY_F
    chk.l3(('projmat', nseq, nsub == nseq, nsub == 2, 'F0' if F == 0 else ('tiny' if tiny else 'F')))
    chk.stat('projmat_F0' if F == 0 else 'projmat_F')
    if M.shape != (nseq + 1, nsub + 1):
        chk.fail('projection_matrix:shape', 'shape %r' % (M.shape,), inp); return None
    row_checks(chk, M, 'projection_matrix', inp, mean_target=np.arange(nseq + 1) * nsub / nseq)
    if have_driver(ctx):
        out = ctx['driver'].ask('lp_projmat %d %d %s' % (nseq, nsub, rat(F)))
        if out.startswith('ok '):
            ok, err, _ = close(M, parse_rows(out[3:]), rtol=RTOL)
            if ok: chk.k_ok('projmat')
            elif tiny: chk.k_skipped += 1
            else: chk.k_bad('projmat', inp, M, out[:400], err)
        else:
            chk.k_bad('projmat', inp, M, out, None)
    return M

def check_proj_continuity(chk, ctx, nseq, nsub, F):
    """F -> 0: the inbreeding branch tends to the F = 0 (hypergeometric) matrix; exact distance is O(F)"""
    LP = LPmod(ctx)
    inp = dict(kind='proj-continuity', nseq=nseq, nsub=nsub, F=F)
    try:
        M0 = np.array(LP.projection_matrix(nseq, nsub, 0), dtype=float)
        MF = np.array(LP.projection_matrix(nseq, nsub, F), dtype=float)
    except Exception as e:
        chk.fail('projection_matrix:raises:%s' % type(e).__name__, 'raises %r' % (e,), inp); return
    chk.l3(('proj-continuity', nseq, nsub, F))
    d = float(np.max(np.abs(MF - M0)))
    bound = 4 * nseq * F + RTOL
    if not np.isfinite(d) or d > bound:
        chk.fail('projection_matrix:small-F:continuity', 'projection_matrix(%d,%d,F=%.3g) differs from the F=0 matrix by %.3g (more than %d*F + 1e-9 = %.3g): not continuous as F -> 0'
                 % (nseq, nsub, F, d, 4 * nseq, bound), inp)

def check_callmat(chk, ctx, c, nsub, F):
    LP = LPmod(ctx)
    inp = dict(kind='callmat', cov=c, nsub=nsub, F=F)
    try:
        H = np.array(LP.calling_error_matrix(covarr(c), nsub, F), dtype=float)
    except Exception as e:
        chk.fail('calling_error_matrix:raises:%s' % type(e).__name__, 'calling_error_matrix(…, %d, %r) raises %r' % (nsub, F, e), inp); return None
    tiny = 0 < F < TINY_F
    chk.l3(('callmat', nsub, 'F0' if F == 0 else ('tiny' if tiny else 'F'), c[0] == 0, len(c)))
    if H.shape != (nsub + 1, nsub + 1):
        chk.fail('calling_error_matrix:shape', 'shape %r' % (H.shape,), inp); return None
    row_checks(chk, H, 'calling_error_matrix', inp, mean_target=np.arange(nsub + 1, dtype=float))
    # homozygous-only rows cannot move: af = 0 and af = nsub
    if abs(H[0, 0] - 1) > RTOL or abs(H[nsub, nsub] - 1) > RTOL:
        chk.fail('calling_error_matrix:fixed-ends', 'monomorphic rows are not fixed: H[0,0]=%r, H[n,n]=%r' % (H[0, 0], H[nsub, nsub]), inp)
    if have_driver(ctx):
        out = ctx['driver'].ask('lp_callmat %s %d %s' % (fmt_list(c), nsub, rat(F)))
        if out.startswith('ok '):
            ok, err, _ = close(H, parse_rows(out[3:]), rtol=RTOL)
            if ok: chk.k_ok('callmat')
            elif tiny: chk.k_skipped += 1
            else: chk.k_bad('callmat', inp, H, out[:400], err)
        else:
            chk.k_bad('callmat', inp, H, out, None)
    return H

def check_heterr(chk, ctx, c):
    """prob_het_err read off the 2-haplotype matrix: the single heterozygote is miscalled with probability e, half each way"""
    LP = LPmod(ctx)
    inp = dict(kind='heterr', cov=c)
    try:
        H = np.array(LP.calling_error_matrix(covarr(c), 2, 0), dtype=float)
    except Exception as e:
        chk.fail('calling_error_matrix:raises:%s' % type(e).__name__, 'raises %r' % (e,), inp); return
    e = 1 - H[1, 1]
    tail = sum(fr(v) for v in c[1:])
    ex = 2 * sum(fr(c[d]) / tail * Fraction(1, 2 ** d) for d in range(1, len(c)))
    chk.l3(('heterr', len(c), c[0] == 0))
    if not (0 <= e <= 1 + 1e-12) or abs(e - float(ex)) > RTOL:
        chk.fail('calling_error_matrix:prob_het_err', 'heterozygote error probability %r, expected 2*sum_d P(d | d>=1) 2^-d = %r' % (e, float(ex)), inp)
    if abs(H[1, 0] - e / 2) > RTOL or abs(H[1, 2] - e / 2) > RTOL:
        chk.fail('calling_error_matrix:symmetric-error', 'a miscalled heterozygote goes to 0 / 2 with probabilities %r / %r, expected %r each' % (H[1, 0], H[1, 2], e / 2), inp)
    if have_driver(ctx):
        out = ctx['driver'].ask('lp_heterr %s' % fmt_list(c))
        if out.startswith('ok ') and abs(pf(out[3:]) - e) <= RTOL: chk.k_ok('heterr')
        else: chk.k_bad('heterr', inp, e, out, None)

def check_axis_dev(chk, ctx, c, nseq, nsub, F):
    """C18_deep_axis on the real code, any coverage: every row of (prob_enough * projection_matrix) @ calling_error_matrix is
    within (1 - prob_enough) + 2 * n_sub * prob_het_err (l1) of the row of projection_matrix"""
    LP = LPmod(ctx)
    inp = dict(kind='axis-dev', cov=c, nseq=nseq, nsub=nsub, F=F)
    try:
        P = np.array(LP.projection_matrix(nseq, nsub, F), dtype=float)
        H = np.array(LP.calling_error_matrix(covarr(c), nsub, F), dtype=float)
        pe = float(LP.probability_enough_individuals_covered(covarr(c), nseq, nsub))
    except Exception as e:
        chk.fail('low_cov_precalc:axis:raises:%s' % type(e).__name__, 'raises %r' % (e,), inp); return
    tail = sum(fr(v) for v in c[1:])
    e = float(2 * sum(fr(c[d]) / tail * Fraction(1, 2 ** d) for d in range(1, len(c))))
    chk.l3(('axis-dev', nseq, nsub == nseq, F == 0, c[0] == 0))
    dev = np.abs((pe * P).dot(H) - P).sum(axis=1)
    bound = (1 - pe) + 2 * nsub * e
    if not np.all(np.isfinite(dev)) or float(dev.max()) > bound + RTOL:
        i = int(np.argmax(dev))
        chk.fail('low_cov_precalc:axis-deviation', 'row %d of (prob_enough*projection_matrix).calling_error_matrix is at l1 distance %.6g from the row of projection_matrix, '
                 'more than (1 - prob_enough) + 2*nsub*prob_het_err = %.6g (prob_enough=%.6g, prob_het_err=%.6g)' % (i, float(dev[i]), bound, pe, e), inp)

def exact_nocall(c, g):
    """P(at most one alternative read in total) for genotype vector g: product distribution, by convolution truncated at 2"""
    c = [fr(v) for v in c]
    A = sum(c[d] * Fraction(1, 2 ** d) for d in range(len(c)))
    B = sum(d * c[d] * Fraction(1, 2 ** d) for d in range(len(c)))
    c1 = c[1] if len(c) > 1 else Fraction(0)
    dist = [Fraction(1), Fraction(0)]            # P(total = 0), P(total = 1)
    for gv in g:
        if gv == 0: p0, p1 = Fraction(1), Fraction(0)
        elif gv == 1: p0, p1 = A, B
        else: p0, p1 = c[0], c1
        dist = [dist[0] * p0, dist[0] * p1 + dist[1] * p0]
    return dist[0] + dist[1]

def check_nocall(chk, ctx, c, nseq, F):
    LP = LPmod(ctx)
    inp = dict(kind='nocall', cov=c, nseq=nseq, F=F)
    try:
        q = np.array(LP.probability_of_no_call_1D_GATK_multisample(covarr(c), nseq, F), dtype=float)
    except Exception as e:
        chk.fail('probability_of_no_call:raises:%s' % type(e).__name__, 'raises %r' % (e,), inp); return None
    tiny = 0 < F < TINY_F
    chk.l3(('nocall', nseq, 'F0' if F == 0 else ('tiny' if tiny else 'F'), c[0] == 0, len(c) <= 2))
    if q.shape != (nseq + 1,) or not np.all(np.isfinite(q)):
        chk.fail('probability_of_no_call:nonfinite', 'result %r' % (q,), inp); return None
    if q.min() < -1e-15 or q.max() > 1 + 1e-12:
        chk.fail('probability_of_no_call:range', 'no-call probabilities outside [0,1]: min %r max %r' % (float(q.min()), float(q.max())), inp)
    if abs(q[0] - 1) > RTOL:
        chk.fail('probability_of_no_call:af0', 'an allele absent from the sample is called with probability %r' % (1 - q[0]), inp)
    # exact mixture over configurations (F = 0 and regular F only; small sizes)
    if not tiny and nseq <= 12:
        n = nseq // 2
        for x in range(nseq + 1):
            parts = brute_parts(x, n)
            pr = exact_partprobs(parts, x, n, F)
            if pr is None: pr = [Fraction(1)]
            ex = float(sum(p * exact_nocall(c, g) for p, g in zip(pr, parts)))
            if abs(q[x] - ex) > RTOL:
                chk.fail('probability_of_no_call:value', 'no-call probability at allele count %d is %r, P(at most one alternative read) is %r' % (x, float(q[x]), ex), inp)
                break
    if have_driver(ctx):
        out = ctx['driver'].ask('lp_nocall %s %d %s' % (fmt_list(c), nseq, rat(F)))
        if out.startswith('ok '):
            ok, err, _ = close(q, parse_floats(out[3:]), rtol=RTOL)
            if ok: chk.k_ok('nocall')
            elif tiny: chk.k_skipped += 1
            else: chk.k_bad('nocall', inp, q, out[:400], err)
        else:
            chk.k_bad('nocall', inp, q, out, None)
    return q

def check_enough(chk, ctx, c, nseq, nsub):
    LP = LPmod(ctx)
    inp = dict(kind='enough', cov=c, nseq=nseq, nsub=nsub)
    try:
        pe = float(LP.probability_enough_individuals_covered(covarr(c), nseq, nsub))
    except Exception as e:
        chk.fail('probability_enough_individuals_covered:raises:%s' % type(e).__name__, 'raises %r' % (e,), inp); return None
    chk.l3(('enough', nseq, nsub == nseq, nsub == 2, c[0] == 0))
    N = nseq // 2; m = nsub // 2
    c0 = fr(c[0]); t = 1 - c0
    ex = float(sum(math.comb(N - 1, k) * c0 ** (N - 1 - k) * t ** k for k in range(m - 1, N)))   # >= m-1 of the other N-1 individuals covered
    if not (-1e-15 <= pe <= 1 + 1e-12):
        chk.fail('probability_enough_individuals_covered:range', 'probability %r outside [0,1]' % pe, inp)
    if abs(pe - ex) > RTOL:
        chk.fail('probability_enough_individuals_covered:value', 'P(enough covered) = %r, binomial tail P(at least %d of %d others covered) = %r' % (pe, m - 1, N - 1, ex), inp)
    if c[0] == 0 and abs(pe - 1) > 1e-12:
        chk.fail('probability_enough_individuals_covered:deep', 'every individual is covered (P(depth 0) = 0) but P(enough covered) = %r' % pe, inp)
    if have_driver(ctx):
        out = ctx['driver'].ask('lp_enough %s %d %d' % (fmt_list(c), nseq, nsub))
        if out.startswith('ok ') and abs(pf(out[3:]) - pe) <= RTOL * max(1.0, abs(pe)): chk.k_ok('enough')
        else: chk.k_bad('enough', inp, pe, out, None)
    return pe

# --------------------------------------------------------------------------- the corrected model
def gen_model(rng, shape, kind=None):
    """a model spectrum (non-negative data, corners masked like every dadi model); 20 significant bits"""
    kinds = ['neutral', 'random', 'sparse', 'one-entry', 'spike']
    if kind is None:
        kind = kinds[int(rng.integers(len(kinds)))]
    if kind == 'neutral':
        idx = np.indices(shape).sum(axis=0).astype(float); idx[idx == 0] = 1.0
        data = float(rng.uniform(0.5, 100)) / idx
    elif kind == 'random':
        data = rng.uniform(0, 1, shape) ** 2 * 50
    elif kind == 'sparse':
        data = rng.uniform(0, 10, shape) * (rng.random(shape) < 0.3)
    elif kind == 'one-entry':
        data = np.zeros(shape); data[tuple(int(rng.integers(s)) for s in shape)] = float(rng.integers(1, 100))
    else:
        data = rng.uniform(0, 1, shape); data[tuple(int(rng.integers(s)) for s in shape)] += 4096.0
    from . import gen
    data = gen.coarse(np.asarray(data, dtype=float), 20)
    return data, kind

class Recorder:
    """records every call of `low_cov_precalc_…` (looked up as a module global by lowpass_func) with its result, so that
    the implementation's own simulated tables can be handed to the model — wherever the code keeps its cache"""
    NAME = 'low_cov_precalc_GATK_multisample_GATK_multisample'
    def __init__(self, LP):
        self.LP = LP; self.calls = []; self.orig = None
    def __enter__(self):
        self.orig = getattr(self.LP, self.NAME, None)
        if self.orig is not None:
            orig = self.orig; calls = self.calls
            def recording(*a, **k):
                r = orig(*a, **k); calls.append(r); return r
            setattr(self.LP, self.NAME, recording)
        return self
    def __exit__(self, *exc):
        if self.orig is not None:
            setattr(self.LP, self.NAME, self.orig)
        return False

def fresh_LP(ctx):
    """the LowPass module in its just-imported state (module-level state re-initialised)"""
    import importlib
    LP = LPmod(ctx)
    return importlib.reload(LP)

def case_ids(case):
    return list(case.get('ids') or ['p%d' % i for i in range(len(case['pops']))])

def build_lowpass(ctx, LP, case):
    """make_low_pass_func_GATK_multisample for one case; returns (wrapped function, model function, list of ns it was called with)"""
    dadi = ctx['dadi']
    pops = case['pops']
    ids = case_ids(case)
    cov = {ids[i]: covarr(p['cov']) for i, p in enumerate(pops)}
    nseq = [p['nseq'] for p in pops]; nsub = [p['nsub'] for p in pops]
    Fx = None if case.get('Fx_none') else [p['F'] for p in pops]
    data = np.array(case['data'], dtype=float).reshape([n + 1 for n in nseq])
    extra_mask = np.array(case['mask'], dtype=bool).reshape(data.shape) if case.get('mask') is not None else None
    calls = []
    def func(params, ns, pts):
        calls.append(list(ns))
        return dadi.Spectrum(data.copy(), mask=(np.ma.nomask if extra_mask is None else extra_mask))   # corners masked by default, as for every dadi model
    f = LP.make_low_pass_func_GATK_multisample(func, cov, ids, nseq, nsub, sim_threshold=case['thr'], Fx=Fx, nsim=case['nsim'])
    return f, func, calls

def eval_lowpass(LP, f, case):
    """one evaluation with the case's rng seeds (only a first evaluation draws random numbers)"""
    np.random.seed(case['sim_seed'] % (2 ** 32))
    LP.rng = np.random.default_rng(case['sim_seed'])
    return f([], [p['nsub'] for p in case['pops']], None)

def run_lowpass(ctx, case):
    """the corrected model function built and evaluated *alone* (module state fresh); returns
    (model spectrum, output, recorded precalc tuple or None, ns the model function was called with)"""
    LP = fresh_LP(ctx)
    f, func, calls = build_lowpass(ctx, LP, case)
    with Recorder(LP) as rec:
        out = eval_lowpass(LP, f, case)
    model = func([], [p['nseq'] for p in case['pops']], None)
    return model, out, (rec.calls[-1] if rec.calls else None), calls[:1]

def small_case(case, kind='lowpass'):
    d = dict(kind=kind, pops=case['pops'], thr=case['thr'], nsim=case['nsim'], sim_seed=case['sim_seed'],
             data=np.asarray(case['data'], dtype=float), mask=(None if case.get('mask') is None else np.asarray(case['mask'], dtype=int)),
             model_kind=case.get('model_kind'), Fx_none=bool(case.get('Fx_none')), deep=bool(case.get('deep')), deep_l1=bool(case.get('deep_l1')))
    if case.get('ids'): d['ids'] = list(case['ids'])
    return d

def case_from_json(inp):
    def arr(o, dtype=float):
        return np.array(o['data'], dtype=dtype).reshape(o['shape']) if isinstance(o, dict) else (None if o is None else np.array(o, dtype=dtype))
    case = dict(inp)
    case['data'] = arr(inp['data']); case['mask'] = arr(inp.get('mask'), int)
    return case

def regime_of(case):
    return 'analytic' if case['thr'] >= 1 else ('simulated' if case['thr'] <= 0 else 'mixed')

def unmasked(out):
    return np.where(np.ma.getmaskarray(out), 0.0, np.asarray(np.ma.getdata(out), dtype=float))

def model_data(model):
    return np.where(np.ma.getmaskarray(model), 0.0, np.asarray(np.ma.getdata(model), dtype=float))

def closure_checks(chk, case, model, out, inp, tag=''):
    """shape, finiteness, non-negativity, total <= uncorrected total; returns False if the output is unusable"""
    nsub = [p['nsub'] for p in case['pops']]
    mdata = model_data(model)
    odata = np.asarray(np.ma.getdata(out), dtype=float)
    if odata.shape != tuple(n + 1 for n in nsub):
        chk.fail('make_low_pass_func:shape', '%soutput shape %r for nsub=%r' % (tag, odata.shape, nsub), inp); return False
    vis = unmasked(out)
    if not np.all(np.isfinite(vis)):
        chk.fail('make_low_pass_func:nonfinite', '%scorrected model has non-finite entries' % tag, inp); return False
    tot_in = float(mdata.sum()); tot_out = float(vis.sum())
    scale = max(float(np.max(np.abs(mdata))), 1e-300)
    if vis.min() < -RTOL * scale:
        chk.fail('make_low_pass_func:negative', '%scorrected model has a negative entry %r (model is non-negative)' % (tag, float(vis.min())), inp)
    if tot_out > tot_in * (1 + 1e-9) + 1e-12 * scale:
        chk.fail('make_low_pass_func:total', '%scorrected model has total %r, more than the uncorrected total %r (regime %s)' % (tag, tot_out, tot_in, regime_of(case)), inp)
    return True

def deep_check(chk, ctx, case, model, out, inp, tag=''):
    """deep coverage in every individual: corrected = plain projection of the model spectrum (explicit 2^-D bound)"""
    if regime_of(case) == 'simulated':
        return True               # sim_threshold = 0: every entry is a Monte-Carlo estimate from nsim draws, the identity only holds up to sampling noise
    LP = LPmod(ctx)
    pops = case['pops']; d = len(pops)
    nsub = [p['nsub'] for p in pops]
    mdata = model_data(model)
    odata = np.asarray(np.ma.getdata(out), dtype=float); omask = np.array(np.ma.getmaskarray(out))
    tot_in = float(mdata.sum()); scale = max(float(np.max(np.abs(mdata))), 1e-300)
    Dmin = min(min(i for i, v in enumerate(p['cov']) if v > 0) for p in pops)
    if all(p['F'] == 0 for p in pops) or case.get('Fx_none'):
        ref = model.project(list(nsub))
        rdata = np.asarray(np.ma.getdata(ref), dtype=float); rmask = np.array(np.ma.getmaskarray(ref))
        what = 'Spectrum.project'
    else:
        rdata = mdata.copy()
        for ax, p in enumerate(pops):
            P = np.array(LP.projection_matrix(p['nseq'], p['nsub'], p['F']), dtype=float)
            rdata = np.moveaxis(np.tensordot(rdata, P, axes=([ax], [0])), -1, ax)
        rmask = np.zeros(rdata.shape, dtype=bool); rmask[tuple([0] * d)] = True; rmask[tuple(nsub)] = True
        what = 'the inbreeding-aware projection matrices'
    # C18_deep_coverage_entrywise (proved): ((1 + D) + sum_p nsub_p) 2^-D * |model|_1 when nothing on the support is simulated and the
    # coverage sums to exactly 1; never more than the older heuristic sum_p (D + 2 + nsub_p) 2^-D, which is kept for the other cases
    tol = sum((Dmin + 2 + p['nsub']) for p in pops) * 2.0 ** (-Dmin) * tot_in + RTOL * scale
    De, eb = deep_entry_formula(pops)
    if De >= 2 and case['thr'] >= float((1 + De) * Fraction(1, 2 ** De)) and mdata[tuple([0] * d)] == 0 \
            and all(sum(Fraction(v) for v in p['cov']) == 1 for p in pops):
        tol = min(tol, float(eb) * float(np.abs(mdata).sum()) + RTOL * scale)
        chk.stat('deep_entry_proved_bound')
    um = ~rmask & ~omask
    err = float(np.max(np.abs(odata[um] - rdata[um]))) if um.any() else 0.0
    if err > tol:
        rel = err / max(float(np.max(np.abs(rdata[um]))), 1e-300) if um.any() else 0.0
        chk.fail('make_low_pass_func:deep-coverage', '%severy individual has depth >= %d, yet the corrected model differs from the model projected with %s by %.3g '
                 '(%.1f%% of the largest entry; bound %.3g)' % (tag, Dmin, what, err, 100 * rel, tol), inp)
        return False
    return True

def deep_bound_formula(pops):
    """C18_deep_coverage's constant, written out independently of the model: D = smallest depth with positive probability in
    any population; (1 + max nseq * D) 2^-D + (#populations) * 4 * max nsub * 2^-D"""
    D = min(min(i for i, v in enumerate(p['cov']) if v != 0) for p in pops)
    two = Fraction(1, 2 ** D)
    eps = (1 + max(p['nseq'] for p in pops) * D) * two
    delta = 4 * max(p['nsub'] for p in pops) * two
    return D, eps + len(pops) * delta, eps, delta

def deep_entry_formula(pops):
    """C18_deep_coverage_entrywise's constant, written out independently of the model: ((1 + D) + sum_p nsub_p) 2^-D"""
    D = min(min(i for i, v in enumerate(p['cov']) if v != 0) for p in pops)
    return D, (1 + D + sum(p['nsub'] for p in pops)) * Fraction(1, 2 ** D)

def deep_l1_check(chk, ctx, case, model, out, inp, tag=''):
    """the proved bound (C18_deep_coverage / _analytic) on the real code: sum_j |corrected_j - projected_j| <= deepBound * sum_i |model_i|
    whenever no entry on the support of the model is simulated (sim_threshold >= (1 + max nseq D) 2^-D), the plain projection
    being the model pushed through projection_matrix (for F = 0: Spectrum.project).  K: the model's `projected (refAxesOf pops)`
    against that projection, and the bound's constants against the independent formula."""
    LP = LPmod(ctx)
    pops = case['pops']; d = len(pops)
    Fs = [0.0 if case.get('Fx_none') else p['F'] for p in pops]
    D, bound, eps, delta = deep_bound_formula(pops)
    if D < 2 or case['thr'] < float(eps) or any(abs(sum(Fraction(v) for v in p['cov']) - 1) != 0 for p in pops):
        return
    mdata = model_data(model)
    ref = mdata.copy()
    for ax, (p, F) in enumerate(zip(pops, Fs)):
        P = np.array(LP.projection_matrix(p['nseq'], p['nsub'], F), dtype=float)
        ref = np.moveaxis(np.tensordot(ref, P, axes=([ax], [0])), -1, ax)
    odata = np.asarray(np.ma.getdata(out), dtype=float)
    tot = float(np.abs(mdata).sum()); scale = max(float(np.max(np.abs(mdata))), 1e-300)
    chk.l3(('deep-l1', d, regime_of(case), any(F > 0 for F in Fs), any(p['nsub'] < p['nseq'] for p in pops)))
    chk.stat('deep_l1_%dpop' % d)
    if mdata[tuple([0] * d)] != 0:
        return
    l1 = float(np.abs(odata - ref).sum())
    lim = float(bound) * tot + RTOL * scale * odata.size
    if tot > 0:
        chk.stats['deep_l1_max_ratio'] = max(chk.stats.get('deep_l1_max_ratio', 0.0), l1 / lim)     # observed l1 distance / (proved bound + round-off allowance)
    if tot > 0 and float(bound) * tot > 100 * RTOL * scale * odata.size:
        chk.stat('deep_l1_informative')
        chk.stats['deep_l1_max_ratio_informative'] = max(chk.stats.get('deep_l1_max_ratio_informative', 0.0), l1 / (float(bound) * tot))   # observed / proved, where round-off is negligible
    # the entry-wise theorem (C18_deep_coverage_entrywise_analytic; its threshold condition (1 + D) 2^-D <= thr is implied by the l1 one)
    De, eb = deep_entry_formula(pops)
    linf = float(np.max(np.abs(odata - ref))) if odata.size else 0.0
    elim = float(eb) * tot + RTOL * scale
    if tot > 0 and float(eb) * tot > 100 * RTOL * scale:
        chk.stat('deep_entry_informative')
        chk.stats['deep_entry_max_ratio_informative'] = max(chk.stats.get('deep_entry_max_ratio_informative', 0.0), linf / (float(eb) * tot))
    if not np.isfinite(linf) or linf > elim:
        chk.fail('make_low_pass_func:deep-coverage:entry', '%severy individual has depth >= %d, sim_threshold=%r: an entry of the corrected model is %.3g away from the model '
                 'projected with projection_matrix, more than the proved entry-wise bound ((1 + D) + sum nsub) 2^-D * total = %.3g' % (tag, D, case['thr'], linf, elim), inp)
    if not np.isfinite(l1) or l1 > lim:
        chk.fail('make_low_pass_func:deep-coverage:l1', '%severy individual has depth >= %d, sim_threshold=%r: the corrected model is at l1 distance %.3g from the model '
                 'projected with projection_matrix, more than the proved bound ((1 + max nseq*D) + %d*4*max nsub) 2^-D * total = %.3g' % (tag, D, case['thr'], l1, d, lim), inp)
    if all(F == 0 for F in Fs):
        sp = model.project([p['nsub'] for p in pops])
        sm = ~np.array(np.ma.getmaskarray(sp))
        if case.get('mask') is None and sm.any() and float(np.max(np.abs(np.asarray(np.ma.getdata(sp), dtype=float)[sm] - ref[sm]))) > RTOL * scale:
            chk.fail('projection_matrix:vs-project', '%sthe model pushed through projection_matrix(F=0) differs from Spectrum.project' % tag, inp)
    if have_driver(ctx) and not any(0 < F < TINY_F for F in Fs):
        popstr = ';'.join('%s@%d@%d@%s' % (fmt_list(p['cov']), p['nseq'], p['nsub'], rat(F)) for p, F in zip(pops, Fs))
        o = ctx['driver'].ask('lp_projected %s %s' % (popstr, fmt_nd(mdata)))
        if o.startswith('ok '):
            ok, err, _ = close(ref, parse_ndf(o[3:]), rtol=RTOL, atol=RTOL * scale)
            chk.k_ok('projected') if ok else chk.k_bad('projected', inp, ref, o[:300], err)
        else:
            chk.k_bad('projected', inp, ref, o[:300], None)
        o = ctx['driver'].ask('lp_deepentry %s' % popstr)
        if o.startswith('ok ') and np.allclose(parse_floats(o[3:]), [float(De), float(eb)], rtol=1e-12, atol=0):
            chk.k_ok('deepentry')
        else:
            chk.k_bad('deepentry', inp, [float(De), float(eb)], o, None)
        o = ctx['driver'].ask('lp_deepbound %s' % popstr)
        mine = [float(D), float(bound), float(eps), float(delta)]
        if o.startswith('ok ') and np.allclose(parse_floats(o[3:]), mine, rtol=1e-12, atol=0):
            chk.k_ok('deepbound')
        else:
            chk.k_bad('deepbound', inp, mine, o, None)

def model_corrected(ctx, case, mdata, sim_outputs):
    """the Lean model's corrected spectrum for the case's OWN coverage distributions (simulated tables as given);
    returns (use_sim mask, array) or an error string"""
    drv = ctx['driver']
    pops = case['pops']
    popstr = ';'.join('%s@%d@%d@%s' % (fmt_list(p['cov']), p['nseq'], p['nsub'], rat(0.0 if case.get('Fx_none') else p['F'])) for p in pops)
    o1 = drv.ask('lp_usesim %s %s' % (rat(case['thr']), popstr))
    if not o1.startswith('ok '):
        return o1
    mus = parse_ndf(o1[3:]) > 0.5
    if any(not np.all(np.isfinite(np.asarray(so, dtype=float))) for so in sim_outputs.values()):
        return 'err the implementation handed over a simulated table with non-finite entries'
    sims = '-' if not sim_outputs else ';'.join('%s=%s' % ('.'.join(str(int(a)) for a in af), fmt_list(np.asarray(so, dtype=float).ravel().tolist())) for af, so in sim_outputs.items())
    o2 = drv.ask('lp_corrected %s %s %s %s' % (rat(case['thr']), popstr, fmt_nd(mdata), sims))
    if not o2.startswith('ok '):
        return o2[:300]
    return mus, parse_ndf(o2[3:])

def check_lowpass(chk, ctx, case, do_model=True):
    """one corrected model function, built and evaluated alone"""
    inp = small_case(case)
    pops = case['pops']; d = len(pops)
    nseq = [p['nseq'] for p in pops]; nsub = [p['nsub'] for p in pops]
    tinyF = any(0 < p['F'] < TINY_F for p in pops)
    try:
        with warnings.catch_warnings():
            warnings.simplefilter('ignore')
            model, out, pre, calls = run_lowpass(ctx, case)
    except Exception as e:
        chk.fail('make_low_pass_func:raises:%s' % type(e).__name__, 'corrected model for nseq=%r nsub=%r thr=%r raises %r' % (nseq, nsub, case['thr'], e), inp)
        return
    regime = regime_of(case)
    chk.l3(('lowpass', d, regime, case.get('model_kind'), any(p['F'] > 0 for p in pops), any(p['nsub'] < p['nseq'] for p in pops), bool(case.get('deep'))))
    chk.stat('lowpass_%dpop_%s' % (d, regime))
    if calls and calls[0] != list(nseq):
        chk.fail('make_low_pass_func:sample-sizes', 'the model function is called with ns=%r, expected the sequenced sizes %r' % (calls[0], nseq), inp)
    if not closure_checks(chk, case, model, out, inp):
        return
    odata = np.asarray(np.ma.getdata(out), dtype=float)
    vis = unmasked(out); mdata = model_data(model)
    tot_in = float(mdata.sum()); tot_out = float(vis.sum()); scale = max(float(np.max(np.abs(mdata))), 1e-300)
    if case.get('deep'):
        deep_check(chk, ctx, case, model, out, inp)
    if case.get('deep') or case.get('deep_l1'):
        deep_l1_check(chk, ctx, case, model, out, inp)
    check_part_cache(chk, ctx, inp, 'make_low_pass_func')
    sim_outputs = {}; use_sim_mat = None; pn = None
    if pre is None:
        chk.stat('precalc_not_observed')
        if regime != 'analytic':
            chk.fail('make_low_pass_func:precalc-not-run', 'a freshly built low-pass function evaluated for the first time did not compute its transformation matrices '
                     '(low_cov_precalc_… was not called): whatever it used was not derived from its own arguments', inp)
            return
    else:
        prob_nocall_ND, use_sim_mat, proj_mats, heterr_mats, sim_outputs = pre
        use_sim_mat = np.asarray(use_sim_mat, dtype=bool); pn = np.asarray(prob_nocall_ND, dtype=float)
        # closure properties of the simulated outputs (fixed seed): each is a probability table
        for af, so in sim_outputs.items():
            so = np.asarray(so, dtype=float)
            if so.shape != odata.shape or not np.all(np.isfinite(so)) or so.min() < 0 or abs(so.sum() - 1) > 1e-9:
                chk.fail('simulate_GATK_multisample_calling:closure', 'simulated output for allele counts %r: shape %r, min %r, total %r (not a probability table)'
                         % (tuple(int(a) for a in af), so.shape, float(np.nanmin(so)) if so.size else None, float(np.nansum(so))), inp)
                return
        if set(tuple(int(a) for a in k) for k in sim_outputs) != set(tuple(int(a) for a in i) for i in np.argwhere(use_sim_mat)):
            chk.fail('low_cov_precalc:sim-indices', 'simulated outputs exist for %d index tuples, use_sim_mat selects %d' % (len(sim_outputs), int(use_sim_mat.sum())), inp)
        if regime == 'analytic' and use_sim_mat.any():
            chk.fail('low_cov_precalc:threshold-1', 'sim_threshold = 1 ("always analytic") simulates %d entries' % int(use_sim_mat.sum()), inp)
        if regime == 'simulated' and not use_sim_mat.all():
            # threshold 0 means "always simulate" unless the no-call probability is exactly 0
            if np.any((pn > 0) & ~use_sim_mat):
                chk.fail('low_cov_precalc:threshold-0', 'sim_threshold = 0 leaves entries with positive no-call probability analytic', inp)
    # K: use_sim_mat and the whole output against the model
    if not (have_driver(ctx) and do_model):
        return
    res = model_corrected(ctx, case, mdata, sim_outputs)
    if isinstance(res, str):
        chk.k_bad('corrected', inp, odata, res, None); return
    mus, mo = res
    if use_sim_mat is not None:
        borderline = bool(np.any(np.abs(pn - case['thr']) <= 1e-9 * max(1.0, abs(case['thr'])))) and 0 < case['thr'] < 1
        if np.array_equal(mus, use_sim_mat):
            chk.k_ok('usesim')
        elif borderline or tinyF:
            chk.k_skipped += 1; return
        else:
            chk.k_bad('usesim', inp, use_sim_mat.astype(int), mus.astype(int), None); return
    ok, err, sc = close(vis, mo, rtol=RTOL, atol=RTOL * scale)
    if ok: chk.k_ok('corrected:%s' % regime)
    elif tinyF: chk.k_skipped += 1
    else: chk.k_bad('corrected:%s' % regime, inp, odata, mo, err)
    chk.sample(dict(nseq=nseq, nsub=nsub, regime=regime, F=[p['F'] for p in pops], total_in=tot_in, total_out=tot_out,
                    simulated_entries=(None if use_sim_mat is None else int(use_sim_mat.sum()))))

# --------------------------------------------------------------------------- the simulated path: statistics
ZSIG = 6.0          # standard deviations allowed for Monte-Carlo frequencies (calibrated on the unchanged tree: largest observed deviation 2.7 sigma quick / 3.6 sigma thorough over seeds 0..3)

def subsample_exact(g_called, m):
    """distribution of the allele count when m of the called individuals (genotypes g_called) are drawn without replacement"""
    tot = math.comb(len(g_called), m)
    out = {}
    for c in itertools.combinations(range(len(g_called)), m):
        s = sum(g_called[i] for i in c)
        out[s] = out.get(s, 0) + Fraction(1, tot)
    return out

def stat_tol(p, n, slack=0.0):
    return ZSIG * math.sqrt(max(p * (1 - p), 0.0) / n) + slack

def check_subsample(chk, ctx, sc):
    """`subsample_genotypes_1D` on L copies each of a few locus patterns (genotypes 0/1/2, 99 = not called): rows with fewer
    than nsub/2 calls are dropped, every kept row consists of called genotypes only, and the subsampled allele count follows
    the hypergeometric law "nsub/2 of the called individuals at random" — for fully called and for partly called loci."""
    LP = fresh_LP(ctx)
    inp = dict(kind='subsample', patterns=[list(map(int, g)) for g in sc['patterns']], L=int(sc['L']), nsub=int(sc['nsub']), seed=int(sc['seed']))
    pats = inp['patterns']; L = inp['L']; nsub = inp['nsub']; m = nsub // 2
    N = len(pats[0])
    prng = np.random.default_rng(inp['seed'] + 1)
    rows = []; owner = []
    for k, g in enumerate(pats):
        for _ in range(L):
            rows.append([g[i] for i in prng.permutation(N)]); owner.append(k)      # the individuals' order is irrelevant
    perm = prng.permutation(len(rows))
    calls = np.array([rows[i] for i in perm], dtype=int); owner = np.array([owner[i] for i in perm])
    LP.rng = np.random.default_rng(inp['seed'])
    try:
        sub = np.asarray(LP.subsample_genotypes_1D(calls.copy(), nsub))
    except Exception as e:
        chk.fail('subsample_genotypes_1D:raises:%s' % type(e).__name__, 'subsample_genotypes_1D raises %r' % (e,), inp); return
    ncalled = [sum(1 for v in g if v != 99) for g in pats]
    chk.l3(('subsample', N, m, tuple(sorted(set('full' if c == N else ('dropped' if c < m else 'partial') for c in ncalled))), m == N))
    kept = [k for k in range(len(pats)) if ncalled[k] >= m]
    if sub.ndim != 2 or sub.shape != (L * len(kept), m):
        chk.fail('subsample_genotypes_1D:shape', 'result shape %r, expected %d kept loci x %d individuals' % (sub.shape, L * len(kept), m), inp); return
    if sub.size and (sub.max() > 2 or sub.min() < 0):
        chk.fail('subsample_genotypes_1D:missing-kept', 'a subsample contains a value outside {0,1,2} (an uncalled genotype was drawn)', inp); return
    # the output is grouped by the number of called individuals (ascending); patterns with equal counts are pooled
    groups = {}
    for k in kept: groups.setdefault(ncalled[k], []).append(k)
    pos = 0
    for c in sorted(groups):
        ks = groups[c]
        block = sub[pos:pos + L * len(ks)]; pos += L * len(ks)
        sums = block.sum(axis=1)
        n = len(sums)
        ex = {}
        for k in ks:
            for sv, pr in subsample_exact([v for v in pats[k] if v != 99], m).items():
                ex[sv] = ex.get(sv, 0) + pr / len(ks)
        mean_ex = float(sum(sv * pr for sv, pr in ex.items())); var_ex = float(sum(sv * sv * pr for sv, pr in ex.items())) - mean_ex ** 2
        mean = float(sums.mean())
        what = 'loci with %d of %d individuals called (patterns %r), %d of them subsampled, %d loci' % (c, N, [pats[k] for k in ks], m, n)
        if abs(mean - mean_ex) > ZSIG * math.sqrt(max(var_ex, 0.0) / n) + 1e-12:
            chk.fail('subsample_genotypes_1D:mean', '%s: mean subsampled allele count %.4f, drawing individuals at random gives %.4f (sd of the mean %.2g)'
                     % (what, mean, mean_ex, math.sqrt(max(var_ex, 0.0) / n)), inp)
            continue
        bad = None
        for sv in range(2 * m + 1):
            pr = float(ex.get(sv, 0)); fq = float(np.mean(sums == sv))
            chk.stats['mc_max_sigma'] = max(chk.stats.get('mc_max_sigma', 0.0), abs(fq - pr) / math.sqrt(pr * (1 - pr) / n) if 0 < pr < 1 else 0.0)
            if abs(fq - pr) > stat_tol(pr, n):
                bad = (sv, fq, pr); break
        if bad:
            chk.fail('subsample_genotypes_1D:distribution', '%s: allele count %d has frequency %.4f, the hypergeometric law gives %.4f' % ((what,) + bad), inp)
        elif have_driver(ctx) and len(ks) == 1:
            # K (statistical): the model's exact `projection_inbreeding` row for the called genotypes
            g = sorted(v for v in pats[ks[0]] if v != 99)
            out = ctx['driver'].ask('lp_projinb %s %d' % (','.join(map(str, g)), 2 * m))
            if out.startswith('ok '):
                row = parse_floats(out[3:])
                okk = all(abs(float(np.mean(sums == sv)) - row[sv]) <= stat_tol(row[sv], n) for sv in range(2 * m + 1))
                chk.k_ok('subsample:projinb') if okk else chk.k_bad('subsample:projinb', inp, [float(np.mean(sums == sv)) for sv in range(2 * m + 1)], row, None)
            else:
                chk.k_bad('subsample:projinb', inp, None, out, None)

def gen_subsample(rng, tier):
    N = int(rng.integers(2, 11))
    m = int(rng.integers(1, N + 1))
    if rng.random() < 0.7 and N > 1:
        m = int(rng.integers(1, N))                    # genuinely subsampling
    pats = []
    def geno():
        kind = int(rng.integers(4))
        if kind == 0: g = [0] * N; g[int(rng.integers(N))] = 1                       # a singleton
        elif kind == 1: g = [int(v) for v in rng.integers(0, 3, N)]
        elif kind == 2: g = [int(v) for v in rng.choice([0, 2], N)]                   # homozygotes only
        else: g = [int(v) for v in rng.choice([0, 1, 2], N, p=[0.7, 0.2, 0.1])]
        return g
    pats.append(geno())                                                               # fully called
    used = {N}
    for _ in range(int(rng.integers(1, 4))):
        g = geno()
        c = int(rng.integers(0, N))                                                   # number called < N
        if c in used: continue
        used.add(c)
        miss = rng.permutation(N)[:N - c]
        for i in miss: g[int(i)] = 99
        pats.append(g)
    if rng.random() < 0.3:
        pats = pats[1:] or pats                                                       # sometimes no fully called locus at all
    if rng.random() < 0.3:
        pats = pats[:1]                                                               # sometimes only one pattern
    if not any(sum(1 for v in g if v != 99) >= m for g in pats):
        m = max(1, max(sum(1 for v in g if v != 99) for g in pats))                   # the caller only passes loci with enough calls; keep at least one pattern
        if m == 1 and not any(sum(1 for v in g if v != 99) >= 1 for g in pats):
            pats = [geno()]
    return dict(patterns=pats, L=int(3000 if tier == 'quick' else 6000), nsub=2 * m, seed=int(rng.integers(1, 2 ** 31)))

def exact_projrow(nseq, nsub, F, af):
    """P(allele count j among nsub/2 of the nseq/2 individuals | allele count af among all), genotype configurations drawn
    from the F = 0 / inbreeding law: for F = 0 this is the hypergeometric law on haplotypes"""
    if F == 0:
        return np.array([math.comb(af, j) * math.comb(nseq - af, nsub - j) / math.comb(nseq, nsub) if 0 <= nsub - j <= nseq - af and j <= af else 0.0 for j in range(nsub + 1)])
    n = nseq // 2
    parts = brute_parts(af, n)
    pr = exact_partprobs(parts, af, n, F) or [Fraction(1)]
    row = [Fraction(0)] * (nsub + 1)
    for q, g in zip(pr, parts):
        for sv, w in subsample_exact(g, nsub // 2).items():
            row[sv] += q * w
    return np.array([float(v) for v in row])

def check_sim_deep(chk, ctx, case):
    """Simulated regime with deep coverage (every individual called, heterozygotes never miscalled): each simulated table
    is, up to Monte-Carlo noise, the projection row of its allele counts — in particular when nsub < nseq — hence the
    corrected model is the projected model within an explicit statistical bound; totals never increase."""
    check_lowpass(chk, ctx, dict(case, deep=False))    # closure properties, K (assembly with the implementation's own tables); the exact identity does not apply to Monte-Carlo tables
    inp = small_case(case, 'sim-deep')
    pops = case['pops']; d = len(pops)
    nseq = [p['nseq'] for p in pops]; nsub = [p['nsub'] for p in pops]
    try:
        with warnings.catch_warnings():
            warnings.simplefilter('ignore')
            model, out, pre, _ = run_lowpass(ctx, case)
    except Exception:
        return                                          # already reported by check_lowpass
    chk.l3(('sim-deep', d, tuple(a == b for a, b in zip(nseq, nsub)), case['thr'] == 0, any(p['F'] > 0 for p in pops)))
    chk.stat('sim_deep_%dpop' % d)
    if pre is None:
        return
    prob_nocall_ND, use_sim_mat, _, _, sim_outputs = pre
    use_sim_mat = np.asarray(use_sim_mat, dtype=bool)
    Fs = [0.0 if case.get('Fx_none') else p['F'] for p in pops]
    rows = [[exact_projrow(p['nseq'], p['nsub'], F, af) for af in range(p['nseq'] + 1)] for p, F in zip(pops, Fs)]
    nparts = [[max(1, len(brute_parts(af, p['nseq'] // 2))) for af in range(p['nseq'] + 1)] for p in pops]
    mdata = model_data(model)
    shape_out = tuple(n + 1 for n in nsub)
    expect = np.zeros(shape_out); bound = np.zeros(shape_out)
    Dmin = min(min(i for i, v in enumerate(p['cov']) if v > 0) for p in pops)
    eps = sum((Dmin + 2 + p['nsub']) for p in pops) * 2.0 ** (-Dmin)
    for idx in itertools.product(*[range(n + 1) for n in nseq]):
        E = np.ones(())
        for ax in range(d):
            E = np.multiply.outer(E, rows[ax][idx[ax]])
        expect += mdata[idx] * E
        if not use_sim_mat[idx]:
            bound += mdata[idx] * eps
            continue
        so = np.asarray(sim_outputs[tuple(idx)] if tuple(idx) in sim_outputs else sim_outputs[[k for k in sim_outputs if tuple(int(a) for a in k) == tuple(idx)][0]], dtype=float)
        if sum(idx) == 0:
            continue                                    # no alternative allele: everything is recorded as not called (entry 0), masked in the model
        npart = int(np.prod([nparts[ax][idx[ax]] for ax in range(d)]))
        n_eff = max(1.0, case['nsim'] - npart)          # int() truncation of nsim * partition probability
        slack = 2.0 * npart / case['nsim'] + eps
        tol = ZSIG * np.sqrt(np.maximum(E * (1 - E), 0.0) / n_eff) + slack
        bound += mdata[idx] * tol
        dev = np.abs(so - E)
        with np.errstate(divide='ignore', invalid='ignore'):
            sig = np.where((E > 0) & (E < 1), (dev - slack) / np.sqrt(E * (1 - E) / n_eff), 0.0)
        chk.stats['mc_max_sigma'] = max(chk.stats.get('mc_max_sigma', 0.0), float(np.max(sig)))
        if np.any(dev > tol):
            j = tuple(int(v) for v in np.unravel_index(int(np.argmax(dev - tol)), dev.shape))
            chk.fail('simulate_GATK_multisample_calling:deep-coverage:distribution',
                     'deep coverage (depth >= %d), nseq=%r nsub=%r F=%r, nsim=%d: the simulated call spectrum for allele counts %r is %s, subsampling %r of the sequenced haplotypes '
                     'gives %s (entry %r off by %.3g, allowed %.3g)' % (Dmin, nseq, nsub, Fs, case['nsim'], tuple(idx), np.round(so, 4).tolist(), nsub, np.round(E, 4).tolist(), j, float(dev[j]), float(tol[j])), inp)
            return
    odata = np.asarray(np.ma.getdata(out), dtype=float); omask = np.array(np.ma.getmaskarray(out))
    um = ~omask; um[tuple([0] * d)] = False; um[tuple(nsub)] = False            # the projected model masks its corners
    scale = max(float(np.max(np.abs(mdata))), 1e-300)
    dev = np.abs(odata - expect); lim = bound + RTOL * scale
    if np.any(dev[um] > lim[um]):
        w = np.where(um, dev - lim, -np.inf)
        j = tuple(int(v) for v in np.unravel_index(int(np.argmax(w)), w.shape))
        chk.fail('make_low_pass_func:deep-coverage:simulated', 'deep coverage (depth >= %d) with sim_threshold=%r, nseq=%r nsub=%r: the corrected model differs from the projected model '
                 'at entry %r by %.3g (%.1f%% of the largest projected entry; Monte-Carlo bound %.3g)' % (Dmin, case['thr'], nseq, nsub, j, float(dev[j]), 100 * float(dev[j]) / max(float(expect.max()), 1e-300), float(lim[j])), inp)
    check_part_cache(chk, ctx, inp, 'simulated-deep')

def gen_sim_deep(rng, tier, d=1):
    hi = {1: 12, 2: 6}[d]
    pops = []
    for k in range(d):
        nseq = 2 * int(rng.integers(2, hi // 2 + 1))
        nsub = 2 * int(rng.integers(1, nseq // 2))                   # strictly fewer than sequenced
        if k > 0 and rng.random() < 0.3:
            nsub = nseq
        if rng.random() < 0.5:
            D = int(rng.integers(40, 81)); c = [0.0] * D + [1.0]; ck = 'point-deep'
        else:
            c, ck = gen_cov(rng, 'deep')
        F = 0.0 if rng.random() < 0.6 else float(rng.choice([51, 205, 512, 922])) / 1024.0
        pops.append(dict(cov=c, cov_kind=ck, nseq=nseq, nsub=nsub, F=F))
    shape = [p['nseq'] + 1 for p in pops]
    data, mk = gen_model(rng, shape, kind=['neutral', 'random', 'one-entry', 'spike'][int(rng.integers(4))])
    thr = 0.0 if rng.random() < 0.7 else float(rng.choice([1e-30, 1e-20]))      # deep coverage: tiny thresholds still send many entries to the simulator
    return dict(pops=pops, thr=thr, nsim=int({1: 2000, 2: 1000}[d]), sim_seed=int(rng.integers(1, 2 ** 31)), data=data, mask=None, model_kind=mk, Fx_none=False, deep=True)

# --------------------------------------------------------------------------- the simulator as a function of its random draws
class _Fwd:
    """forwards every attribute to the wrapped object except the ones overridden"""
    def __init__(self, obj, **over):
        self.__dict__['_obj'] = obj; self.__dict__['_over'] = over
    def __getattr__(self, k):
        o = self.__dict__['_over']
        return o[k] if k in o else getattr(self.__dict__['_obj'], k)

class DrawRecorder:
    """records every random draw of `simulate_GATK_multisample_calling` (depths: `ss.rv_discrete(...).rvs`, alternative reads of
    heterozygotes: `ss.binom.rvs`, subsampling permutations: `rng.permuted`) together with the call structure
    (`simulate_reads` / `subsample_genotypes_1D` boundaries), by wrapping the module globals the simulator looks up."""
    def __init__(self, LP, tables=False):
        self.LP = LP; self.ev = []; self.saved = {}; self.tables = tables
    def __enter__(self):
        LP = self.LP; ev = self.ev
        for k in ('ss', 'rng', 'simulate_reads', 'subsample_genotypes_1D', 'simulate_GATK_multisample_calling'):
            self.saved[k] = getattr(LP, k)
        ss0, rng0, sr0, sub0 = self.saved['ss'], self.saved['rng'], self.saved['simulate_reads'], self.saved['subsample_genotypes_1D']
        def rv_discrete(*a, **k):
            d = ss0.rv_discrete(*a, **k)
            vals = k.get('values')
            def rvs(*a2, **k2):
                r = d.rvs(*a2, **k2); ev.append(('depths', np.array(r), None if vals is None else [np.array(v) for v in vals])); return r
            return _Fwd(d, rvs=rvs)
        def binom_rvs(n, pr, *a, **k):
            r = ss0.binom.rvs(n, pr, *a, **k); ev.append(('binom', np.array(n), float(pr), np.array(r))); return r
        def permuted(x, *a, **k):
            r = rng0.permuted(x, *a, **k); ev.append(('permuted', np.array(x), np.array(r), k.get('axis', a[0] if a else None))); return r
        def simulate_reads(cov, part, popn, n, *a, **k):
            ev.append(('reads', [int(v) for v in part], [int(v) for v in popn], int(n)))
            r = sr0(cov, part, popn, n, *a, **k); ev.append(('reads-end', np.array(r[0]), np.array(r[1]))); return r
        def subsample(g, n, *a, **k):
            ev.append(('sub', int(n), np.array(g))); r = sub0(g, n, *a, **k); ev.append(('sub-end', np.array(r))); return r
        LP.ss = _Fwd(ss0, rv_discrete=rv_discrete, binom=_Fwd(ss0.binom, rvs=binom_rvs))
        LP.rng = _Fwd(rng0, permuted=permuted)
        sim0 = self.saved['simulate_GATK_multisample_calling']
        def simulate(cov, af, *a, **k):
            ev.append(('table', tuple(int(x) for x in af))); r = sim0(cov, af, *a, **k); ev.append(('table-end', np.array(r))); return r
        LP.simulate_reads = simulate_reads; LP.subsample_genotypes_1D = subsample
        if self.tables:
            LP.simulate_GATK_multisample_calling = simulate
        return self
    def __exit__(self, *exc):
        for k, v in self.saved.items():
            setattr(self.LP, k, v)
        return False

class DrawStructure(Exception):
    pass

def blocks_from_events(ev, nseq, nsub):
    """the recorded events of ONE call of simulate_GATK_multisample_calling -> list of blocks
    dict(part, n, depth (n x inds), draw (n x inds), sels {pop: [selection, ...]}); raises DrawStructure when the calls do not
    have the expected structure (one depth draw per population, one binomial draw for the heterozygotes, then per subsampled
    population one subsample_genotypes_1D call made of permutations of the sorted called genotypes)"""
    d = len(nseq); ninds = [n // 2 for n in nseq]
    blocks = []; i = 0
    while i < len(ev):
        e = ev[i]
        if e[0] != 'reads':
            raise DrawStructure('expected a simulate_reads call, saw %s' % e[0])
        part, popn, n = e[1], e[2], e[3]
        if popn != ninds or len(part) != sum(ninds):
            raise DrawStructure('simulate_reads called with partition of length %d for individuals %r' % (len(part), popn))
        i += 1
        deps = []
        for p in range(d):
            if i >= len(ev) or ev[i][0] != 'depths' or ev[i][1].shape != (n, ninds[p]):
                raise DrawStructure('depth draw of population %d' % p)
            deps.append(ev[i]); i += 1
        depth = np.hstack([x[1] for x in deps]).astype(int) if deps else np.zeros((n, 0), int)
        het = np.array(part) == 1
        if i >= len(ev) or ev[i][0] != 'binom' or ev[i][1].shape != (n, int(het.sum())) or not np.array_equal(ev[i][1], depth[:, het]) or ev[i][3].size != n * int(het.sum()):
            raise DrawStructure('binomial draw for the heterozygotes')
        draw = np.zeros_like(depth); draw[:, het] = np.asarray(ev[i][3]).reshape(n, int(het.sum())); hetp = ev[i][2]; i += 1     # scipy squeezes a (1, k) draw to (k,)
        if i >= len(ev) or ev[i][0] != 'reads-end':
            raise DrawStructure('unexpected draw inside simulate_reads: %s' % (ev[i][0] if i < len(ev) else 'end'))
        nref, nalt = ev[i][1], ev[i][2]; i += 1
        blk = dict(part=part, n=n, depth=depth, draw=draw, hetp=hetp, values=[x[2] for x in deps], nref=nref, nalt=nalt, sels={})
        subs = [p for p in range(d) if nsub[p] != nseq[p]]
        k = 0
        while i < len(ev) and ev[i][0] == 'sub':
            if k >= len(subs):
                raise DrawStructure('more subsample_genotypes_1D calls than subsampled populations')
            p = subs[k]; k += 1
            if ev[i][1] != nsub[p]:
                raise DrawStructure('subsample_genotypes_1D called with n_subsampling=%r for population %d (nsub %d)' % (ev[i][1], p, nsub[p]))
            i += 1
            sels = []
            while i < len(ev) and ev[i][0] == 'permuted':
                _, a, b, axis = ev[i]; i += 1
                if a.shape != b.shape or a.ndim != 2 or axis != 1:
                    raise DrawStructure('rng.permuted shapes / axis')
                m = nsub[p] // 2
                for ra, rb in zip(a.tolist(), b.tolist()):
                    if sorted(ra) != sorted(rb) or ra != sorted(ra):
                        raise DrawStructure('rng.permuted is not applied to sorted rows / does not return a permutation')
                    used = set(); sel = []
                    for v in rb[:m]:
                        j = next((t for t in range(len(ra)) if ra[t] == v and t not in used), None)
                        used.add(j); sel.append(j)
                    sels.append(sel)
            if i >= len(ev) or ev[i][0] != 'sub-end':
                raise DrawStructure('unexpected draw inside subsample_genotypes_1D')
            i += 1
            blk['sels'][p] = sels
        blocks.append(blk)
    return blocks

def fmt_blocks(blocks, d):
    out = []
    for b in blocks:
        loci = []
        for r in range(b['n']):
            pops = []
            for p in range(d):
                lo, hi = b['bounds'][p], b['bounds'][p + 1]
                pops.append(','.join('%d:%d' % (int(b['depth'][r, t]), int(b['draw'][r, t])) for t in range(lo, hi)))
            loci.append('/'.join(pops))
        sels = '/'.join((','.join('.'.join(str(int(t)) for t in sel) for sel in b['sels'][p]) if b['sels'].get(p) else '-') for p in range(d))
        out.append((';'.join(loci) if loci else '-') + '#' + sels)
    return '|'.join(out)

def check_simtable(chk, ctx, sc):
    """ONE call of simulate_GATK_multisample_calling with every random draw recorded.  L3 (from the recorded draws only): the table
    is a probability table whose entries are multiples of 1/(number of simulated loci) — every locus is counted exactly once —
    and entry 0…0 holds at least the loci with fewer than two alternative reads; the reads follow from genotype, depth and the
    heterozygote draw.  K: the Lean model `simTable` fed the same draws must give the same table exactly; the number of loci
    per aggregate partition must be int(nsim * probability); the draws must be possible (`drawsFit`)."""
    LP = fresh_LP(ctx)
    pops = sc['pops']; d = len(pops)
    af = [int(a) for a in sc['af']]; nsim = int(sc['nsim'])
    nseq = [p['nseq'] for p in pops]; nsub = [p['nsub'] for p in pops]; Fs = [p['F'] for p in pops]
    inp = dict(kind='simtable', pops=pops, af=af, nsim=nsim, seed=int(sc['seed']))
    cov = {'p%d' % i: covarr(p['cov']) for i, p in enumerate(pops)}
    np.random.seed(int(sc['seed']) % (2 ** 32)); LP.rng = np.random.default_rng(int(sc['seed']))
    try:
        with warnings.catch_warnings():
            warnings.simplefilter('ignore')
            with DrawRecorder(LP) as rec:
                tab = np.asarray(LP.simulate_GATK_multisample_calling(cov, tuple(af), nseq, nsub, nsim, Fs), dtype=float)
    except Exception as e:
        chk.fail('simulate_GATK_multisample_calling:raises:%s' % type(e).__name__, 'simulate_GATK_multisample_calling(af=%r, nseq=%r, nsub=%r, nsim=%d, Fx=%r) raises %r' % (af, nseq, nsub, nsim, Fs, e), inp)
        return
    finally:
        fresh_LP(ctx)
    chk.l3(('simtable', d, tuple(a == b for a, b in zip(nseq, nsub)), any(F > 0 for F in Fs), sum(af) == 0, nsim))
    chk.stat('simtable_%dpop' % d)
    shape = tuple(n + 1 for n in nsub)
    try:
        blocks = blocks_from_events(rec.ev, nseq, nsub)
    except DrawStructure as e:
        if have_driver(ctx):
            chk.k_bad('simtable:structure', inp, 'recorded draws', str(e), None)
        blocks = None
    ntot = None if blocks is None else int(sum(b['n'] for b in blocks))
    if tab.shape != shape:
        chk.fail('simulate_GATK_multisample_calling:closure', 'simulated table has shape %r, expected %r' % (tab.shape, shape), inp); return
    if ntot == 0:
        return                                     # nothing simulated (nsim * probability < 1 for every partition): 0/0, outside the generator's range
    if not np.all(np.isfinite(tab)) or tab.min() < 0 or abs(tab.sum() - 1) > 1e-9:
        chk.fail('simulate_GATK_multisample_calling:closure', 'simulated output for allele counts %r: min %r, total %r (not a probability table)' % (af, float(np.nanmin(tab)), float(np.nansum(tab))), inp); return
    if blocks is None:
        return
    bounds = [0] + [int(v) for v in np.cumsum([n // 2 for n in nseq])]
    for b in blocks: b['bounds'] = bounds
    # L3: the table counts each simulated locus once
    cnt = tab * ntot
    if np.max(np.abs(cnt - np.round(cnt))) > 1e-6:
        chk.fail('simulate_GATK_multisample_calling:locus-count', 'allele counts %r: %d loci were simulated but the table is not made of multiples of 1/%d '
                 '(a locus is lost or counted twice)' % (af, ntot, ntot), inp); return
    # L3: reads from genotype / depth / draw, loci without two alternative reads are "not called"
    low = 0
    for b in blocks:
        g = np.array(b['part'], dtype=int)[None, :]
        ex_alt = np.where(g == 2, b['depth'], np.where(g == 1, b['draw'], 0)); ex_ref = np.where(g == 0, b['depth'], np.where(g == 1, b['depth'] - b['draw'], 0))
        if b['n'] and (not np.array_equal(ex_alt, b['nalt']) or not np.array_equal(ex_ref, b['nref'])):
            chk.fail('simulate_reads:reads', 'genotypes %r: the reads are not (depth, 0) / (depth - alt, alt) / (0, depth) for genotypes 0 / 1 / 2' % (b['part'],), inp); return
        if b['n'] and (np.any(b['draw'] > b['depth']) or abs(b['hetp'] - 0.5) > 0):
            chk.fail('simulate_reads:het-draw', 'a heterozygote has more alternative reads than depth, or the reads of a heterozygote are not drawn with probability 1/2', inp); return
        for p in range(d):
            c = pops[p]['cov']; dp = b['depth'][:, bounds[p]:bounds[p + 1]]
            if dp.size and (dp.min() < 0 or dp.max() >= len(c) or np.any(np.array(c)[dp] == 0)):
                chk.fail('simulate_reads:depth-support', 'population %d: a sampled depth has probability 0 in its coverage distribution' % p, inp); return
        low += int(np.sum(ex_alt.sum(axis=1) < 2))
    if cnt.flat[0] < low - 1e-6:
        chk.fail('simulate_GATK_multisample_calling:bin0', 'allele counts %r: %d loci have fewer than two alternative reads, entry 0 holds only %.1f' % (af, low, float(cnt.flat[0])), inp); return
    if not have_driver(ctx) or any(0 < F < TINY_F for F in Fs):
        return
    popstr = ';'.join('%s@%d@%d@%s' % (fmt_list(p['cov']), p['nseq'], p['nsub'], rat(p['F'])) for p in pops)
    o = ctx['driver'].ask('lp_simtable %s %s %d %s' % (popstr, '.'.join(map(str, af)), nsim, fmt_blocks(blocks, d)))
    if not o.startswith('ok '):
        chk.k_bad('simtable', inp, tab, o[:300], None); return
    t, counts, fit = o[3:].split('|')
    ok, err, _ = close(tab, parse_ndf(t), rtol=1e-12, atol=1e-12)
    chk.k_ok('simtable') if ok else chk.k_bad('simtable', inp, tab, t[:300], err)
    chk.k_ok('simfit') if fit == '1' else chk.k_bad('simfit', inp, 'possible draws', 'drawsFit = %s' % fit, None)
    mc = [int(v) for v in counts.split(',')]
    # the float product nsim * p may sit within round-off of an integer: tolerate a difference of one locus there
    probs = [1.0]
    for p_, a_ in zip(pops, af):
        pr = LP.partitions_and_probabilities(p_['nseq'], 'allele_frequency', p_['F'], a_)[1]
        probs = [x * float(y) for x in probs for y in pr]
    got = [b['n'] for b in blocks]
    border = [abs(nsim * q - round(nsim * q)) < 1e-9 for q in probs] if len(probs) == len(got) else [False] * len(got)
    if len(mc) == len(got) and all(a == b or (bd and abs(a - b) <= 1) for a, b, bd in zip(mc, got, border)):
        chk.k_ok('simcount')
    else:
        chk.k_bad('simcount', inp, got, mc, None)

def check_simpipeline(chk, ctx, case):
    """the whole corrected model in the simulated / mixed regime with every random draw recorded: K `corrected:draws` — the Lean model
    computes the simulated tables itself from the recorded draws (`simTable`) and assembles the output, i.e. evaluates
    `corrected (axesOf pops) thr model (fun i => simTable pops i (draws i))`, the object of C18_total_le_simulated; L3: closure
    (finite, non-negative, total <= uncorrected total)."""
    inp = small_case(case, 'sim-pipeline')
    pops = case['pops']; d = len(pops)
    nseq = [p['nseq'] for p in pops]; nsub = [p['nsub'] for p in pops]
    LP = fresh_LP(ctx)
    try:
        with warnings.catch_warnings():
            warnings.simplefilter('ignore')
            f, func, calls = build_lowpass(ctx, LP, case)
            np.random.seed(case['sim_seed'] % (2 ** 32)); LP.rng = np.random.default_rng(case['sim_seed'])
            with DrawRecorder(LP, tables=True) as rec:
                out = f([], list(nsub), None)
            model = func([], list(nseq), None)
    except Exception as e:
        chk.fail('make_low_pass_func:raises:%s' % type(e).__name__, 'corrected model for nseq=%r nsub=%r thr=%r raises %r' % (nseq, nsub, case['thr'], e), inp)
        return
    finally:
        fresh_LP(ctx)
    chk.l3(('sim-pipeline', d, regime_of(case), any(p['F'] > 0 for p in pops), tuple(a == b for a, b in zip(nseq, nsub))))
    chk.stat('sim_pipeline_%dpop' % d)
    if not closure_checks(chk, case, model, out, inp):
        return
    if not have_driver(ctx) or any(0 < p['F'] < TINY_F for p in pops):
        return
    # split the events by simulated table
    tables = []; cur = None
    for e in rec.ev:
        if e[0] == 'table':
            cur = (e[1], []); tables.append(cur)
        elif e[0] == 'table-end':
            cur = None
        elif cur is not None:
            cur[1].append(e)
        else:
            chk.k_bad('corrected:draws', inp, 'recorded draws', 'a random draw outside simulate_GATK_multisample_calling: %s' % e[0], None); return
    bounds = [0] + [int(v) for v in np.cumsum([n // 2 for n in nseq])]
    parts = []
    try:
        for af, evs in tables:
            blocks = blocks_from_events(evs, nseq, nsub)
            for b in blocks: b['bounds'] = bounds
            parts.append('%s=%s' % ('.'.join(map(str, af)), fmt_blocks(blocks, d)))
    except DrawStructure as e:
        chk.k_bad('corrected:draws', inp, 'recorded draws', str(e), None); return
    mdata = model_data(model); scale = max(float(np.max(np.abs(mdata))), 1e-300)
    popstr = ';'.join('%s@%d@%d@%s' % (fmt_list(p['cov']), p['nseq'], p['nsub'], rat(0.0 if case.get('Fx_none') else p['F'])) for p in pops)
    o = ctx['driver'].ask('lp_corrected_draws %s %s %s %s' % (rat(case['thr']), popstr, fmt_nd(mdata), '!'.join(parts) if parts else '-'))
    if not o.startswith('ok '):
        # a borderline threshold can make the two sides simulate different entries
        chk.k_bad('corrected:draws', inp, unmasked(out), o[:300], None); return
    ok, err, _ = close(unmasked(out), parse_ndf(o[3:]), rtol=RTOL, atol=RTOL * scale)
    chk.k_ok('corrected:draws') if ok else chk.k_bad('corrected:draws', inp, unmasked(out), o[:300], err)
    chk.stats['sim_pipeline_tables'] = chk.stats.get('sim_pipeline_tables', 0) + len(tables)

def gen_simpipeline(rng, tier):
    d = int(rng.choice([1, 1, 2]))
    hi = {1: 8, 2: 4}[d]
    pops = []
    for _ in range(d):
        nseq, nsub = gen_sizes(rng, hi)
        c, ck = gen_cov(rng, ['poisson', 'poisson', 'geometric', 'two-point', 'mostly-zero', 'uniform', 'no-zero-depth'][int(rng.integers(7))])
        F = 0.0 if rng.random() < 0.5 else float(rng.choice([51, 205, 512, 922])) / 1024.0
        pops.append(dict(cov=c, cov_kind=ck, nseq=nseq, nsub=nsub, F=F))
    data, mk = gen_model(rng, [p['nseq'] + 1 for p in pops])
    thr = 0.0 if rng.random() < 0.6 else float(rng.choice([1e-2, 0.25]))
    return dict(pops=pops, thr=thr, nsim=int(rng.choice([30, 100])), sim_seed=int(rng.integers(1, 2 ** 31)), data=data, mask=None, model_kind=mk, Fx_none=False, deep=False)

def gen_simtable(rng, tier):
    d = int(rng.choice([1, 1, 2, 2, 3]))
    hi = {1: 10, 2: 6, 3: 4}[d]
    pops = []
    for _ in range(d):
        nseq, nsub = gen_sizes(rng, hi)
        kind = ['poisson', 'poisson', 'geometric', 'two-point', 'mostly-zero', 'depth1-only', 'uniform', 'no-zero-depth', 'deep'][int(rng.integers(9))]
        c, ck = gen_cov(rng, kind)
        F = 0.0 if rng.random() < 0.5 else float(rng.choice([51, 205, 512, 922])) / 1024.0
        pops.append(dict(cov=c, cov_kind=ck, nseq=nseq, nsub=nsub, F=F))
    af = [int(rng.integers(0, p['nseq'] + 1)) for p in pops]
    if rng.random() < 0.6:
        af = [max(1, min(p['nseq'] - 1, a)) if p['nseq'] > 2 else a for p, a in zip(pops, af)]       # mostly polymorphic
    return dict(pops=pops, af=af, nsim=int(rng.choice([30, 100, 300])), seed=int(rng.integers(1, 2 ** 31)))

# --------------------------------------------------------------------------- several low-pass functions in one process
CHILD = ("import sys, json\nsys.path[:0] = [%r, %r, %r]\nimport warnings; warnings.filterwarnings('ignore')\nimport logging; logging.disable(logging.WARNING)\n"
         "from harness import c18\nc18._child()\n")

def _child():
    """fresh interpreter: build and evaluate the one function described on stdin, print its output"""
    import sys, json
    import dadi
    case = case_from_json(json.load(sys.stdin))
    ctx = dict(dadi=dadi, driver=None)
    model, out, pre, calls = run_lowpass(ctx, case)
    sims = {} if pre is None else {'.'.join(str(int(a)) for a in af): np.asarray(so, dtype=float).ravel().tolist() for af, so in pre[4].items()}
    json.dump(dict(data=np.asarray(np.ma.getdata(out), dtype=float).ravel().tolist(), mask=np.ma.getmaskarray(out).astype(int).ravel().tolist(),
                   shape=list(out.shape), sims=sims), sys.stdout)

def alone_in_subprocess(ctx, case):
    """the function built and evaluated in a fresh interpreter (no history at all)"""
    import subprocess, sys, json, os
    code = CHILD % (common.VERIF, os.path.join(common.VERIF, 'tools'), ctx.get('repo') or common.REPO)
    p = subprocess.run([sys.executable, '-c', code], input=json.dumps(common.jsonable(small_case(case))).encode(),
                       stdout=subprocess.PIPE, stderr=subprocess.PIPE, timeout=600, env=dict(os.environ, OMP_NUM_THREADS='1'))
    if p.returncode != 0:
        raise common.Infra('C18 child interpreter failed: ' + p.stderr.decode(errors='replace')[-1500:])
    txt = p.stdout.decode()
    r = json.loads(txt[txt.index('{'):])
    shape = tuple(r['shape'])
    data = np.array(r['data'], dtype=float).reshape(shape); mask = np.array(r['mask'], dtype=bool).reshape(shape)
    sims = {tuple(int(t) for t in k.split('.')): np.array(v, dtype=float).reshape(shape) for k, v in r['sims'].items()}
    return np.ma.masked_array(data, mask=mask), sims

def small_scenario(sc):
    return dict(kind='history', what=sc['what'], funcs=[small_case(c, 'history-func') for c in sc['funcs']], order=[int(k) for k in sc['order']],
                build_first=bool(sc['build_first']), reference=sc.get('reference', 'reload'))

def check_history(chk, ctx, sc):
    """Several low-pass functions built in ONE process (same population names; same or different sizes / options / coverage),
    evaluated in a given order, some repeatedly.  Every result must (a) equal the result of the same function built and
    evaluated alone (module state reloaded, or a fresh interpreter), (b) equal the exact model fed that function's own coverage
    distributions, (c) satisfy the closure properties and, for deeply covered data, the deep-coverage identity."""
    inp = small_scenario(sc)
    funcs = sc['funcs']; order = list(sc['order'])
    chk.l3(('history', sc['what'], len(funcs), len(order), sc['build_first'], sc.get('reference', 'reload'),
            tuple(sorted(set(regime_of(c) for c in funcs))), len(funcs[0]['pops'])))
    chk.stat('history_' + sc['what'])
    # ---- references: each function alone
    refs = []
    for k, c in enumerate(funcs):
        try:
            with warnings.catch_warnings():
                warnings.simplefilter('ignore')
                if sc.get('reference') == 'subprocess':
                    out, sims = alone_in_subprocess(ctx, c)
                    model = build_lowpass(ctx, LPmod(ctx), c)[1]([], [p['nseq'] for p in c['pops']], None)
                else:
                    model, out, pre, _ = run_lowpass(ctx, c)
                    sims = {} if pre is None else {tuple(int(a) for a in af): np.asarray(so, dtype=float) for af, so in pre[4].items()}
        except common.Infra:
            raise
        except Exception as e:
            chk.fail('make_low_pass_func:raises:%s' % type(e).__name__, 'function %d alone raises %r' % (k, e), inp); return
        refs.append((model, out, sims))
    # ---- the session: one process, shared module state
    LP = fresh_LP(ctx)
    built = {}
    results = [[] for _ in funcs]
    try:
        with warnings.catch_warnings():
            warnings.simplefilter('ignore')
            if sc['build_first']:
                for k, c in enumerate(funcs):
                    built[k] = build_lowpass(ctx, LP, c)[0]
            for step, k in enumerate(order):
                if k not in built:
                    built[k] = build_lowpass(ctx, LP, funcs[k])[0]
                results[k].append((step, eval_lowpass(LP, built[k], funcs[k])))
    except Exception as e:
        chk.fail('make_low_pass_func:history:raises:%s' % type(e).__name__, 'evaluating the functions in order %r raises %r' % (order, e), inp); return
    finally:
        fresh_LP(ctx)            # leave no state behind for the next case
    check_part_cache(chk, ctx, inp, 'history-session')
    for k, c in enumerate(funcs):
        model, ref, sims = refs[k]
        mdata = model_data(model); scale = max(float(np.max(np.abs(mdata))), 1e-300)
        rvis = unmasked(ref)
        desc = 'function %d (%s; coverage %s, nseq=%r nsub=%r Fx=%r thr=%r nsim=%r)' % (
            k, regime_of(c), '/'.join(p.get('cov_kind', '?') for p in c['pops']), [p['nseq'] for p in c['pops']], [p['nsub'] for p in c['pops']],
            [p['F'] for p in c['pops']], c['thr'], c['nsim'])
        mo = None
        for af_, so_ in sims.items():
            so_ = np.asarray(so_, dtype=float)
            if not np.all(np.isfinite(so_)) or so_.min() < 0 or abs(so_.sum() - 1) > 1e-9:
                chk.fail('simulate_GATK_multisample_calling:closure', 'function %d alone: simulated output for allele counts %r has min %r, total %r (not a probability table)'
                         % (k, tuple(int(a) for a in af_), float(np.nanmin(so_)) if so_.size else None, float(np.nansum(so_))), inp)
                break
        if have_driver(ctx) and not any(0 < p['F'] < TINY_F for p in c['pops']):
            res = model_corrected(ctx, c, mdata, sims)
            if not isinstance(res, str):
                mo = res[1]
        for step, out in results[k]:
            tag = 'step %d of order %r, %s: ' % (step, order, desc)
            if not closure_checks(chk, c, model, out, inp, tag):
                continue
            vis = unmasked(out)
            # (a) history independence
            same_mask = np.array_equal(np.ma.getmaskarray(out), np.ma.getmaskarray(ref))
            err = float(np.max(np.abs(vis - rvis))) if vis.shape == rvis.shape else float('inf')
            if err > 1e-9 * scale or not same_mask:
                rel = err / max(float(np.max(np.abs(rvis))), 1e-300)
                chk.fail('make_low_pass_func:history-dependent', '%sthe corrected model differs from the one the same function gives when built and evaluated alone '
                         '(%s) by %.3g (%.1f%% of the largest entry)%s — the result depends on which other low-pass functions were used before'
                         % (tag, sc.get('reference', 'reload'), err, 100 * rel, '' if same_mask else '; masks differ'), inp)
            # (b) the exact model with this function's own coverage distributions
            if mo is not None:
                ok, kerr, _ = close(vis, mo, rtol=RTOL, atol=RTOL * scale)
                if ok: chk.k_ok('corrected:history')
                else: chk.k_bad('corrected:history', dict(inp, function=k, step=step), vis, mo, kerr)
            # (c) deep coverage
            if c.get('deep'):
                deep_check(chk, ctx, c, model, out, inp, tag)
                deep_l1_check(chk, ctx, c, model, out, inp, tag)
    # (d) the cached genotype partitions are what they were (whatever the session did with them)
    check_part_cache(chk, ctx, inp, 'history')

def gen_history(rng, tier, what=None, d=None, regime=None, reference='reload'):
    whats = ['cov-differs', 'cov-differs', 'cov-differs', 'Fx-differs', 'nsub-differs', 'nseq-differs', 'thr-differs', 'nsim-differs', 'model-differs', 'mixed']
    if what is None:
        what = whats[int(rng.integers(len(whats)))]
    if d is None:
        d = int(rng.choice([1, 1, 2]))
    if regime is None:
        regime = ['analytic', 'analytic', 'analytic', 'mixed', 'simulated'][int(rng.integers(5))]
    hi = {1: 12, 2: 6}[d] if regime == 'analytic' else {1: 8, 2: 4}[d]
    ids = ['pop%d' % i for i in range(d)]
    base = gen_lowpass_case(rng, tier, d=d, regime=regime, deep=False)
    for p in base['pops']:
        p['nseq'], p['nsub'] = gen_sizes(rng, hi)
        if p['nseq'] < 4 and what in ('nsub-differs',):
            p['nseq'] = 4; p['nsub'] = 4
    base['Fx_none'] = False; base['mask'] = None; base['ids'] = ids
    shape = [p['nseq'] + 1 for p in base['pops']]
    base['data'], base['model_kind'] = gen_model(rng, shape, kind=['neutral', 'random', 'spike'][int(rng.integers(3))])
    def variant(**kw):
        import copy
        c = copy.deepcopy(base)
        c['sim_seed'] = int(rng.integers(1, 2 ** 31))
        for k, v in kw.items():
            c[k] = v
        return c
    def deep_pops(c):
        for p in c['pops']:
            if rng.random() < 0.5:
                D = int(rng.integers(40, 81)); p['cov'] = [0.0] * D + [1.0]; p['cov_kind'] = 'point-deep'
            else:
                p['cov'], p['cov_kind'] = gen_cov(rng, 'deep')
        c['deep'] = True
        return c
    def low_pops(c):
        for p in c['pops']:
            p['cov'], p['cov_kind'] = gen_cov(rng, ['poisson', 'mostly-zero', 'geometric', 'two-point', 'depth1-only'][int(rng.integers(5))])
        c['deep'] = False
        return c
    funcs = []
    if what in ('cov-differs', 'mixed'):
        funcs = [low_pops(variant()), deep_pops(variant())]
        if rng.random() < 0.5:
            funcs.append(low_pops(variant()))
        if rng.random() < 0.3:
            funcs.append(deep_pops(variant()))
    if what in ('Fx-differs', 'mixed'):
        for _ in range(2):
            c = variant()
            for p in c['pops']: p['F'] = gen_F(rng)
            funcs.append(c)
    if what in ('nsub-differs', 'mixed'):
        for _ in range(2):
            c = variant()
            for p in c['pops']: p['nsub'] = 2 * int(rng.integers(1, p['nseq'] // 2 + 1))
            funcs.append(c)
    if what == 'nseq-differs':
        for _ in range(2):
            c = variant()
            for p in c['pops']:
                p['nseq'] = max(p['nsub'], 2 * int(rng.integers(1, hi // 2 + 1)))
            c['data'], _ = gen_model(rng, [p['nseq'] + 1 for p in c['pops']], kind='random')
            funcs.append(c)
    if what == 'thr-differs':
        funcs = [variant(thr=1.0), variant(thr=float(rng.choice([1e-2, 0.25, 0.5]))), variant(thr=1.0)]
    if what == 'nsim-differs':
        funcs = [variant(nsim=50), variant(nsim=200)]
    if what == 'model-differs':
        for _ in range(2):
            c = variant()
            c['data'], c['model_kind'] = gen_model(rng, shape)
            funcs.append(c)
    if what != 'cov-differs' and rng.random() < 0.5:
        funcs.append(deep_pops(variant()))                # a deeply covered data set in every kind of session
    perm = [int(k) for k in rng.permutation(len(funcs))]
    funcs = [funcs[k] for k in perm]
    order = list(range(len(funcs))) + [int(k) for k in rng.integers(0, len(funcs), size=int(rng.integers(1, len(funcs) + 2)))]
    if rng.random() < 0.5:
        order = [int(k) for k in rng.permutation(order)]
    return dict(what=what, funcs=funcs, order=order, build_first=bool(rng.random() < 0.5), reference=reference)

def gen_mid_cov(rng):
    """no mass below a moderate depth D in 8..30: the proved deep-coverage bound is neither trivial nor below round-off"""
    D = int(rng.integers(8, 31)); hi = D + int(rng.integers(0, 10))
    w = np.zeros(hi + 1); w[D:] = rng.uniform(0.1, 1, hi + 1 - D)
    T = 4096
    iw = np.floor(w / w.sum() * T).astype(int)
    iw[D] += T - iw.sum()
    return (iw / T).tolist(), 'mid-deep'

def gen_mid_deep_case(rng, tier, d):
    """analytic / mixed evaluation with moderately deep coverage: exercises C18_deep_coverage where its bound is informative"""
    case = gen_lowpass_case(rng, tier, d=d, regime=['analytic', 'mixed'][int(rng.integers(2))], deep=False)
    for p in case['pops']:
        p['cov'], p['cov_kind'] = gen_mid_cov(rng)
    case['deep_l1'] = True
    return case

def gen_lowpass_case(rng, tier, d=None, regime=None, deep=False):
    if d is None:
        d = int(rng.choice([1, 1, 1, 2, 2, 3]))
    hi = {1: 20, 2: (10 if tier == 'quick' else 14), 3: (4 if tier == 'quick' else 6)}[d]
    if regime is None:
        regime = ['analytic', 'analytic', 'mixed', 'simulated'][int(rng.integers(4))]
    if regime != 'analytic':
        hi = min(hi, {1: 14, 2: 6, 3: 4}[d])
    pops = []
    for _ in range(d):
        nseq, nsub = gen_sizes(rng, hi)
        c, ck = gen_cov(rng, 'deep' if deep else None)
        if deep and rng.random() < 0.4:
            D = int(rng.integers(40, 81)); c = [0.0] * D + [1.0]; ck = 'point-deep'
        F = gen_F(rng)
        pops.append(dict(cov=c, cov_kind=ck, nseq=nseq, nsub=nsub, F=F))
    shape = [p['nseq'] + 1 for p in pops]
    data, mk = gen_model(rng, shape)
    mask = None
    if rng.random() < 0.15:
        mask = (rng.random(shape) < 0.1).astype(int)
    thr = {'analytic': 1.0, 'mixed': float(rng.choice([1e-2, 0.25, 0.5])), 'simulated': 0.0}[regime]
    return dict(pops=pops, thr=thr, nsim=int(rng.choice([50, 200, 1000])), sim_seed=int(rng.integers(1, 2 ** 31)), data=data, mask=mask, model_kind=mk,
                Fx_none=bool(all(p['F'] == 0 for p in pops) and rng.random() < 0.3), deep=deep)

def check_refusals(chk, ctx, rng):
    """Fx = 1 is refused; an odd haplotype number is refused for allele-frequency partitions; folded models are refused"""
    dadi = ctx['dadi']; LP = LPmod(ctx)
    c, _ = gen_cov(rng)
    f = lambda params, ns, pts: dadi.Spectrum(np.ones(ns[0] + 1))
    chk.l3(('refusal', 'F1'))
    try:
        LP.make_low_pass_func_GATK_multisample(f, {'a': covarr(c)}, ['a'], [4], [2], Fx=[1.0])
        chk.fail('make_low_pass_func:F1-accepted', 'Fx = 1 is accepted', dict(kind='refusal', which='F1'))
    except ValueError:
        pass
    chk.l3(('refusal', 'odd'))
    try:
        LP.partitions_and_probabilities(5, 'allele_frequency', 0, 2)
        chk.fail('partitions_and_probabilities:odd-accepted', 'an odd number of haplotypes is accepted', dict(kind='refusal', which='odd'))
    except ValueError:
        pass
    chk.l3(('refusal', 'folded'))
    g = lambda params, ns, pts: dadi.Spectrum(np.ones(ns[0] + 1)).fold()
    try:
        LP.make_low_pass_func_GATK_multisample(g, {'a': covarr(c)}, ['a'], [4], [2])([], [2], None)
        chk.fail('make_low_pass_func:folded-accepted', 'a folded model spectrum is accepted', dict(kind='refusal', which='folded'))
    except ValueError:
        pass
    if have_driver(ctx):
        out = ctx['driver'].ask('lp_usesim 1 %s@4@2@1' % fmt_list(c))
        chk.k_ok('refuse-F1') if out == 'err F' else chk.k_bad('refuse-F1', dict(kind='refusal', which='F1'), 'ValueError', out, None)
        out = ctx['driver'].ask('lp_projmat 5 2 1/2')
        chk.k_ok('refuse-odd') if out == 'err odd' else chk.k_bad('refuse-odd', dict(kind='refusal', which='odd'), 'ValueError', out, None)

# --------------------------------------------------------------------------- driver
def run(chk, ctx):
    tier = ctx['tier']
    rng = common.Rng(ctx['seed'], 'C18')
    quick = tier == 'quick'
    chk.rule = ('partitions: every (x, n) with n <= 10 individuals, x <= 2n (exhaustive) plus other (minval, maxval); partition probabilities: n_sequenced 2..20, '
                'every allele count, F from {0, k/1024 spread over (0,1), 2^-24..2^-44}; coverage distributions over depths 0..D, D <= 80, kinds '
                '{poisson, geometric, uniform, two-point, point mass, no depth 0, mostly depth 0, deep (>=40), depth-1 only, full 0..80} with dyadic '
                'probabilities summing to exactly 1; sizes n_sequenced 2..20 even, n_subsampling from {same, 2, n-2, random even}; corrected model: '
                '1-3 populations, sim_threshold in {1 (analytic), 1e-2/0.25/0.5 (mixed), 0 (simulated)}, model spectra {neutral, random, sparse, '
                'one entry, spike} with masked corners (+ random extra masks), fixed rng seeds for the simulations; deep-coverage cases (all depths >= 40); '
                'simulated path: subsample_genotypes_1D on 1-4 locus patterns x 3000/6000 loci (fully / partly / insufficiently called), deep coverage with everything simulated and nsub < nseq; '
                'sessions of 2-5 low-pass functions sharing population names in one process (kinds: coverage / Fx / nsub / nseq / threshold / nsim / model differs, mixed), '
                'built up-front or lazily, evaluated in shuffled order with repeats, each compared with itself evaluated alone (reload or fresh interpreter); '
                'non-trivial = distinct (helper, size class, F class, coverage class, regime, dimension)')
    chk.unproved = [
        'round-off: agreement of the float code with the exact model/oracle is numerical (1e-9 of the array scale); for 0 < F < 2^-18 the pinned '
        'log-gamma route of part_inbreeding_probability is ill-conditioned and is judged by the exact oracle only',
        'simulated regime: simulate_GATK_multisample_calling is modelled as a deterministic function of its recorded random draws (simTable; K: exact '
        'agreement on the recorded draws of the real run) and proved to return a probability table for any draws (C18_sim_table_stochastic, '
        'C18_total_le_simulated); NOT proved: anything about the distribution of the draws (that depths follow the coverage distribution, that '
        'rng.permuted is uniform) and hence the deviation sigma of a simulated table from the projection row in the deep-coverage theorems - checked '
        'statistically (fixed seeds, 6 sigma) on the real code; a table is 0/0 when nsim * probability < 1 for every genotype partition (tiny nsim)',
        'numpy glue of lowpass_func (masked-array dot treats masked entries as 0, swapaxes, outer product of the 1-D no-call vectors, '
        'axis-by-axis application vs the product kernel) is tied by correspondence, not by translation',
        'the effect table (C18_cached_not_mutated) is a may-alias analysis of the source text of LowPass.py / the cached_part users of Numerics.py; '
        'mutation through other modules or through numpy views of python lists is outside it (the L3 cache check covers the calls exercised)',
        'row 0 of the coverage array is assumed to be arange(D+1) (as compute_cov_dist produces)']
    chk.assumptions += ['coverage distributions have positive mass on some depth >= 1 (otherwise prob_het_err is 0/0 in the code) and sum to <= 1',
                        'in the assembly ops (lp_corrected) the implementation\'s simulated tables are handed to the model; the tables themselves are tied to the model by lp_simtable on recorded draws',
                        'nsim is large enough for at least one genotype partition to receive a locus (int(nsim * probability) >= 1)']
    # ---- partitions, exhaustive
    for n in range(0, 11):
        for x in range(0, 2 * n + 2):
            check_parts(chk, ctx, x, n)
    for _ in range(30 if quick else 200):
        n = int(rng.integers(0, 7)); minv = int(rng.integers(0, 3)); maxv = minv + int(rng.integers(0, 4)); x = int(rng.integers(0, n * maxv + 2))
        check_parts(chk, ctx, x, n, minv, maxv)
    chk.stats['partitions_exhaustive_nmax'] = 10
    # ---- partition probabilities
    sizes = list(range(2, 22, 2))
    for nseq in sizes:
        Fs = [0.0] + [gen_F(rng, allow_tiny=False) or 0.5 for _ in range(4 if quick else 12)]
        for F in Fs:
            xs = range(nseq + 1)
            for x in xs:
                check_partprobs(chk, ctx, nseq, F, x)
        check_genotype_type(chk, ctx, nseq, Fs[int(rng.integers(len(Fs)))])
    # continuity as F -> 0 (the property's clause): small and tiny F
    for k in ([10, 16, 24, 34, 44] if quick else [8, 10, 13, 16, 20, 24, 28, 34, 40, 44, 50]):
        for nseq in ([4, 10, 20] if quick else [2, 4, 8, 14, 20]):
            for x in sorted(set([1, nseq // 2, nseq - 1])):
                check_partprobs(chk, ctx, nseq, 2.0 ** -k, x)
    for k in ([16, 30, 40] if quick else [10, 16, 22, 30, 36, 40, 46]):
        nseq, nsub = gen_sizes(rng, 12)
        check_proj_continuity(chk, ctx, nseq, nsub, 2.0 ** -k)
    # ---- matrices
    for _ in range(150 if quick else 1000):
        check_projinb(chk, ctx, rng)
    for it in range(80 if quick else 500):
        nseq, nsub = gen_sizes(rng, 20 if it % 3 else 12)
        check_projmat(chk, ctx, nseq, nsub, gen_F(rng, allow_tiny=(it % 6 == 5)))
    for it in range(100 if quick else 700):
        c, ck = gen_cov(rng); chk.stat('cov_' + ck)
        nseq, nsub = gen_sizes(rng, 20 if it % 4 == 0 else 12)
        F = gen_F(rng, allow_tiny=(it % 10 == 9))
        check_heterr(chk, ctx, c)
        check_callmat(chk, ctx, c, nsub, F)
        check_nocall(chk, ctx, c, nseq, F)
        check_enough(chk, ctx, c, nseq, nsub)
        if it % 2 == 0 and not (0 < F < TINY_F):
            check_axis_dev(chk, ctx, c, nseq, nsub, F)
    check_part_cache(chk, ctx, dict(kind='cache-family', family='helpers'), 'helper-functions')
    # ---- definedness: exactly zero mass at depth 0 / 1 (no 0 ** -1, no nan), every partition of every allele count
    for it in range(60 if quick else 400):
        c, ck = gen_zero_cov(rng); chk.stat('zerocov_' + ck)
        nseq, nsub = gen_sizes(rng, 12)
        check_defined(chk, ctx, c, nseq, nsub, gen_F(rng))
        if it % 3 == 0:
            check_nocall(chk, ctx, c, nseq, gen_F(rng))
    # ---- the limit of the inbreeding branch of projection_matrix at F = 0+ is the hypergeometric matrix
    for nseq in range(2, (12 if quick else 18) + 1, 2):
        for nsub in range(2, nseq + 1, 2):
            check_projmix0(chk, ctx, nseq, nsub)
    # ---- corrected model
    plan = []
    for d in (1, 2, 3):
        for regime in ('analytic', 'mixed', 'simulated'):
            reps = {1: (16, 90), 2: (8, 45), 3: (3, 14)}[d][0 if quick else 1]
            if regime == 'analytic': reps *= 2
            plan += [(d, regime, False)] * reps
    plan += [(1, 'analytic', True)] * (10 if quick else 60) + [(2, 'analytic', True)] * (5 if quick else 30) + [(1, 'mixed', True)] * (4 if quick else 16) + [(3, 'analytic', True)] * (2 if quick else 8)
    for d, regime, deep in plan:
        check_lowpass(chk, ctx, gen_lowpass_case(rng, tier, d=d, regime=regime, deep=deep))
    for it in range(16 if quick else 100):
        check_lowpass(chk, ctx, gen_mid_deep_case(rng, tier, d=[1, 1, 2, 3][it % 4]))
    # ---- the simulated path: subsampling of called genotypes, deep-coverage identity with nsub < nseq (statistical)
    for it in range(40 if quick else 250):
        check_subsample(chk, ctx, gen_subsample(rng, tier))
    for it in range(8 if quick else 40):
        check_sim_deep(chk, ctx, gen_sim_deep(rng, tier, d=1 if it % 4 else 2))
    # ---- the simulator as a function of its recorded random draws (K: the model's simTable on the same draws, exactly)
    for it in range(40 if quick else 300):
        check_simtable(chk, ctx, gen_simtable(rng, tier))
    for it in range(12 if quick else 80):
        check_simpipeline(chk, ctx, gen_simpipeline(rng, tier))
    # ---- several low-pass functions in one process (same population names): history independence
    nh = 40 if quick else 220
    for it in range(nh):
        d = 1 if it % 3 else 2
        regime = ['analytic', 'analytic', 'mixed', 'analytic', 'simulated'][it % 5]
        what = 'cov-differs' if it % 4 == 0 else None
        check_history(chk, ctx, gen_history(rng, tier, what=what, d=d, regime=regime))
    for it in range(2 if quick else 10):                 # references computed in a fresh interpreter
        check_history(chk, ctx, gen_history(rng, tier, what=['cov-differs', 'mixed', 'Fx-differs'][it % 3], d=1 + it % 2,
                                            regime=['analytic', 'mixed'][it % 2], reference='subprocess'))
    check_refusals(chk, ctx, rng)

def replay(chk, ctx, data):
    inp = data.get('input', {}) or {}
    kind = inp.get('kind')
    def arr(o, dtype=float):
        return np.array(o['data'], dtype=dtype).reshape(o['shape']) if isinstance(o, dict) else (None if o is None else np.array(o, dtype=dtype))
    if kind == 'part':
        check_parts(chk, ctx, int(inp['x']), int(inp['n']), int(inp.get('minv', 0)), int(inp.get('maxv', 2)))
    elif kind == 'partprob':
        check_partprobs(chk, ctx, int(inp['nseq']), float(inp['F']), int(inp['x']))
    elif kind == 'genotype-type':
        check_genotype_type(chk, ctx, int(inp['nseq']), float(inp['F']))
    elif kind == 'projmat':
        check_projmat(chk, ctx, int(inp['nseq']), int(inp['nsub']), float(inp['F']))
    elif kind == 'proj-continuity':
        check_proj_continuity(chk, ctx, int(inp['nseq']), int(inp['nsub']), float(inp['F']))
    elif kind == 'callmat':
        check_callmat(chk, ctx, [float(v) for v in inp['cov']], int(inp['nsub']), float(inp['F']))
    elif kind == 'heterr':
        check_heterr(chk, ctx, [float(v) for v in inp['cov']])
    elif kind == 'nocall':
        check_nocall(chk, ctx, [float(v) for v in inp['cov']], int(inp['nseq']), float(inp['F']))
    elif kind == 'enough':
        check_enough(chk, ctx, [float(v) for v in inp['cov']], int(inp['nseq']), int(inp['nsub']))
    elif kind == 'lowpass':
        check_lowpass(chk, ctx, case_from_json(inp))
    elif kind == 'sim-deep':
        check_sim_deep(chk, ctx, case_from_json(inp))
    elif kind == 'subsample':
        check_subsample(chk, ctx, inp)
    elif kind == 'simtable':
        check_simtable(chk, ctx, inp)
    elif kind == 'sim-pipeline':
        check_simpipeline(chk, ctx, case_from_json(inp))
    elif kind == 'axis-dev':
        check_axis_dev(chk, ctx, [float(v) for v in inp['cov']], int(inp['nseq']), int(inp['nsub']), float(inp['F']))
    elif kind == 'defined':
        check_defined(chk, ctx, [float(v) for v in inp['cov']], int(inp['nseq']), int(inp['nsub']), float(inp['F']))
    elif kind == 'projmix0':
        check_projmix0(chk, ctx, int(inp['nseq']), int(inp['nsub']))
    elif kind == 'history':
        check_history(chk, ctx, dict(what=inp.get('what', 'replay'), funcs=[case_from_json(c) for c in inp['funcs']], order=[int(k) for k in inp['order']],
                                     build_first=bool(inp.get('build_first')), reference=inp.get('reference', 'reload')))
    else:
        run(chk, ctx)
