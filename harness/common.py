"""Shared machinery for all checks: Lean build/audit, model driver, number transport,
verdict logic, evidence and replay files.  See DESIGN.md §1."""
import os, sys, re, json, time, subprocess, fcntl, hashlib, traceback, math, random
from fractions import Fraction

VERIF = os.path.dirname(os.path.dirname(os.path.abspath(__file__)))
LEAN = os.path.join(VERIF, 'lean')
REPO = os.environ.get('DADI_REPO', '/repo')
EVID = os.path.join(VERIF, 'evidence')
REPLAYS = os.path.join(VERIF, 'replays')
ALLOWED_AXIOMS = {'propext', 'Classical.choice', 'Quot.sound'}
FORBIDDEN = re.compile(r'\b(sorry|admit|native_decide|bv_decide|implemented_by|unsafe)\b|^axiom |maxHeartbeats 0', re.M)

class Infra(Exception):
    """infrastructure failure -> exit 2, never a VIOLATION"""

# ------------------------------------------------------------------ numbers on the wire
def rat(x):
    """exact num/den text of a Python float/int/Fraction"""
    if isinstance(x, bool):
        return '1' if x else '0'
    if isinstance(x, int):
        return str(x)
    if isinstance(x, Fraction):
        return str(x.numerator) if x.denominator == 1 else '%d/%d' % (x.numerator, x.denominator)
    x = float(x)
    if not math.isfinite(x):
        raise ValueError('non-finite on the wire')
    n, d = x.as_integer_ratio()
    return str(n) if d == 1 else '%d/%d' % (n, d)

def fmt_list(xs):
    xs = list(xs)
    return ','.join(rat(x) for x in xs) if xs else '-'

def fmt_nd(a):
    import numpy as np
    a = np.asarray(a)
    return 'x'.join(str(s) for s in a.shape) + ':' + fmt_list(a.ravel(order='C').tolist())

def fmt_grids(gs):
    return ';'.join(fmt_list(g) for g in gs)

def parse_frac(s):
    return Fraction(s)

def parse_list(s):
    return [] if s == '-' else [Fraction(t) for t in s.split(',')]

def parse_nd(s):
    import numpy as np
    sh, dat = s.split(':')
    shape = tuple(int(t) for t in sh.split('x')) if sh else ()
    vals = parse_list(dat)
    return np.array([float(v) for v in vals]).reshape(shape), vals

# ------------------------------------------------------------------ Lean side
_lock_fh = None
def _lake_lock():
    global _lock_fh
    if _lock_fh is None:
        os.makedirs(os.path.join(LEAN, '.lake'), exist_ok=True)
        _lock_fh = open(os.path.join(LEAN, '.lake', 'verif.lock'), 'w')
    fcntl.flock(_lock_fh, fcntl.LOCK_EX)

def _lake_unlock():
    if _lock_fh is not None:
        fcntl.flock(_lock_fh, fcntl.LOCK_UN)

def run(cmd, cwd=None, timeout=3600, env=None):
    p = subprocess.run(cmd, cwd=cwd, stdout=subprocess.PIPE, stderr=subprocess.STDOUT, timeout=timeout, env=env)
    return p.returncode, p.stdout.decode(errors='replace')

def lake_build(targets, timeout=3600):
    """returns (ok, log).  Serialised across concurrent checks."""
    _lake_lock()
    try:
        rc, out = run(['lake', 'build'] + list(targets), cwd=LEAN, timeout=timeout)
    finally:
        _lake_unlock()
    return rc == 0, out

def theorem_names(prop):
    """all `theorem Cxx_*` declared in Props/Cxx.lean (namespace DadiVerif)"""
    path = os.path.join(LEAN, 'DadiVerif', 'Props', prop + '.lean')
    src = open(path).read()
    src_nc = re.sub(r'/-.*?-/', '', src, flags=re.S)
    src_nc = re.sub(r'--.*', '', src_nc)
    return re.findall(r'^\s*theorem\s+(%s_\w+)' % prop, src_nc, flags=re.M), src

def import_closure(modules):
    """DadiVerif.* modules reachable through imports from the given modules (paths relative to LEAN)"""
    seen = {}
    todo = list(modules)
    while todo:
        m = todo.pop()
        if m in seen: continue
        path = os.path.join(LEAN, *m.split('.')) + '.lean'
        if not os.path.exists(path):
            continue
        src = open(path).read()
        seen[m] = path
        for im in re.findall(r'^import\s+(DadiVerif\.[\w.]+)', src, flags=re.M):
            todo.append(im)
    return seen

def lean_sources_clean(modules):
    """grep every .lean file in the import closure of `modules` for forbidden constructs (outside comments)"""
    bad = []
    for m, path in sorted(import_closure(modules).items()):
        src = open(path).read()
        nc = re.sub(r'/-.*?-/', '', src, flags=re.S)
        nc = re.sub(r'--.*', '', nc)
        for mm in FORBIDDEN.finditer(nc):
            bad.append('%s: %s' % (os.path.relpath(path, LEAN), mm.group(0).strip()))
    return bad

def theorem_spans(src, prop):
    """(name, first_line, last_line) of every `theorem Cxx_*` in a Props source (1-based, to the next declaration)"""
    lines = src.split('\n')
    starts = []
    for i, l in enumerate(lines, 1):
        m = re.match(r'^\s*(?:@\[.*?\]\s*)?(theorem|lemma|def|example|instance|abbrev|structure|inductive|namespace|end|section|open|/--)\b\s*(\S*)', l)
        if m:
            starts.append((i, m.group(1), m.group(2)))
    spans = []
    for k, (i, kind, name) in enumerate(starts):
        if kind == 'theorem' and name.startswith(prop + '_'):
            j = len(lines)
            for (i2, kind2, _) in starts[k + 1:]:
                if kind2 != '/--' or True:
                    j = i2 - 1; break
            spans.append((name, i, j))
    return spans

def audit(prop, extra_modules=(), tier='quick'):
    """Build Props.<prop>, then `#print axioms` every property theorem.
    returns dict(obligations=[names], discharged=[names], failed={name: reason}, log=str, axioms={name:[...]})"""
    names, src = theorem_names(prop)
    res = dict(obligations=names, discharged=[], failed={}, axioms={}, log='')
    ok, log = lake_build(['DadiVerif.Props.' + prop] + list(extra_modules))
    res['log'] = log[-6000:]
    audit_dir = os.path.join(LEAN, 'DadiVerif', 'Audit')
    os.makedirs(audit_dir, exist_ok=True)
    apath = os.path.join(audit_dir, prop + '.lean')
    if ok:
        body = 'import DadiVerif.Props.%s\nopen DadiVerif\n' % prop + ''.join('#print axioms %s\n' % n for n in names)
        with open(apath, 'w') as f:
            f.write(body)
        rc, out = run(['lake', 'env', 'lean', apath], cwd=LEAN)
    else:
        # Re-elaborate the Props file itself with the #print lines appended: Lean keeps going after
        # an error, failed theorems show up with sorryAx.  If an import is broken nothing checks.
        body = src + '\nopen DadiVerif\n' + ''.join('#print axioms %s\n' % n for n in names)
        with open(apath, 'w') as f:
            f.write(body)
        rc, out = run(['lake', 'env', 'lean', apath], cwd=LEAN)
        res['log'] += '\n--- re-elaboration ---\n' + out[-4000:]
        # any theorem whose source span contains an error line is not discharged, whatever #print axioms says
        err_lines = [int(m.group(1)) for m in re.finditer(r'%s\.lean:(\d+):\d+: error' % prop, out)]
        for (n, a, b) in theorem_spans(src, prop):
            if any(a <= e <= b for e in err_lines):
                res['failed'][n] = 'error while checking (line %d..%d)' % (a, b)
    seen = {}
    for m in re.finditer(r"'(?:DadiVerif\.)?(\w+)' depends on axioms: \[(.*?)\]", out, flags=re.S):
        seen[m.group(1)] = [a.strip() for a in m.group(2).replace('\n', ' ').split(',') if a.strip()]
    for m in re.finditer(r"'(?:DadiVerif\.)?(\w+)' does not depend on any axioms", out):
        seen[m.group(1)] = []
    for n in names:
        if n in res['failed']:
            res['axioms'][n] = seen.get(n, [])
        elif n not in seen:
            res['failed'][n] = 'not checked (build or import failure)'
        else:
            res['axioms'][n] = seen[n]
            extra = [a for a in seen[n] if a not in ALLOWED_AXIOMS]
            if extra:
                res['failed'][n] = 'depends on ' + ','.join(extra)
            else:
                res['discharged'].append(n)
    bad = lean_sources_clean(['DadiVerif.Props.' + prop] + list(extra_modules))
    if bad:
        for b in bad:
            res['failed']['source:' + b] = 'forbidden construct'
    res['build_ok'] = ok
    if ok and tier == 'thorough':
        # independent re-check of the compiled .olean files (Lean's external checker replays every declaration in the kernel)
        rc2, out2 = run(['lake', 'env', 'leanchecker', 'DadiVerif.Props.' + prop], cwd=LEAN, timeout=3000)
        res['leanchecker'] = 'ok' if rc2 == 0 else out2[-1500:]
        if rc2 != 0:
            res['failed']['leanchecker'] = 'leanchecker rejected the compiled module'
    return res

DRIVER_TMPL = """import {imports}
/- GENERATED by harness/common.py: line-protocol driver for handler modules {mods}.
   One op per line on stdin, one answer per line on stdout: `ok …` | `err <kind>` | `bad-op`. -/
open DadiVerif

def dispatch (line : String) : String :=
  let toks := (line.trimAscii.toString.splitOn " ").filter (· ≠ "")
  let hs : List (List String → Option String) := [{handlers}]
  match hs.findSome? (fun h => h toks) with
  | some r => r
  | none => "bad-op"

partial def loop (h : IO.FS.Stream) (out : IO.FS.Stream) : IO Unit := do
  let line ← h.getLine
  if line.isEmpty then return ()
  out.putStrLn (dispatch line)
  out.flush
  loop h out

def main : IO Unit := do loop (← IO.getStdin) (← IO.getStdout)
"""

class LeanDriver:
    """`lake env lean --run drivers/Driver_<mods>.lean` behind a line protocol.  `modules` are the
    handler modules DadiVerif/Driver/<M>.lean (each exports `DadiVerif.Driver.<M>.handle`)."""
    def __init__(self, modules=('Integ',)):
        modules = list(modules)
        ok, log = lake_build(['DadiVerif.Driver.' + m for m in modules])
        self.build_ok = ok
        self.log = log
        self.p = None
        self.n = 0
        if ok:
            ddir = os.path.join(LEAN, 'drivers'); os.makedirs(ddir, exist_ok=True)
            path = os.path.join(ddir, 'Driver_%s.lean' % '_'.join(modules))
            text = DRIVER_TMPL.format(imports='\nimport '.join('DadiVerif.Driver.' + m for m in modules), mods=modules,
                                      handlers=', '.join('Driver.%s.handle' % m for m in modules))
            if not os.path.exists(path) or open(path).read() != text:
                with open(path, 'w') as f: f.write(text)
            self.p = subprocess.Popen(['lake', 'env', 'lean', '--run', path], cwd=LEAN,
                                      stdin=subprocess.PIPE, stdout=subprocess.PIPE, stderr=subprocess.PIPE,
                                      text=True, bufsize=1)
    def ask(self, line):
        if self.p is None:
            raise Infra('model driver not available:\n' + self.log[-2000:])
        assert '\n' not in line
        self.p.stdin.write(line + '\n')
        self.p.stdin.flush()
        out = self.p.stdout.readline()
        if not out:
            err = self.p.stderr.read()
            raise Infra('model driver died: ' + err[-2000:])
        self.n += 1
        return out.rstrip('\n')
    def ok(self):
        return self.p is not None
    def close(self):
        if self.p is not None:
            try:
                self.p.stdin.close(); self.p.wait(timeout=20)
            except Exception:
                self.p.kill()
            self.p = None

# ------------------------------------------------------------------ comparison
def close(impl, model, rtol=1e-9, atol=0.0):
    """|impl - model| <= atol + rtol*scale, scale = max|model|.  Returns (ok, maxerr, scale)"""
    import numpy as np
    impl = np.asarray(impl, dtype=float); model = np.asarray(model, dtype=float)
    if impl.shape != model.shape:
        return False, float('inf'), 0.0
    if not np.all(np.isfinite(impl)):
        return False, float('inf'), float(np.max(np.abs(model))) if model.size else 0.0
    scale = float(np.max(np.abs(model))) if model.size else 0.0
    err = float(np.max(np.abs(impl - model))) if model.size else 0.0
    return err <= atol + rtol * scale, err, scale

# ------------------------------------------------------------------ verdict / evidence
class Check:
    def __init__(self, prop, tier, seed):
        self.prop = prop; self.tier = tier; self.seed = seed
        self.t0 = time.time()
        self.translate = {}            # generator -> None | error
        self.audit = None
        self.k_cases = 0; self.k_ops = {}; self.k_skipped = 0
        self.disagreements = []        # dicts: op, input, impl, model, err
        self.l3_evals = 0; self.l3_distinct = set()
        self.failures = []             # dicts: key, what, input (property fails on the real code)
        self.samples = []
        self.notes = []
        self.stats = {}
        self.unproved = []
        self.assumptions = []
        self.rule = ''
        self.known = load_known(prop)
        self.broken = []               # names of theorems / correspondences that no longer check
    # -- recording
    def k_ok(self, op, nontrivial_key=None):
        self.k_cases += 1; self.k_ops[op] = self.k_ops.get(op, 0) + 1
    def k_bad(self, op, inp, impl, model, err):
        self.k_cases += 1; self.k_ops[op] = self.k_ops.get(op, 0) + 1
        self.disagreements.append(dict(op=op, input=inp, impl=impl, model=model, err=err))
    def l3(self, key=None):
        self.l3_evals += 1
        if key is not None:
            self.l3_distinct.add(key)
    def fail(self, key, what, inp):
        """the property itself fails on the real implementation at `inp`"""
        self.failures.append(dict(key=key, what=what, input=inp))
    def sample(self, s, cap=6):
        if len(self.samples) < cap:
            self.samples.append(s)
    def stat(self, k, v=1):
        self.stats[k] = self.stats.get(k, 0) + v

def load_known(prop):
    path = os.path.join(VERIF, 'known_findings.json')
    if not os.path.exists(path):
        return []
    d = json.load(open(path))
    return [e for e in d.get('findings', []) if e.get('property') == prop]

def jsonable(o):
    import numpy as np
    if isinstance(o, dict):
        return {str(k): jsonable(v) for k, v in o.items()}
    if isinstance(o, (list, tuple, set)):
        return [jsonable(v) for v in o]
    if isinstance(o, np.ndarray):
        return dict(shape=list(o.shape), data=[jsonable(v) for v in o.ravel().tolist()])
    if isinstance(o, (np.floating,)):
        return jsonable(float(o))
    if isinstance(o, (np.integer,)):
        return int(o)
    if isinstance(o, (np.bool_,)):
        return bool(o)
    if isinstance(o, float):
        if math.isnan(o): return 'nan'
        if math.isinf(o): return 'inf' if o > 0 else '-inf'
        return o
    if isinstance(o, Fraction):
        return str(o)
    if isinstance(o, (str, int, bool)) or o is None:
        return o
    return repr(o)

def write_replay(chk, payload):
    os.makedirs(REPLAYS, exist_ok=True)
    h = hashlib.sha1(json.dumps(jsonable(payload), sort_keys=True).encode()).hexdigest()[:10]
    path = os.path.join(REPLAYS, '%s_seed%d_%s.json' % (chk.prop, chk.seed, h))
    with open(path, 'w') as f:
        json.dump(jsonable(payload), f, indent=1)
    return path

TRUSTED_BASE = [
    "Lean 4.33 kernel; Mathlib v4.33 as compiled under /opt/veriftools",
    "axioms allowed: propext, Classical.choice, Quot.sound (audited with #print axioms on every property theorem each run; no sorry/admit/native_decide/bv_decide/own axioms)",
    "tools/translate.py (Python-ast / C-expression -> Lean translator for closed formulas and wiring tables)",
    "correspondence harness: implementation (rebuilt from /repo working tree) vs exact-rational Lean model through a line protocol, tolerance 1e-9 relative to array scale",
    "IEEE round-off is not modelled: theorems are about exact rational arithmetic on the code's formulas",
]

def finish(chk):
    """apply the verdict logic of DESIGN §1.2, write evidence, print lines, return exit code"""
    a = chk.audit or dict(obligations=[], discharged=[], failed={}, axioms={}, build_ok=True)
    broken = list(chk.broken)
    for g, e in chk.translate.items():
        if e is not None:
            broken.append('translate:%s (%s)' % (g, e))
    for n, why in a['failed'].items():
        broken.append('theorem:%s (%s)' % (n, why))
    if chk.disagreements:
        ops = sorted(set(d['op'] for d in chk.disagreements))
        broken.append('correspondence:%s (%d disagreement(s))' % (','.join(ops), len(chk.disagreements)))
    lines = []
    unknown = []
    known_hit = {}
    for f in chk.failures:
        k = match_known(chk.known, f)
        if k is None:
            unknown.append(f)
        else:
            known_hit.setdefault(k['id'], (k, f))
    for kid, (k, f) in sorted(known_hit.items()):
        lines.append('KNOWN-FINDING: property=%s %s' % (chk.prop, k['what']))
    rc = 0
    violations = 0
    if unknown:
        f = unknown[0]
        path = write_replay(chk, dict(property=chk.prop, kind='failing-input', key=f['key'], what=f['what'],
                                      input=f['input'], seed=chk.seed, tier=chk.tier, broken=broken,
                                      other_failures=[dict(key=g['key'], what=g['what']) for g in unknown[1:20]]))
        lines.append('VIOLATION property=%s replay=%s' % (chk.prop, path))
        rc = 1; violations = len(unknown)
    elif broken:
        # were all broken obligations explained by known findings?  Only those the known-finding entry names.
        explained = set()
        for kid, (k, f) in known_hit.items():
            for b in k.get('explains', []):
                explained.update(x for x in broken if b in x)
        rest = [b for b in broken if b not in explained]
        if rest:
            path = write_replay(chk, dict(property=chk.prop, kind='no-failing-input-found', broken=rest,
                                          disagreements=chk.disagreements[:5], seed=chk.seed, tier=chk.tier,
                                          build_log=(a.get('log') or '')[-3000:]))
            lines.append('VIOLATION property=%s replay=%s no-failing-input-found' % (chk.prop, path))
            rc = 1; violations = 1
    wall = time.time() - chk.t0
    obligations = len(a['obligations']) + len(chk.translate)
    discharged = len(a['discharged']) + sum(1 for e in chk.translate.values() if e is None)
    ev = dict(
        property_id=chk.prop, tier=chk.tier, seed=chk.seed, level='proof',
        coverage=dict(
            obligations=max(obligations, 0), discharged=discharged,
            checker_cmd='cd /verif/lean && lake build DadiVerif.Props.%s && lake env lean DadiVerif/Audit/%s.lean  (#print axioms on every theorem)' % (chk.prop, chk.prop),
            trusted_base=TRUSTED_BASE + chk.assumptions,
            theorems=a['obligations'], axioms=a['axioms'], undischarged=a['failed'], leanchecker=a.get('leanchecker', 'not run (quick tier)'),
            translation=dict((g, 'ok' if e is None else e) for g, e in chk.translate.items()),
            evaluations=chk.k_cases + chk.l3_evals,
            distinct_nontrivial=len(chk.l3_distinct),
            rule=chk.rule,
            samples=jsonable(chk.samples) or ['(no samples recorded)'],
            correspondence=dict(cases=chk.k_cases, per_op=chk.k_ops, skipped_illconditioned=chk.k_skipped,
                                disagreements=len(chk.disagreements)),
            search=dict(evaluations=chk.l3_evals, distinct_nontrivial=len(chk.l3_distinct),
                        failures=len(chk.failures), known=len(chk.failures) - len(unknown)),
            unproved_clauses=chk.unproved, stats=jsonable(chk.stats), notes=chk.notes,
            broken=broken,
        ),
        assumptions=TRUSTED_BASE + chk.assumptions,
        wall_s=round(wall, 2), violations=violations)
    os.makedirs(EVID, exist_ok=True)
    with open(os.path.join(EVID, chk.prop + '.json'), 'w') as f:
        json.dump(ev, f, indent=1)
    for l in lines:
        print(l)
    print('%s %s tier=%s seed=%d obligations=%d discharged=%d K=%d (disagree %d) L3=%d (fail %d, known %d) wall=%.1fs'
          % (chk.prop, 'OK' if rc == 0 else 'FAIL', chk.tier, chk.seed, obligations, discharged, chk.k_cases,
             len(chk.disagreements), chk.l3_evals, len(chk.failures), len(chk.failures) - len(unknown), wall))
    return rc

def match_known(known, f):
    for k in known:
        if k.get('status', 'open') != 'open':
            continue       # fixed entries suppress nothing
        pat = k.get('key')
        if pat and re.search(pat, f['key']):
            return k
    return None

class Rng:
    """every random choice derives from VERIF_SEED through this one generator"""
    def __init__(self, seed, stream=''):
        import numpy as np
        h = int(hashlib.sha256(('%d/%s' % (seed, stream)).encode()).hexdigest()[:16], 16)
        self.np = np.random.default_rng(h)
    def __getattr__(self, k):
        return getattr(self.np, k)
