"""C10 — population bookkeeping on spectra equals explicit index arithmetic, keeps labels.

K : Spectrum.marginalize / filter_pops / reorder_pops / combine_two_pops / combine_pops / scramble_pop_ids / fold / unfold /
    _project_one_axis / project and Misc.combine_pops on random spectra vs the exact-rational Lean model (Model/PopOps.lean through Driver/PopOps.lean):
    shape, mask, data at unmasked entries, labels, folded flag, NaN cells (scramble), "raises" for rejected arguments.
L3: the property statement evaluated directly on the implementation with explicit loops over numpy.ndindex (no Lean, no model):
    explicit re-indexing, totals, labels, commutation with fold and with project, flags honoured; the PROVED general forms of
    "commutes with projection" with masks included (commute_project_exact) and the mixture identity for the merged axis (merged_split).
"""
import math, itertools
from fractions import Fraction
import numpy as np
from . import common
from .common import rat, fmt_nd, parse_list, close

PROP = 'C10'
GENERATED = ['PopTables']
NEEDS_BUILD = False
NEEDS_DRIVER = True
DRIVER_MODULES = ['PopOps']

RTOL = 1e-9

# ------------------------------------------------------------------------------------------ generators
LABEL_POOL = ['YRI', 'CEU', 'CHB', 'pop_1', 'A', 'b', 'X.2', 'N+S', 'anc', 'p0', 'p1', 'Zz', 'k', 'w-e', 'é', '3']

def gen_shape(rng, d, cap):
    """unequal sample sizes; every extent >= 2 (sample size >= 1); product <= cap"""
    for _ in range(200):
        hi = max(2, int(round(cap ** (1.0 / d))) + 2)
        sh = [int(rng.integers(2, hi + 1)) for _ in range(d)]
        if rng.random() < 0.25:
            sh[int(rng.integers(d))] = 2                      # sample size 1 on some axis
        if int(np.prod(sh)) <= cap and (d == 1 or len(set(sh)) > 1 or rng.random() < 0.15):
            return sh
    return [2] * d

def gen_values(rng, shape):
    kind = ['counts', 'float', 'sparse', 'tiny'][int(rng.integers(4))]
    if kind == 'counts':
        a = rng.integers(0, 60, shape).astype(float)
    elif kind == 'float':
        a = np.round(rng.uniform(0, 1, shape) ** 3 * 40 * 1024) / 1024.0
    elif kind == 'sparse':
        a = rng.integers(0, 9, shape).astype(float) * (rng.random(shape) < 0.3)
    else:
        a = np.round(rng.uniform(0, 1, shape) * 4096) / (4096.0 * 64)
    return np.ascontiguousarray(a, dtype=float), kind

def gen_labels(rng, d):
    if rng.random() < 0.3:
        return None
    return [str(x) for x in rng.choice(LABEL_POOL, size=d, replace=False)]

def gen_spectrum(ctx, rng, d, cap, maskmode=None, folded=None, labels='rand'):
    """returns (fs, info).  maskmode: 'std' (corners), 'none' (mask_corners=False), 'interior' (corners + random entries)"""
    dadi = ctx['dadi']
    shape = gen_shape(rng, d, cap)
    data, kind = gen_values(rng, shape)
    if maskmode is None:
        maskmode = ['std', 'std', 'none', 'interior'][int(rng.integers(4))]
    ids = gen_labels(rng, d) if labels == 'rand' else labels
    fs = dadi.Spectrum(data, mask_corners=(maskmode != 'none'), pop_ids=ids)
    if maskmode == 'interior':
        k = int(rng.integers(1, 4))
        for _ in range(k):
            idx = tuple(int(rng.integers(s)) for s in shape)
            fs.mask[idx] = True
    if folded is None:
        folded = rng.random() < 0.35
    if folded:
        fs = fs.fold()
    info = dict(d=d, shape=shape, values=kind, mask=maskmode, folded=bool(folded), labels=ids is not None)
    chk = ctx.get('chk')
    if chk is not None:
        chk.stat('gen:mask:' + maskmode); chk.stat('gen:folded:%s' % bool(folded)); chk.stat('gen:labels:%s' % (ids is not None)); chk.stat('gen:values:' + kind)
    return fs, info

def rand_subset(rng, d, kmin, kmax):
    k = int(rng.integers(kmin, kmax + 1))
    return [int(x) for x in rng.choice(d, size=k, replace=False)]

# ------------------------------------------------------------------------------------------ wire
def wire(fs):
    lab = '-' if fs.pop_ids is None else ','.join(fs.pop_ids)
    return '%s %s %d %s' % (fmt_nd(np.asarray(fs.data)), ','.join('1' if m else '0' for m in np.asarray(fs.mask).ravel()),
                            1 if fs.folded else 0, lab)

def ilist(l):
    l = list(l)
    return ','.join(str(int(x)) for x in l) if l else '-'

def ask(driver, op, a1, a2, fs):
    return driver.ask('c10 %s %s %s %s' % (op, a1, a2, wire(fs)))

def parse_model(out):
    """'ok shape:data mask folded labels nan' -> dict"""
    toks = out.split(' ')
    assert toks[0] == 'ok' and len(toks) == 6, out[:200]
    sh, dat = toks[1].split(':')
    shape = tuple(int(t) for t in sh.split('x'))
    vals = parse_list(dat)
    data = np.array([float(v) for v in vals]).reshape(shape)
    mask = np.array([t == '1' for t in toks[2].split(',')]).reshape(shape)
    labels = None if toks[4] == '-' else toks[4].split(',')
    nan = None if toks[5] == '-' else np.array([t == '1' for t in toks[5].split(',')]).reshape(shape)
    return dict(shape=shape, data=data, mask=mask, folded=(toks[3] == '1'), labels=labels, nan=nan)

def spec_json(fs):
    return dict(shape=list(fs.shape), data=np.asarray(fs.data).ravel().tolist(), mask=[bool(b) for b in np.asarray(fs.mask).ravel()],
                folded=bool(fs.folded), pop_ids=None if fs.pop_ids is None else list(fs.pop_ids))

def spec_from_json(ctx, j):
    dadi = ctx['dadi']
    data = np.array(j['data'], dtype=float).reshape(j['shape'])
    mask = np.array(j['mask'], dtype=bool).reshape(j['shape'])
    return dadi.Spectrum(data, mask=mask, mask_corners=False, data_folded=bool(j['folded']), check_folding=False, pop_ids=j['pop_ids'])

# ------------------------------------------------------------------------------------------ explicit oracles (L3)
def msum(fs):
    """fs.sum() (sum over unmasked entries), 0 for a fully masked spectrum"""
    return float(np.where(np.asarray(fs.mask), 0.0, np.asarray(fs.data)).sum())

def val_of(fs):
    return np.where(np.asarray(fs.mask), 0.0, np.asarray(fs.data))

def explicit_push(fs, fmap, out_shape, use='val'):
    """sum, number of contributors, number of masked contributors of every target cell — explicit loop over every entry"""
    src = val_of(fs) if use == 'val' else np.asarray(fs.data)
    msk = np.asarray(fs.mask)
    tot = np.zeros(out_shape); n = np.zeros(out_shape, dtype=int); nm = np.zeros(out_shape, dtype=int)
    for i in np.ndindex(*fs.shape):
        j = fmap(i)
        tot[j] += src[i]; n[j] += 1; nm[j] += bool(msk[i])
    return tot, n, nm

def corners(shape):
    c = np.zeros(shape, dtype=bool)
    c.flat[0] = c.flat[-1] = True
    return c

def hyp_weight(ns, c):
    N = sum(ns); t = sum(c)
    num = 1
    for n, k in zip(ns, c):
        num *= math.comb(n, k)
    return Fraction(num, math.comb(N, t))

def same_unmasked(a_data, a_mask, b_data, b_mask, rtol=RTOL):
    """masks equal, data equal where unmasked"""
    if a_data.shape != b_data.shape:
        return False, 'shape %s vs %s' % (a_data.shape, b_data.shape)
    if not np.array_equal(a_mask, b_mask):
        return False, 'masks differ at %d cell(s)' % int(np.sum(a_mask != b_mask))
    keep = ~a_mask
    if not np.any(keep):
        return True, ''
    x = a_data[keep]; y = b_data[keep]
    if not np.all(np.isfinite(x)):
        return False, 'non-finite unmasked entries'
    scale = float(np.max(np.abs(y))) if y.size else 0.0
    err = float(np.max(np.abs(x - y)))
    if err > rtol * scale:
        return False, 'data differ by %.3g (scale %.3g)' % (err, scale)
    return True, ''

# ------------------------------------------------------------------------------------------ K comparison
def compare_model(chk, op, inp, impl, out, cmp_labels=True, cmp_folded=True, impl_nan_ok=False):
    """impl: Spectrum returned by the implementation; out: model answer line"""
    if not out.startswith('ok '):
        chk.k_bad(op, inp, 'returned a spectrum of shape %s' % (tuple(impl.shape),), out, None); return False
    m = parse_model(out)
    problems = []
    if tuple(impl.shape) != m['shape']:
        problems.append('shape %s vs model %s' % (tuple(impl.shape), m['shape']))
    else:
        imask = np.asarray(impl.mask, dtype=bool)
        if imask.shape != m['mask'].shape or not np.array_equal(imask, m['mask']):
            problems.append('mask differs at %d cell(s)' % int(np.sum(imask != m['mask'])))
        else:
            keep = ~imask
            idata = np.asarray(impl.data)
            if m['nan'] is not None:
                inan = np.isnan(idata)
                if not np.array_equal(inan & keep, m['nan'] & keep):
                    problems.append('NaN cells differ from the model')
                keep = keep & ~m['nan']
            if np.any(keep):
                x = idata[keep]; y = m['data'][keep]
                scale = float(np.max(np.abs(y)))
                if not np.all(np.isfinite(x)):
                    problems.append('non-finite unmasked entries')
                else:
                    err = float(np.max(np.abs(x - y)))
                    if err > RTOL * scale:
                        problems.append('data differ by %.3g (scale %.3g)' % (err, scale))
    if cmp_labels:
        il = None if impl.pop_ids is None else [str(x) for x in impl.pop_ids]
        if il != m['labels']:
            problems.append('labels %r vs model %r' % (il, m['labels']))
    if cmp_folded and bool(impl.folded) != m['folded']:
        problems.append('folded %r vs model %r' % (bool(impl.folded), m['folded']))
    if problems:
        chk.k_bad(op, inp, '; '.join(problems), out[:300], None); return False
    chk.k_ok(op); return True

def call(f):
    try:
        return f(), None
    except BaseException as e:       # Misc.combine_pops calls exit()
        if isinstance(e, KeyboardInterrupt): raise
        return None, e

# ------------------------------------------------------------------------------------------ one case per operation
def standard_mask(fs):
    """mask is exactly the two corners (plus the folded-out region for folded spectra)"""
    m = corners(fs.shape)
    if fs.folded:
        tot = fs._total_per_entry()
        m = m | (tot > int(np.sum(fs.sample_sizes) / 2))
    return np.array_equal(np.asarray(fs.mask), m)

def case_marginalize(chk, ctx, fs, over, mc, via_filter=None):
    """via_filter = tokeep list if the call goes through filter_pops"""
    driver = ctx['driver']
    name = 'filter_pops' if via_filter is not None else 'marginalize'
    inp = dict(op=name, over=list(over), tokeep=via_filter, mask_corners=bool(mc), fs=spec_json(fs))
    if via_filter is not None:
        res, exc = call(lambda: fs.filter_pops(list(via_filter), mask_corners=mc))
    else:
        res, exc = call(lambda: fs.marginalize(list(over), mask_corners=mc))
    d = fs.ndim
    valid = len(set(over)) == len(over) and all(0 <= k < d for k in over) and len(over) < d
    chk.l3((name, d, len(over), bool(fs.folded), fs.pop_ids is not None, bool(mc), standard_mask(fs)))
    chk.stat('op:' + name); chk.stat('dims:%d' % d)
    if exc is not None:
        if valid:
            chk.fail('%s:raises:%s' % (name, type(exc).__name__), '%s raises %r on valid arguments' % (name, exc), inp)
        return
    if not valid:
        return
    keep = [k for k in range(d) if k not in over]
    out_shape = tuple(fs.shape[k] for k in keep)
    # ---- L3: explicit sum over the dropped axes (unfolded input); labels; totals
    exp_labels = None if fs.pop_ids is None else [fs.pop_ids[k] for k in keep]
    got_labels = None if res.pop_ids is None else list(res.pop_ids)
    if got_labels != exp_labels:
        chk.fail('%s:labels' % name, '%s labels %r, expected %r' % (name, got_labels, exp_labels), inp)
    if bool(res.folded) != bool(fs.folded):
        chk.fail('%s:folded_flag' % name, '%s of a %s spectrum returns folded=%r' % (name, 'folded' if fs.folded else 'unfolded', res.folded), inp)
    if tuple(res.shape) != out_shape:
        chk.fail('%s:shape' % name, '%s shape %s, expected %s' % (name, tuple(res.shape), out_shape), inp)
    elif not fs.folded and len(over) > 0:
        tot, n, nm = explicit_push(fs, lambda i: tuple(i[k] for k in keep), out_shape)
        exp_mask = (nm == n)
        if mc:
            exp_mask = exp_mask | corners(out_shape)
        ok, why = same_unmasked(np.asarray(res.data), np.asarray(res.mask), tot, exp_mask)
        if not ok:
            key = '%s:explicit_sum' % name
            if via_filter is not None and not mc and np.array_equal(np.asarray(res.mask), exp_mask | corners(out_shape)):
                key = 'filter_pops:mask_corners_ignored'
                why = 'filter_pops(mask_corners=False) masks the corners anyway (the argument never reaches marginalize)'
            chk.fail(key, '%s differs from the explicit sum over the dropped populations: %s' % (name, why), inp)
        # total: sum of all result entries (masked source entries count 0)
        t_in = float(val_of(fs).sum()); t_out = float(np.asarray(res.data).sum())
        if abs(t_in - t_out) > 1e-9 * max(1.0, abs(t_in)):
            chk.fail('%s:total' % name, '%s changes the total: %.12g -> %.12g' % (name, t_in, t_out), inp)
    # ---- K
    if driver is not None and driver.ok():
        if via_filter is not None:
            out = ask(driver, 'filter', ilist(via_filter), '1' if mc else '0', fs)
        else:
            out = ask(driver, 'marg', ilist(over), '1' if mc else '0', fs)
        compare_model(chk, name, inp, res, out)
    chk.sample(dict(op=name, shape=list(fs.shape), over=list(over), mask_corners=bool(mc), folded=bool(fs.folded), labels=fs.pop_ids))

def case_reorder(chk, ctx, fs, neworder):
    driver = ctx['driver']
    d = fs.ndim
    inp = dict(op='reorder_pops', neworder=list(neworder), fs=spec_json(fs))
    res, exc = call(lambda: fs.reorder_pops(list(neworder)))
    valid = sorted(neworder) == list(range(1, d + 1))
    chk.l3(('reorder', d, tuple(neworder) == tuple(range(1, d + 1)), bool(fs.folded), fs.pop_ids is not None, standard_mask(fs)))
    chk.stat('op:reorder_pops'); chk.stat('dims:%d' % d)
    if exc is not None:
        if valid:
            chk.fail('reorder_pops:raises:%s' % type(exc).__name__, 'reorder_pops raises %r on a valid permutation' % (exc,), inp)
        elif not isinstance(exc, ValueError):
            chk.fail('reorder_pops:wrong_exception:%s' % type(exc).__name__, 'reorder_pops raises %r instead of ValueError' % (exc,), inp)
        elif driver is not None and driver.ok():
            out = ask(driver, 'reorder', ilist(neworder), '-', fs)
            (chk.k_ok('reorder_pops:rejects') if out == 'err raises' else chk.k_bad('reorder_pops:rejects', inp, 'ValueError', out, None))
        return
    if not valid:
        chk.fail('reorder_pops:accepts_invalid', 'reorder_pops accepts %r for %d populations' % (list(neworder), d), inp)
        return
    axes = [p - 1 for p in neworder]
    out_shape = tuple(fs.shape[a] for a in axes)
    exp_labels = None if fs.pop_ids is None else [fs.pop_ids[a] for a in axes]
    got_labels = None if res.pop_ids is None else list(res.pop_ids)
    if got_labels != exp_labels:
        chk.fail('reorder_pops:labels', 'reorder_pops labels %r, expected %r' % (got_labels, exp_labels), inp)
    if bool(res.folded) != bool(fs.folded):
        chk.fail('reorder_pops:folded_flag', 'reorder_pops changes folded to %r' % (res.folded,), inp)
    if tuple(res.shape) != out_shape:
        chk.fail('reorder_pops:shape', 'shape %s, expected %s' % (tuple(res.shape), out_shape), inp)
    else:
        bad = 0
        rd = np.asarray(res.data); rm = np.asarray(res.mask); sd = np.asarray(fs.data); sm = np.asarray(fs.mask)
        for i in np.ndindex(*fs.shape):
            j = tuple(i[a] for a in axes)
            if rm[j] != sm[i] or (not sm[i] and rd[j] != sd[i]):
                bad += 1
        if bad:
            chk.fail('reorder_pops:entries', '%d entries are not at new[j] with j[k] = i[neworder[k]-1]' % bad, inp)
        if abs(msum(res) - msum(fs)) > 1e-9 * max(1.0, abs(msum(fs))) and np.any(~sm):
            chk.fail('reorder_pops:total', 'total changes', inp)
    if driver is not None and driver.ok():
        out = ask(driver, 'reorder', ilist(neworder), '-', fs)
        compare_model(chk, 'reorder_pops', inp, res, out)
    chk.sample(dict(op='reorder_pops', shape=list(fs.shape), neworder=list(neworder), folded=bool(fs.folded), labels=fs.pop_ids))

def merge_map(S):
    """explicit re-indexing of combine_pops for the 0-based axis set S: slot min(S) receives the sum, the others vanish"""
    S = sorted(S); a = S[0]; gone = set(S[1:])
    def f(i):
        tot = sum(i[l] for l in S)
        return tuple(tot if k == a else i[k] for k in range(len(i)) if k not in gone)
    return f

def case_combine(chk, ctx, fs, tocombine, two):
    """tocombine 1-based; two=True -> combine_two_pops"""
    driver = ctx['driver']
    d = fs.ndim
    name = 'combine_two_pops' if two else 'combine_pops'
    inp = dict(op=name, tocombine=list(tocombine), fs=spec_json(fs))
    ids_before = None if fs.pop_ids is None else list(fs.pop_ids)
    res, exc = call(lambda: (fs.combine_two_pops(list(tocombine)) if two else fs.combine_pops(list(tocombine))))
    valid = len(set(tocombine)) == len(tocombine) and all(1 <= t <= d for t in tocombine) and len(tocombine) >= 1 and (not two or len(tocombine) == 2)
    chk.l3((name, d, len(tocombine), bool(fs.folded), fs.pop_ids is not None, standard_mask(fs)))
    chk.stat('op:' + name); chk.stat('dims:%d' % d)
    if exc is not None:
        if valid:
            chk.fail('%s:raises:%s' % (name, type(exc).__name__), '%s raises %r on valid arguments' % (name, exc), inp)
        elif driver is not None and driver.ok() and two:
            out = ask(driver, 'comb2', ilist(tocombine), '-', fs)
            (chk.k_ok(name + ':rejects') if out == 'err raises' else chk.k_bad(name + ':rejects', inp, repr(exc), out, None))
        return
    if not valid:
        return
    S0 = sorted(t - 1 for t in tocombine)
    a = S0[0]
    new_ns = [fs.shape[k] - 1 for k in range(d)]
    new_ns[a] = sum(fs.shape[l] - 1 for l in S0)
    out_shape = tuple(n + 1 for k, n in enumerate(new_ns) if k not in S0[1:])
    # labels: '+'-joined in index order in the slot of the smallest index
    if ids_before is None:
        exp_labels = None
    else:
        exp_labels = [('+'.join(ids_before[l] for l in S0) if k == a else ids_before[k]) for k in range(d) if k not in S0[1:]]
    got_labels = None if res.pop_ids is None else list(res.pop_ids)
    if got_labels != exp_labels:
        chk.fail('%s:labels' % name, '%s labels %r, expected %r' % (name, got_labels, exp_labels), inp)
    if fs.pop_ids is not None and list(fs.pop_ids) != ids_before and len(tocombine) > 1:
        chk.fail('%s:mutates_labels' % name, '%s changes the labels of its input: %r -> %r' % (name, ids_before, list(fs.pop_ids)), inp)
    if len(tocombine) > 1 and bool(res.folded) != bool(fs.folded):
        chk.fail('%s:folded_flag_lost' % name,
                 '%s of a folded spectrum returns folded=%r although data and mask are those of the folded merged spectrum'
                 % (name, res.folded), inp)
    if tuple(res.shape) != out_shape:
        chk.fail('%s:shape' % name, '%s shape %s, expected %s' % (name, tuple(res.shape), out_shape), inp)
    elif len(tocombine) > 1:
        tot, n, nm = explicit_push(fs, merge_map(S0), out_shape)
        exp_mask = (nm > 0) | corners(out_shape)
        ok, why = same_unmasked(np.asarray(res.data), np.asarray(res.mask), tot, exp_mask)
        if not ok:
            chk.fail('%s:explicit_merge' % name, '%s differs from new[k0 = sum of merged counts]: %s' % (name, why), inp)
        if standard_mask(fs) and not fs.folded:
            t_in = msum(fs); t_out = msum(res)
            if abs(t_in - t_out) > 1e-9 * max(1.0, abs(t_in)):
                chk.fail('%s:total' % name, '%s changes the total: %.12g -> %.12g' % (name, t_in, t_out), inp)
    if driver is not None and driver.ok():
        out = ask(driver, 'comb2' if two else 'comb', ilist(tocombine), '-', fs)
        compare_model(chk, name, inp, res, out)
    chk.sample(dict(op=name, shape=list(fs.shape), tocombine=list(tocombine), folded=bool(fs.folded), labels=ids_before))

def case_scramble(chk, ctx, fs, mc):
    driver = ctx['driver']
    d = fs.ndim
    inp = dict(op='scramble_pop_ids', mask_corners=bool(mc), fs=spec_json(fs))
    res, exc = call(lambda: fs.scramble_pop_ids(mask_corners=mc))
    chk.l3(('scramble', d, bool(fs.folded), bool(mc), standard_mask(fs)))
    chk.stat('op:scramble_pop_ids'); chk.stat('dims:%d' % d)
    if exc is not None:
        chk.fail('scramble_pop_ids:raises:%s' % type(exc).__name__, 'scramble_pop_ids raises %r' % (exc,), inp); return
    if bool(res.folded) != bool(fs.folded):
        chk.fail('scramble_pop_ids:folded_flag', 'scramble_pop_ids changes folded to %r' % (res.folded,), inp)
    if tuple(res.shape) != tuple(fs.shape):
        chk.fail('scramble_pop_ids:shape', 'shape changes', inp)
    elif not fs.folded:
        ns = [s - 1 for s in fs.shape]; N = sum(ns)
        pooled, n, nm = explicit_push(fs, lambda i: (sum(i),), (N + 1,))
        exp = np.zeros(fs.shape); nan = np.zeros(fs.shape, dtype=bool)
        for c in np.ndindex(*fs.shape):
            exp[c] = float(hyp_weight(ns, c)) * pooled[sum(c)]
            nan[c] = nm[sum(c)] > 0
        exp_mask = corners(fs.shape) if mc else np.zeros(fs.shape, dtype=bool)
        rd = np.asarray(res.data); rm = np.asarray(res.mask)
        if not np.array_equal(rm, exp_mask):
            chk.fail('scramble_pop_ids:mask', 'mask is not %s' % ('the two corners' if mc else 'empty'), inp)
        else:
            keep = ~rm & ~nan
            if np.any(keep):
                scale = float(np.max(np.abs(exp[keep]))); x = rd[keep]
                err = float(np.max(np.abs(x - exp[keep]))) if np.all(np.isfinite(x)) else float('inf')
                if err > RTOL * scale:
                    chk.fail('scramble_pop_ids:redeal', 'differs from pooled spectrum re-dealt with hypergeometric weights by %.3g (scale %.3g)' % (err, scale), inp)
        if standard_mask(fs) and mc:
            t_in = msum(fs); t_out = msum(res)
            if not (abs(t_in - t_out) <= 1e-9 * max(1.0, abs(t_in))):
                chk.fail('scramble_pop_ids:total', 'total changes: %.12g -> %.12g' % (t_in, t_out), inp)
    if driver is not None and driver.ok():
        out = ask(driver, 'scramble', '1' if mc else '0', '-', fs)
        compare_model(chk, 'scramble_pop_ids', inp, res, out)
    chk.sample(dict(op='scramble_pop_ids', shape=list(fs.shape), mask_corners=bool(mc), folded=bool(fs.folded)))

def case_foldunfold(chk, ctx, fs):
    """the model's own fold/unfold (used inside marginalize/scramble of folded spectra) against the implementation"""
    driver = ctx['driver']
    if driver is None or not driver.ok():
        return
    op = 'unfold' if fs.folded else 'fold'
    inp = dict(op=op, fs=spec_json(fs))
    res, exc = call(lambda: (fs.unfold() if fs.folded else fs.fold()))
    if exc is not None:
        return
    out = ask(driver, op, '-', '-', fs)
    if op == 'fold' and out.startswith('ok '):
        # round 5: the data UNDER the folded-out mask are part of the interface (`unfold`, hence `project`/`marginalize` of folded
        # spectra, read them — C10_obsF_unfold_fold): the model says exactly 0
        m = parse_model(out)
        if tuple(res.shape) == m['shape']:
            fo = res._total_per_entry() > int(np.sum(res.sample_sizes) / 2)
            x = np.asarray(res.data)[fo]; y = m['data'][fo]
            if x.size and not (np.all(np.isfinite(x)) and float(np.max(np.abs(x - y))) <= RTOL * max(1.0, float(np.max(np.abs(np.asarray(res.data)))))):
                chk.k_bad('fold:under_folded_out_mask', inp, 'data under the folded-out mask: max |impl - model| = %.3g' % float(np.max(np.abs(x - y))), out[:300], None)
                return
    compare_model(chk, op, inp, res, out)
    chk.stat('op:' + op)

def case_project_one(chk, ctx, fs, k, m):
    """K only: the model of `_project_one_axis` (used by the proved commutation with marginalize) against the implementation"""
    driver = ctx['driver']
    if driver is None or not driver.ok():
        return
    inp = dict(op='_project_one_axis', axis=int(k), n=int(m), fs=spec_json(fs))
    res, exc = call(lambda: fs._project_one_axis(int(m), int(k)))
    out = ask(driver, 'proj1', str(int(k)), str(int(m)), fs)
    chk.stat('op:_project_one_axis')
    if exc is not None:
        (chk.k_ok('_project_one_axis:rejects') if out == 'err raises' else chk.k_bad('_project_one_axis:rejects', inp, repr(exc), out, None))
        return
    compare_model(chk, '_project_one_axis', inp, res, out)

def case_project(chk, ctx, fs, ns):
    """K only: the model of the public `Spectrum.project` (loop over the axes, unchanged sizes skipped, unfold/fold of folded
    input, labels kept, rejected arguments) — the definition the general commutation theorems are about"""
    driver = ctx['driver']
    if driver is None or not driver.ok():
        return
    ns = [int(n) for n in ns]
    inp = dict(op='project', ns=ns, fs=spec_json(fs))
    res, exc = call(lambda: fs.project(list(ns)))
    out = ask(driver, 'proj', ilist(ns), '-', fs)
    chk.stat('op:project'); chk.stat('project:folded:%s' % bool(fs.folded))
    if exc is not None:
        (chk.k_ok('project:rejects') if out == 'err raises' else chk.k_bad('project:rejects', inp, repr(exc), out, None))
        return
    compare_model(chk, 'project', inp, res, out)

def case_misc(chk, ctx, fs, idx):
    """Misc.combine_pops (2-D / 3-D only), unfolded input"""
    dadi = ctx['dadi']; driver = ctx['driver']
    d = fs.ndim
    inp = dict(op='Misc.combine_pops', idx=list(idx), fs=spec_json(fs))
    res, exc = call(lambda: dadi.Misc.combine_pops(fs, idx=list(idx)))
    chk.l3(('misc', d, tuple(idx), standard_mask(fs)))
    chk.stat('op:Misc.combine_pops'); chk.stat('dims:%d' % d)
    if exc is not None:
        chk.fail('Misc.combine_pops:raises:%s' % type(exc).__name__, 'Misc.combine_pops raises %r' % (exc,), inp); return
    a, b = (0, 1) if d == 2 else tuple(idx)
    rest = [k for k in range(d) if k not in (a, b)]
    out_shape = (fs.shape[a] + fs.shape[b] - 1,) + tuple(fs.shape[k] for k in rest)
    if tuple(res.shape) != out_shape:
        chk.fail('Misc.combine_pops:shape', 'shape %s, expected %s' % (tuple(res.shape), out_shape), inp)
    else:
        tot, n, nm = explicit_push(fs, lambda i: (i[a] + i[b],) + tuple(i[k] for k in rest), out_shape, use='data')
        ok, why = same_unmasked(np.asarray(res.data), np.asarray(res.mask), tot, corners(out_shape))
        if not ok:
            chk.fail('Misc.combine_pops:explicit_merge', 'Misc.combine_pops differs from fs2[i_a+i_b, rest]: %s' % why, inp)
        # agrees with Spectrum.combine_two_pops followed by moving the merged axis to the front
        if standard_mask(fs):
            c2, e2 = call(lambda: fs.combine_two_pops([a + 1, b + 1]))
            if e2 is None:
                order = [a] + [k for k in range(c2.ndim) if k != a]
                c2t = np.transpose(np.asarray(c2.data), order); m2t = np.transpose(np.asarray(c2.mask), order)
                ok, why = same_unmasked(np.asarray(res.data), np.asarray(res.mask), c2t, m2t)
                if not ok:
                    chk.fail('Misc.combine_pops:vs_combine_two_pops', 'Misc.combine_pops and Spectrum.combine_two_pops disagree: %s' % why, inp)
    if driver is not None and driver.ok():
        out = ask(driver, 'misc', ilist(idx), '-', fs)
        compare_model(chk, 'Misc.combine_pops', inp, res, out, cmp_labels=True, cmp_folded=True)
    chk.sample(dict(op='Misc.combine_pops', shape=list(fs.shape), idx=list(idx)))

# ------------------------------------------------------------------------------------------ commutation (L3 only)
def eq_spectra(x, y, flags=True):
    ok, why = same_unmasked(np.asarray(x.data), np.asarray(x.mask), np.asarray(y.data), np.asarray(y.mask))
    if ok and flags and bool(x.folded) != bool(y.folded):
        return False, 'folded flags differ (%r vs %r)' % (x.folded, y.folded)
    if ok and (None if x.pop_ids is None else list(x.pop_ids)) != (None if y.pop_ids is None else list(y.pop_ids)):
        return False, 'labels differ (%r vs %r)' % (x.pop_ids, y.pop_ids)
    return ok, why

def apply_op(name, args):
    if name == 'marginalize': return lambda s: s.marginalize(list(args['over']))
    if name == 'filter_pops': return lambda s: s.filter_pops(list(args['tokeep']))
    if name == 'reorder_pops': return lambda s: s.reorder_pops(list(args['neworder']))
    if name == 'combine_two_pops': return lambda s: s.combine_two_pops(list(args['tocombine']))
    if name == 'combine_pops': return lambda s: s.combine_pops(list(args['tocombine']))
    if name == 'scramble_pop_ids': return lambda s: s.scramble_pop_ids()
    raise KeyError(name)

def commute_fold(chk, ctx, U, rng, forced=None):
    """op(fold U) == fold(op U) for a standard-masked unfolded U"""
    d = U.ndim
    F = U.fold()
    ops = []
    if forced is not None:
        ops.append(forced)
    else:
        if d >= 2:
            ops.append(('marginalize', dict(over=rand_subset(rng, d, 1, d - 1))))
            ops.append(('filter_pops', dict(tokeep=[k + 1 for k in rand_subset(rng, d, 1, d - 1)])))
            ops.append(('reorder_pops', dict(neworder=[int(x) + 1 for x in rng.permutation(d)])))
            ops.append(('combine_two_pops', dict(tocombine=[int(x) + 1 for x in rng.choice(d, size=2, replace=False)])))
            if d >= 3:
                ops.append(('combine_pops', dict(tocombine=[int(x) + 1 for x in rng.choice(d, size=int(rng.integers(2, d + 1)), replace=False)])))
        ops.append(('scramble_pop_ids', dict()))
    for name, args in ops:
        f = apply_op(name, args)
        inp = dict(op='commute_fold:' + name, args=args, fs=spec_json(U))
        chk.l3(('commute_fold', name, d, U.pop_ids is not None))
        a, ea = call(lambda: f(F)); b, eb = call(lambda: f(U).fold())
        if ea is not None or eb is not None:
            chk.fail('commute_fold:%s:raises' % name, '%s: %r / %r' % (name, ea, eb), inp); continue
        ok, why = eq_spectra(a, b, flags=False)
        if not ok:
            chk.fail('commute_fold:%s' % name, '%s(fold(fs)) != fold(%s(fs)): %s' % (name, name, why), inp)
        elif bool(a.folded) != bool(b.folded):
            key = '%s:folded_flag_lost' % name if name.startswith('combine') else 'commute_fold:%s:flag' % name
            chk.fail(key, '%s(fold(fs)) has the data and mask of fold(%s(fs)) but folded=%r' % (name, name, a.folded), inp)
        chk.stat('commute_fold:' + name)

def project_pair(ctx, U, name, args):
    """(op after project, project after op) for the given operation and target sample sizes args['ns']"""
    dadi = ctx['dadi']
    d = U.ndim
    ns = [int(s) - 1 for s in U.shape]
    m = list(args['ns'])
    if name == 'marginalize':
        over = list(args['over']); keep = [k for k in range(d) if k not in over]
        return (lambda: U.project(m).marginalize(over)), (lambda: U.marginalize(over).project([m[k] for k in keep]))
    if name == 'filter_pops':
        keep1 = list(args['tokeep'])
        return (lambda: U.project(m).filter_pops(keep1)), (lambda: U.filter_pops(keep1).project([m[k - 1] for k in sorted(keep1)]))
    if name == 'reorder_pops':
        perm = list(args['neworder'])
        return (lambda: U.project(m).reorder_pops(perm)), (lambda: U.reorder_pops(perm).project([m[p - 1] for p in perm]))
    if name == 'combine_two_pops':
        pq1 = list(args['tocombine']); pq = sorted(p - 1 for p in pq1)
        tgt = [(ns[pq[0]] + ns[pq[1]] if k == pq[0] else m[k]) for k in range(d) if k != pq[1]]
        return (lambda: U.project(m).combine_two_pops(pq1)), (lambda: U.combine_two_pops(pq1).project(tgt))
    if name == 'scramble_pop_ids':
        # projecting the scrambled spectrum = re-dealing the projected pooled spectrum
        def rhs():
            N = sum(ns)
            pooled, n, nm = explicit_push(U, lambda i: (sum(i),), (N + 1,))
            p1 = dadi.Spectrum(pooled).project([sum(m)])
            out = np.zeros([k + 1 for k in m])
            pd = np.asarray(p1.data)
            for c in np.ndindex(*out.shape):
                out[c] = float(hyp_weight(m, c)) * pd[sum(c)]
            return dadi.Spectrum(out)
        return (lambda: U.scramble_pop_ids().project(m)), rhs
    raise KeyError(name)

def commute_project(chk, ctx, U, rng, forced=None):
    """op(project U) == project(op U) on unmasked data, standard-masked unfolded U"""
    d = U.ndim
    ns = [int(s) - 1 for s in U.shape]
    def smaller(keep_fixed=()):
        return [n if k in keep_fixed else int(rng.integers(1, n + 1)) for k, n in enumerate(ns)]
    cases = []
    if forced is not None:
        cases.append(forced)
    else:
        if d >= 2:
            over = rand_subset(rng, d, 1, d - 1); keep = [k for k in range(d) if k not in over]
            m = smaller()
            cases.append(('marginalize', dict(over=over, ns=m)))
            cases.append(('filter_pops', dict(tokeep=[k + 1 for k in keep][::-1], ns=m)))
            cases.append(('reorder_pops', dict(neworder=[int(x) + 1 for x in rng.permutation(d)], ns=smaller())))
            if d >= 3:
                pq = sorted(int(x) for x in rng.choice(d, size=2, replace=False))
                cases.append(('combine_two_pops', dict(tocombine=[pq[1] + 1, pq[0] + 1], ns=smaller(keep_fixed=pq))))
        cases.append(('scramble_pop_ids', dict(ns=smaller())))
    for name, args in cases:
        f, g = project_pair(ctx, U, name, args)
        inp = dict(op='commute_project:' + name, args=args, fs=spec_json(U))
        chk.l3(('commute_project', name, d))
        a, ea = call(f); b, eb = call(g)
        if ea is not None or eb is not None:
            chk.fail('commute_project:%s:raises' % name, '%s: %r / %r' % (name, ea, eb), inp); continue
        ad = np.asarray(a.data); bd = np.asarray(b.data)
        if ad.shape != bd.shape:
            chk.fail('commute_project:%s' % name, 'shapes %s vs %s' % (ad.shape, bd.shape), inp); continue
        keep = ~(np.asarray(a.mask) | np.asarray(b.mask))
        if np.any(keep):
            scale = float(np.max(np.abs(bd[keep]))); err = float(np.max(np.abs(ad[keep] - bd[keep])))
            if not (err <= 1e-9 * max(scale, 1e-300)):
                chk.fail('commute_project:%s' % name, '%s does not commute with projection: differ by %.3g (scale %.3g)' % (name, err, scale), inp)
        if name != 'scramble_pop_ids' and (None if a.pop_ids is None else list(a.pop_ids)) != (None if b.pop_ids is None else list(b.pop_ids)):
            chk.fail('commute_project:%s:labels' % name, 'labels %r vs %r' % (a.pop_ids, b.pop_ids), inp)
        chk.stat('commute_project:' + name)

def obs_equal(a, b):
    """observational equality (the `Obs` of the theorems): shape, mask, data at unmasked cells; plus labels and folded flag"""
    ok, why = same_unmasked(np.asarray(a.data), np.asarray(a.mask), np.asarray(b.data), np.asarray(b.mask))
    if not ok:
        return False, why
    la = None if a.pop_ids is None else list(a.pop_ids); lb = None if b.pop_ids is None else list(b.pop_ids)
    if la != lb:
        return False, 'labels differ (%r vs %r)' % (la, lb)
    if bool(a.folded) != bool(b.folded):
        return False, 'folded flags differ (%r vs %r)' % (a.folded, b.folded)
    return True, ''

def exact_pair(ctx, U, name, args):
    """the two sides of a PROVED commutation (C10_commute_project_*), as closures on the implementation"""
    d = U.ndim
    ns = [int(s) - 1 for s in U.shape]
    m = list(args['ns'])
    if name == 'marginalize':
        over = list(args['over']); keep = [k for k in range(d) if k not in over]; mc = bool(args['mask_corners'])
        return (lambda: U.project(m).marginalize(over, mask_corners=mc)), (lambda: U.marginalize(over, mask_corners=mc).project([m[k] for k in keep]))
    if name == 'reorder_pops':
        perm = list(args['neworder'])
        return (lambda: U.project(m).reorder_pops(perm)), (lambda: U.reorder_pops(perm).project([m[p - 1] for p in perm]))
    if name in ('combine_two_pops', 'combine_pops'):
        tc = list(args['tocombine']); S0 = sorted(t - 1 for t in tc); a = S0[0]
        tgt = [(sum(ns[l] for l in S0) if k == a else m[k]) for k in range(d) if k not in S0[1:]]
        if name == 'combine_two_pops':
            return (lambda: U.project(m).combine_two_pops(tc)), (lambda: U.combine_two_pops(tc).project(tgt))
        return (lambda: U.project(m).combine_pops(tc)), (lambda: U.combine_pops(tc).project(tgt))
    raise KeyError(name)

def commute_project_exact(chk, ctx, rng, d, cap, forced=None, U=None):
    """L3 of the proved general forms, masks included: (1) marginalize over any set vs projecting any axes (summed ones too) on a
    spectrum WITHOUT masked entries, both mask_corners; (2) reorder_pops, (3a) combine_two_pops / combine_pops vs projecting the
    untouched populations on spectra with ANY mask"""
    def smaller(ns, keep_fixed=()):
        return [n if k in keep_fixed else (n if rng.random() < 0.2 else int(rng.integers(1, n + 1))) for k, n in enumerate(ns)]
    todo = []
    if forced is not None:
        todo.append((U, forced[0], forced[1]))
    elif d >= 2:
        U1, _ = gen_spectrum(ctx, rng, d, min(cap, 250), maskmode='none', folded=False)
        ns1 = [int(s) - 1 for s in U1.shape]
        todo.append((U1, 'marginalize', dict(over=rand_subset(rng, d, 1, d - 1), ns=smaller(ns1), mask_corners=bool(rng.random() < 0.5))))
        U2, _ = gen_spectrum(ctx, rng, d, min(cap, 250), folded=False)
        ns2 = [int(s) - 1 for s in U2.shape]
        todo.append((U2, 'reorder_pops', dict(neworder=[int(x) + 1 for x in rng.permutation(d)], ns=smaller(ns2))))
        if d >= 3:
            U3, _ = gen_spectrum(ctx, rng, d, min(cap, 250), folded=False)
            ns3 = [int(s) - 1 for s in U3.shape]
            pq = [int(x) for x in rng.choice(d, size=2, replace=False)]
            todo.append((U3, 'combine_two_pops', dict(tocombine=[pq[0] + 1, pq[1] + 1], ns=smaller(ns3, keep_fixed=pq))))
            U4, _ = gen_spectrum(ctx, rng, d, min(cap, 250), folded=False)
            ns4 = [int(s) - 1 for s in U4.shape]
            tc = [int(x) for x in rng.choice(d, size=int(rng.integers(2, d)), replace=False)]
            todo.append((U4, 'combine_pops', dict(tocombine=[t + 1 for t in tc], ns=smaller(ns4, keep_fixed=tc))))
    for V, name, args in todo:
        f, g = exact_pair(ctx, V, name, args)
        inp = dict(op='commute_project_exact:' + name, args=args, fs=spec_json(V))
        chk.l3(('commute_project_exact', name, V.ndim, standard_mask(V), bool(args.get('mask_corners', True))))
        a, ea = call(f); b, eb = call(g)
        if ea is not None or eb is not None:
            chk.fail('commute_project_exact:%s:raises' % name, '%s: %r / %r' % (name, ea, eb), inp); continue
        ok, why = obs_equal(a, b)
        if not ok:
            chk.fail('commute_project_exact:%s' % name, '%s then project != project then %s (shape, mask, unmasked data, labels, flag): %s' % (name, name, why), inp)
        chk.stat('commute_project_exact:' + name)

def merged_split(chk, ctx, rng, d, cap, forced=None, U=None):
    """L3 of C10_project_merged_split: projecting the MERGED population to M after combine_two_pops is the hypergeometric mixture
    over the splits M = ma + mb of (project the two populations to ma, mb; then merge) — not a plain commutation"""
    if forced is None:
        if d < 2:
            return
        U, _ = gen_spectrum(ctx, rng, d, min(cap, 200), maskmode='none', folded=False)
        pq = sorted(int(x) for x in rng.choice(d, size=2, replace=False))
        na, nb = U.shape[pq[0]] - 1, U.shape[pq[1]] - 1
        args = dict(tocombine=[pq[1] + 1, pq[0] + 1], M=int(rng.integers(1, na + nb + 1)))
    else:
        args = forced
    tc = list(args['tocombine']); a, b = sorted(t - 1 for t in tc); M = int(args['M'])
    d = U.ndim
    ns = [int(s) - 1 for s in U.shape]; na, nb = ns[a], ns[b]
    inp = dict(op='merged_split', args=args, fs=spec_json(U))
    chk.l3(('merged_split', d, M == na + nb, M <= min(na, nb)))
    tgt = [(M if k == a else ns[k]) for k in range(d) if k != b]
    lhs, e1 = call(lambda: U.combine_two_pops(tc).project(tgt))
    if e1 is not None:
        chk.fail('merged_split:raises', 'combine_two_pops(...).project(...) raises %r' % (e1,), inp); return
    acc = np.zeros(lhs.shape); anymask = np.asarray(lhs.mask).copy()
    for ma in range(max(0, M - nb), min(na, M) + 1):
        mb = M - ma
        w = Fraction(math.comb(na, ma) * math.comb(nb, mb), math.comb(na + nb, M))
        mm = list(ns); mm[a] = ma; mm[b] = mb
        term, e2 = call(lambda: U.project(mm).combine_two_pops(tc))
        if e2 is not None:
            chk.fail('merged_split:raises', 'project(%r).combine_two_pops raises %r' % (mm, e2), inp); return
        if tuple(term.shape) != tuple(lhs.shape):
            chk.fail('merged_split:shape', 'project(%r).combine_two_pops(%r) has shape %s, combine_two_pops(%r).project(%r) has shape %s'
                     % (mm, tc, tuple(term.shape), tc, tgt, tuple(lhs.shape)), inp); return
        acc += float(w) * np.asarray(term.data); anymask |= np.asarray(term.mask)
    keep = ~anymask
    if np.any(keep):
        scale = float(np.max(np.abs(acc[keep]))); err = float(np.max(np.abs(acc[keep] - np.asarray(lhs.data)[keep])))
        if not (err <= 1e-9 * max(scale, 1e-300)):
            chk.fail('merged_split:mixture', 'project(merged, M=%d) differs from the hypergeometric mixture over the splits by %.3g (scale %.3g)' % (M, err, scale), inp)
    chk.stat('merged_split')

# ------------------------------------------------------------------------------------------ round 5: closed forms (K) and folded input (L3)
def case_mixsplit(chk, ctx, fs, pq, M):
    """K: the closed form of C10_project_merged_mixture evaluated by the Lean model (`mixSplit`: hypergeometric mixture over the splits
    of project-both-then-merge) against the implementation's `combine_two_pops(pq).project(.. M ..)`; fs has no masked entry"""
    driver = ctx['driver']
    if driver is None or not driver.ok():
        return
    d = fs.ndim
    a, b = sorted(int(t) - 1 for t in pq)
    ns = [int(x) - 1 for x in fs.shape]
    tgt = [(int(M) if k == a else ns[k]) for k in range(d) if k != b]
    inp = dict(op='mixsplit', tocombine=[int(t) for t in pq], M=int(M), fs=spec_json(fs))
    res, exc = call(lambda: fs.combine_two_pops(list(pq)).project(tgt))
    out = ask(driver, 'mixsplit', ilist(pq), str(int(M)), fs)
    chk.stat('op:mixsplit')
    if exc is not None:
        (chk.k_ok('mixsplit:rejects') if out == 'err raises' else chk.k_bad('mixsplit:rejects', inp, repr(exc), out, None))
        return
    compare_model(chk, 'mixsplit', inp, res, out, cmp_labels=False)

def case_projscr(chk, ctx, fs, ms, mc):
    """K: the closed form of C10_project_scramble evaluated by the Lean model (`redealProj`: re-deal of the projected pooled spectrum)
    against the implementation's `scramble_pop_ids(mask_corners).project(ms)`"""
    driver = ctx['driver']
    if driver is None or not driver.ok():
        return
    ms = [int(m) for m in ms]
    inp = dict(op='projscr', ns=ms, mask_corners=bool(mc), fs=spec_json(fs))
    res, exc = call(lambda: fs.scramble_pop_ids(mask_corners=mc).project(list(ms)))
    out = ask(driver, 'projscr', ilist(ms), '1' if mc else '0', fs)
    chk.stat('op:projscr')
    if exc is not None:
        (chk.k_ok('projscr:rejects') if out == 'err raises' else chk.k_bad('projscr:rejects', inp, repr(exc), out, None))
        return
    compare_model(chk, 'projscr', inp, res, out)

def obsF_equal(a, b):
    """the `ObsF` of the theorems for FOLDED spectra: obs_equal + the same data wherever the mask bit equals the folded-out bit
    (the data `unfold` reads under the folded-out mask)"""
    ok, why = obs_equal(a, b)
    if not ok:
        return ok, why
    if not a.folded:
        return False, 'result is not folded'
    tot = a._total_per_entry()
    fo = tot > int(np.sum(a.sample_sizes) / 2)
    sel = (np.asarray(a.mask) == fo) & fo
    if np.any(sel):
        x = np.asarray(a.data)[sel]; y = np.asarray(b.data)[sel]
        if not (np.all(np.isfinite(x)) and np.all(np.isfinite(y))):
            return False, 'non-finite data under the folded-out mask'
        scale = max(float(np.max(np.abs(np.asarray(b.data)))), 1e-300)
        if float(np.max(np.abs(x - y))) > RTOL * scale:
            return False, 'data under the folded-out mask differ by %.3g (unfold reads them)' % float(np.max(np.abs(x - y)))
    return True, ''

def commute_project_folded(chk, ctx, rng, d, cap, forced=None, F=None):
    """L3 of the commutations with `project` on FOLDED input under ObsF: marginalize / filter_pops (proved:
    C10_commute_project_marginalize_folded), reorder_pops (proved: C10_commute_project_reorder_folded), combine_two_pops on untouched populations (proved:
    C10_commute_project_combine_two_folded), combine_pops (validated only); F = fold of a standard-masked spectrum"""
    def smaller(ns, keep_fixed=()):
        return [n if k in keep_fixed else (n if rng.random() < 0.2 else int(rng.integers(1, n + 1))) for k, n in enumerate(ns)]
    todo = []
    if forced is not None:
        todo.append((F, forced[0], forced[1]))
    elif d >= 2:
        def newF():
            U, _ = gen_spectrum(ctx, rng, d, min(cap, 250), maskmode='std', folded=False)
            return U.fold()
        F1 = newF(); ns1 = [int(s) - 1 for s in F1.shape]
        todo.append((F1, 'marginalize', dict(over=rand_subset(rng, d, 1, d - 1), ns=smaller(ns1), mask_corners=True)))
        F2 = newF(); ns2 = [int(s) - 1 for s in F2.shape]
        todo.append((F2, 'reorder_pops', dict(neworder=[int(x) + 1 for x in rng.permutation(d)], ns=smaller(ns2))))
        if d >= 3:
            F3 = newF(); ns3 = [int(s) - 1 for s in F3.shape]
            pq = [int(x) for x in rng.choice(d, size=2, replace=False)]
            todo.append((F3, 'combine_two_pops', dict(tocombine=[pq[0] + 1, pq[1] + 1], ns=smaller(ns3, keep_fixed=pq))))
            F4 = newF(); ns4 = [int(s) - 1 for s in F4.shape]
            tc = [int(x) for x in rng.choice(d, size=int(rng.integers(2, d)), replace=False)]
            todo.append((F4, 'combine_pops', dict(tocombine=[t + 1 for t in tc], ns=smaller(ns4, keep_fixed=tc))))
    for V, name, args in todo:
        f, g = exact_pair(ctx, V, name, args)
        inp = dict(op='commute_project_folded:' + name, args=args, fs=spec_json(V))
        chk.l3(('commute_project_folded', name, V.ndim, V.pop_ids is not None))
        a, ea = call(f); b, eb = call(g)
        if ea is not None or eb is not None:
            chk.fail('commute_project_folded:%s:raises' % name, '%s: %r / %r' % (name, ea, eb), inp); continue
        ok, why = obsF_equal(a, b)
        if not ok:
            chk.fail('commute_project_folded:%s' % name,
                     '%s then project != project then %s on FOLDED input (shape, mask, unmasked data, data under the folded-out mask, labels, flag): %s'
                     % (name, name, why), inp)
        chk.stat('commute_project_folded:' + name)

def label_orders(chk, ctx, rng):
    """every order in which the caller can list the populations (C10_combine_two_public, C10_combine_public_order, C10_misc_pairs):
    all ordered pairs for combine_two_pops, all orderings of a merge set for combine_pops, all three pairs of Misc.combine_pops"""
    dadi = ctx['dadi']
    g = dadi.Spectrum(rng.integers(0, 20, (2, 3, 2, 4)).astype(float), pop_ids=['A', 'B', 'C', 'D'])
    for p in range(1, 5):
        for q in range(1, 5):
            if p != q:
                case_combine(chk, ctx, g, [p, q], two=True)
    g5 = dadi.Spectrum(rng.integers(0, 20, (2, 3, 2, 2, 3)).astype(float), pop_ids=['A', 'B', 'C', 'D', 'E'])
    for perm in itertools.permutations([2, 4, 5]):
        case_combine(chk, ctx, g5, list(perm), two=False)
    for tc in ([5, 1, 3, 2], [3, 1], [4, 3], [2, 5, 3, 1, 4]):
        case_combine(chk, ctx, g5, tc, two=False)
    for idx in ([0, 1], [0, 2], [1, 2]):
        data, _ = gen_values(rng, [3, 4, 5])
        case_misc(chk, ctx, dadi.Spectrum(data), idx)
        data, _ = gen_values(rng, [4, 4, 4])                   # equal sizes: only the entries can be wrong
        case_misc(chk, ctx, dadi.Spectrum(data, mask_corners=False), idx)

def under_mask_cases(chk, ctx, rng):
    """K: `unfold` / `project` read the data UNDER the folded-out mask (C10_obs_not_congruence_for_unfold): folded spectra with
    non-zero values there (the constructor warns and accepts them)"""
    import logging
    dadi = ctx['dadi']
    lg = logging.getLogger('Spectrum_mod'); old = lg.level; lg.setLevel(logging.ERROR)
    try:
        for shape in ([4], [3, 3], [2, 3, 2]):
            data, _ = gen_values(rng, shape)
            data = data + 1.0
            F0 = dadi.Spectrum(np.ones(shape)).fold()
            F = dadi.Spectrum(data, mask=np.asarray(F0.mask).copy(), mask_corners=False, data_folded=True, check_folding=False)
            case_foldunfold(chk, ctx, F)
            ns = [s - 1 for s in shape]
            case_project(chk, ctx, F, [max(1, n - 1) for n in ns])
    finally:
        lg.setLevel(old)

# ------------------------------------------------------------------------------------------ drivers of the check
def one_round(chk, ctx, rng, cap, d):
    dadi = ctx['dadi']
    # marginalize / filter
    fs, info = gen_spectrum(ctx, rng, d, cap)
    if d >= 2:
        over = rand_subset(rng, d, 1, d - 1)
        case_marginalize(chk, ctx, fs, over, bool(rng.random() < 0.7))
        fs2, _ = gen_spectrum(ctx, rng, d, cap)
        keep = rand_subset(rng, d, 1, d - 1)
        tokeep = [k + 1 for k in keep]                        # unordered on purpose
        case_marginalize(chk, ctx, fs2, [k for k in range(d) if k not in keep], bool(rng.random() < 0.5), via_filter=tokeep)
        # reorder
        fs3, _ = gen_spectrum(ctx, rng, d, cap)
        case_reorder(chk, ctx, fs3, [int(x) + 1 for x in rng.permutation(d)])
        # combine two
        fs4, _ = gen_spectrum(ctx, rng, d, cap)
        case_combine(chk, ctx, fs4, [int(x) + 1 for x in rng.choice(d, size=2, replace=False)], two=True)
        # combine several
        fs5, _ = gen_spectrum(ctx, rng, d, cap)
        k = int(rng.integers(2, d + 1)) if rng.random() < 0.9 else 1
        case_combine(chk, ctx, fs5, [int(x) + 1 for x in rng.choice(d, size=k, replace=False)], two=False)
    # scramble: unmasked corners with any flag, standard with flag on, sometimes interior masks (NaN cells)
    mm = ['none', 'std', 'std', 'interior'][int(rng.integers(4))]
    fs6, _ = gen_spectrum(ctx, rng, d, min(cap, 200), maskmode=mm)
    mc = True if (mm != 'none' and rng.random() < 0.8) else bool(rng.random() < 0.5)
    case_scramble(chk, ctx, fs6, mc)
    # fold / unfold of the model
    fs7, _ = gen_spectrum(ctx, rng, d, cap)
    case_foldunfold(chk, ctx, fs7)
    # one-axis projection (model used by C10_commute_project_marginalize)
    fs9, _ = gen_spectrum(ctx, rng, d, 40 if d == 1 else min(cap, 250), folded=False)   # binomials of the model are exact bignums
    k9 = int(rng.integers(d)); n9 = fs9.shape[k9] - 1
    m9 = int(rng.integers(1, n9 + 1)) if rng.random() < 0.9 else n9 + 1
    case_project_one(chk, ctx, fs9, k9, m9)
    # Misc.combine_pops
    if d in (2, 3):
        fs8, _ = gen_spectrum(ctx, rng, d, cap, maskmode=['std', 'none'][int(rng.integers(2))], folded=False)
        idx = [0, 1] if d == 2 else [[0, 1], [0, 2], [1, 2]][int(rng.integers(3))]
        case_misc(chk, ctx, fs8, idx)
    # commutation with fold / project (L3)
    U, _ = gen_spectrum(ctx, rng, d, min(cap, 250), maskmode='std', folded=False)
    commute_fold(chk, ctx, U, rng)
    U2, _ = gen_spectrum(ctx, rng, d, min(cap, 250), maskmode='std', folded=False)
    commute_project(chk, ctx, U2, rng)
    # the proved general forms, masks included; the folded path of marginalize on a spectrum without masked entries
    commute_project_exact(chk, ctx, rng, d, cap)
    merged_split(chk, ctx, rng, d, cap)
    if d >= 2:
        U3, _ = gen_spectrum(ctx, rng, d, min(cap, 250), maskmode='none', folded=False)
        commute_fold(chk, ctx, U3, rng, forced=('marginalize', dict(over=rand_subset(rng, d, 1, d - 1))))
    # round 5: closed forms through the model (K), commutations with project on folded input (L3)
    if d >= 2:
        fs11, _ = gen_spectrum(ctx, rng, d, min(cap, 120), maskmode='none', folded=False)
        pq11 = [int(x) + 1 for x in rng.choice(d, size=2, replace=False)]
        nab = (fs11.shape[pq11[0] - 1] - 1) + (fs11.shape[pq11[1] - 1] - 1)
        M11 = nab + 1 if rng.random() < 0.07 else int(rng.integers(1, nab + 1))
        case_mixsplit(chk, ctx, fs11, pq11, M11)
    mm12 = ['none', 'none', 'std'][int(rng.integers(3))]
    fs12, _ = gen_spectrum(ctx, rng, d, 30 if d == 1 else min(cap, 150), maskmode=mm12, folded=False)
    n12 = [int(x) - 1 for x in fs12.shape]
    m12 = [n if rng.random() < 0.25 else int(rng.integers(1, n + 1)) for n in n12]
    if rng.random() < 0.07:
        m12[int(rng.integers(d))] = n12[0] + max(n12) + 1
    case_projscr(chk, ctx, fs12, m12, True if mm12 == 'std' else bool(rng.random() < 0.5))
    commute_project_folded(chk, ctx, rng, d, cap)
    # public project (model used by the general commutation theorems): any mask, folded or not, some sizes unchanged, some invalid
    fs10, _ = gen_spectrum(ctx, rng, d, 40 if d == 1 else min(cap, 250))
    n10 = [int(x) - 1 for x in fs10.shape]
    r10 = rng.random()
    if r10 < 0.08:
        m10 = n10 + [1]
    elif r10 < 0.16:
        m10 = list(n10); m10[int(rng.integers(d))] += 1
    else:
        m10 = [n if rng.random() < 0.3 else int(rng.integers(0 if rng.random() < 0.1 else 1, n + 1)) for n in n10]
    case_project(chk, ctx, fs10, m10)

def edge_cases(chk, ctx, rng):
    """deterministic structure, random values"""
    dadi = ctx['dadi']
    # rejected arguments
    fs, _ = gen_spectrum(ctx, rng, 3, 60, maskmode='std', folded=False)
    for bad in ([1, 2], [1, 2, 2], [0, 1, 2], [1, 2, 4], [1, 2, 3, 4]):
        case_reorder(chk, ctx, fs, bad)
    for tokeep in ([0], [4], [1, 1], []):
        res, exc = call(lambda: fs.filter_pops(list(tokeep)))
        inp = dict(op='filter_pops', tokeep=list(tokeep), over=[], mask_corners=True, fs=spec_json(fs))
        chk.l3(('filter_rejects', tuple(tokeep)))
        if exc is None:
            chk.fail('filter_pops:accepts_invalid', 'filter_pops accepts tokeep=%r for 3 populations' % (tokeep,), inp)
        elif ctx['driver'] is not None and ctx['driver'].ok():
            out = ask(ctx['driver'], 'filter', ilist(tokeep), '1', fs)
            (chk.k_ok('filter_pops:rejects') if out == 'err raises' else chk.k_bad('filter_pops:rejects', inp, repr(exc), out, None))
    for over in ([3], [0, 1, 2]):
        res, exc = call(lambda: fs.marginalize(list(over)))
        inp = dict(op='marginalize', over=list(over), tokeep=None, mask_corners=True, fs=spec_json(fs))
        chk.l3(('marg_rejects', tuple(over)))
        if exc is not None and ctx['driver'] is not None and ctx['driver'].ok():
            out = ask(ctx['driver'], 'marg', ilist(over), '1', fs)
            (chk.k_ok('marginalize:rejects') if out == 'err raises' else chk.k_bad('marginalize:rejects', inp, repr(exc), out, None))
    case_combine(chk, ctx, fs, [1, 4], two=True)
    # empty `over`, identity permutation, all populations merged, adjacent / non-adjacent pairs in both orders
    case_marginalize(chk, ctx, fs, [], True)
    case_reorder(chk, ctx, fs, [1, 2, 3])
    case_combine(chk, ctx, fs, [3, 1, 2], two=False)
    for pq in ([1, 2], [2, 1], [1, 3], [3, 1], [2, 3], [3, 2]):
        g, _ = gen_spectrum(ctx, rng, 3, 80)
        case_combine(chk, ctx, g, pq, two=True)
    # sample size 1 everywhere, and one long axis
    for shape in ([2, 2], [2, 2, 2, 2], [2, 9], [7, 2, 3]):
        data, _ = gen_values(rng, shape)
        ids = ['q%d' % i for i in range(len(shape))]
        g = dadi.Spectrum(data, pop_ids=ids)
        for h in (g, g.fold()):
            case_marginalize(chk, ctx, h, [0], True)
            case_combine(chk, ctx, h, [1, 2], two=True)
            case_scramble(chk, ctx, h, True)
            case_reorder(chk, ctx, h, list(range(len(shape), 0, -1)))
    # the documented flags must reach their destination, folded and unfolded
    for fold in (False, True):
        g, _ = gen_spectrum(ctx, rng, 3, 80, maskmode='none', folded=fold)
        case_marginalize(chk, ctx, g, [0, 2], False, via_filter=[2])
        case_marginalize(chk, ctx, g, [1], False)
    # the documented examples
    g = dadi.Spectrum(rng.integers(0, 20, (2, 3, 4, 5, 6)).astype(float), pop_ids=['1', '2', '3', '4', '5'])
    case_combine(chk, ctx, g, [4, 2, 1], two=False)
    g = dadi.Spectrum(rng.integers(0, 20, (3, 4, 5, 6)).astype(float), pop_ids=['1', '2', '3', '4'])
    case_combine(chk, ctx, g, [4, 2], two=True)
    # round 5: every caller order of the populations; data under the folded-out mask
    label_orders(chk, ctx, rng)
    under_mask_cases(chk, ctx, rng)

def run(chk, ctx):
    tier = ctx['tier']
    rng = common.Rng(ctx['seed'], 'C10')
    chk.rule = ('spectra of 1-6 populations with unequal sample sizes (extent 2..; product of extents <= %s), values: counts / dyadic floats / sparse / tiny; '
                'mask: the two corners, no mask at all, or corners + 1-3 random entries; folded 35%%; labels absent 30%%; '
                'arguments: random subsets / permutations / merge sets (unordered, 1-based where the API is), both settings of mask_corners; '
                'edge cases: rejected arguments, empty subset, identity permutation, all populations merged, sample size 1 on every axis, '
                'every ordered pair / every ordering of a merge set on labelled spectra, all three pairs of Misc.combine_pops, folded spectra with non-zero data under the folded-out mask; '
                'non-trivial = distinct (operation, #populations, #axes touched, folded, labelled, flag, mask kind)'
                % ('300 (quick) / 1000 (thorough)'))
    chk.unproved = [
        'commutation with projection: proved for the loops and the public functions on UNFOLDED spectra (marginalize: any set of axes, any admissible sizes, spectrum without masked entries, both mask_corners, or corner-masked with mask_corners=True; reorder_pops and combine_two_pops/combine_pops on untouched axes: any mask) and, since round 5, on FOLDED input under ObsF for marginalize/filter_pops (standard folded mask) and reorder_pops (any mask); projecting the MERGED population = hypergeometric mixture over the splits is proved entry-wise for n-D spectra without masked entries (C10_project_merged_mixture, one merged axis projected); project(scramble) = re-deal(project(pool)) is proved for all dimensions and sizes (C10_project_scramble). combine_two_pops vs project on FOLDED input is proved for genuine folded spectra (standard mask, zeros under the folded-out mask; C10_commute_project_combine_two_folded). Validated numerically only (L3 commute_project_folded:combine_pops): the iterated merges of combine_pops (3 or more populations) vs project on FOLDED input',
        'mask bookkeeping of the folded paths: proved end to end for marginalize of fold(U), U without masked entries (C10_marginalize_folded_path); the folded paths of scramble_pop_ids and project, and folded spectra with additional masked entries, are validated by K',
        'the loops of the implementation are tied to the model by correspondence (K); translated (T) are only the three list programs and the mask statement of combine_two_pops, the filter_pops call and the Misc.combine_pops table',
        'round-off: floats vs exact rationals compared at 1e-9 relative to the array scale; binomials via exp(gammaln) in scramble_pop_ids and _cached_projection',
    ]
    chk.assumptions += ['numpy masked-array semantics (ma.sum masks a cell iff all contributors are masked and counts masked entries as 0; '
                        'arithmetic does not accumulate into masked cells) are part of the model and checked by K only']
    ctx['chk'] = chk
    dadi = ctx['dadi']
    cap = 300 if tier == 'quick' else 1000
    rounds = 5 if tier == 'quick' else 60
    edge_cases(chk, ctx, rng)
    for rep in range(rounds):
        for d in (1, 2, 3, 4, 5, 6):
            one_round(chk, ctx, rng, cap if d < 6 else min(cap, 400), d)

def replay(chk, ctx, data):
    inp = data.get('input') or {}
    op = inp.get('op')
    if not op or 'fs' not in inp:
        run(chk, ctx); return
    fs = spec_from_json(ctx, inp['fs'])
    rng = common.Rng(ctx['seed'], 'C10-replay')
    if op == 'marginalize':
        case_marginalize(chk, ctx, fs, inp['over'], inp['mask_corners'])
    elif op == 'filter_pops':
        case_marginalize(chk, ctx, fs, inp['over'], inp['mask_corners'], via_filter=inp['tokeep'])
    elif op == 'reorder_pops':
        case_reorder(chk, ctx, fs, inp['neworder'])
    elif op in ('combine_two_pops', 'combine_pops'):
        case_combine(chk, ctx, fs, inp['tocombine'], two=(op == 'combine_two_pops'))
    elif op == 'scramble_pop_ids':
        case_scramble(chk, ctx, fs, inp['mask_corners'])
    elif op == 'Misc.combine_pops':
        case_misc(chk, ctx, fs, inp['idx'])
    elif op == '_project_one_axis':
        case_project_one(chk, ctx, fs, inp['axis'], inp['n'])
    elif op == 'project':
        case_project(chk, ctx, fs, inp['ns'])
    elif op in ('fold', 'unfold'):
        case_foldunfold(chk, ctx, fs)
    elif op == 'mixsplit':
        case_mixsplit(chk, ctx, fs, inp['tocombine'], inp['M'])
    elif op == 'projscr':
        case_projscr(chk, ctx, fs, inp['ns'], inp['mask_corners'])
    elif op.startswith('commute_project_folded:'):
        commute_project_folded(chk, ctx, rng, fs.ndim, 300, forced=(op.split(':', 1)[1], inp.get('args') or {}), F=fs)
    elif op.startswith('commute_project_exact:'):
        commute_project_exact(chk, ctx, rng, fs.ndim, 300, forced=(op.split(':', 1)[1], inp.get('args') or {}), U=fs)
    elif op == 'merged_split':
        merged_split(chk, ctx, rng, fs.ndim, 300, forced=(inp.get('args') or {}), U=fs)
    elif op.startswith('commute_fold:'):
        commute_fold(chk, ctx, fs, rng, forced=(op.split(':', 1)[1], inp.get('args') or {}))
    elif op.startswith('commute_project:'):
        commute_project(chk, ctx, fs, rng, forced=(op.split(':', 1)[1], inp.get('args') or {}))
    else:
        run(chk, ctx)
