"""C02 (continued): the pre-computed-coefficient path.  The constant-parameter drivers build a,b,c in
Python and call implicit_precalc_* / tridiag; we record those calls (by wrapping module attributes of the
scratch-built dadi) and compare (1) the recorded a,b,c with the model's `preCoefND` (generated Python
formulas), (2) the kernel's result with the model's `preSolve`, (3) with the on-the-fly kernel (L3)."""
import numpy as np
from . import common, gen
from .common import rat, fmt_list, fmt_nd, fmt_grids, parse_nd, close

AX = 'xyzab'

class Recorder:
    def __init__(self, dadi):
        self.dadi = dadi; self.I = dadi.Integration
        self.calls = []
        self.saved = {}
    def __enter__(self):
        I = self.I
        class IntC:
            pass
        real = I.int_c
        rec = self
        class Proxy:
            def __getattr__(s, name):
                f = getattr(real, name)
                if name.startswith('implicit_'):
                    def g(phi, *args, **kw):
                        pin = phi.copy()
                        out = f(phi, *args, **kw)
                        rec.calls.append((name, pin, [a.copy() if isinstance(a, np.ndarray) else a for a in args], kw, out.copy()))
                        return out
                    return g
                return f
        self.saved['int_c'] = real
        I.int_c = Proxy()
        realtri = I.tridiag
        class TProxy:
            def tridiag(s, a, b, c, r):
                out = realtri.tridiag(a, b, c, r)
                rec.calls.append(('tridiag', None, [a.copy(), b.copy(), c.copy(), r.copy()], {}, out.copy()))
                return out
        self.saved['tridiag'] = realtri
        I.tridiag = TProxy()
        return self
    def __exit__(self, *a):
        self.I.int_c = self.saved['int_c']; self.I.tridiag = self.saved['tridiag']

def run(chk, ctx, rng):
    dadi = ctx['dadi']; driver = ctx['driver']; I = dadi.Integration
    tier = ctx['tier']
    n = 9 if tier == 'quick' else 36
    old = I.use_delj_trick
    try:
        for it in range(n):
            d = 1 + it % 3
            use = bool((it // 3) % 3 == 2)
            I.use_delj_trick = use
            pts = int(rng.integers(5, 14)) if d == 1 else (int(rng.integers(4, 8)) if d == 2 else int(rng.integers(4, 6)))
            xx, kind = gen.grid(rng, pts)
            phi = gen.density(rng, [pts] * d)
            nus = [gen.loguniform(rng, 1e-2, 1e2) for _ in range(d)]
            gam = [float(rng.uniform(-40, 40)) for _ in range(d)]
            hs = [float(rng.uniform(0, 1)) for _ in range(d)]
            m = {(i, j): float(rng.uniform(0, 20)) for i in range(d) for j in range(d) if i != j}
            beta = gen.loguniform(rng, 0.2, 5) if d == 1 else None
            # one step: T smaller than dt
            dts = [I._compute_dt(np.diff(xx), nus[k], [m[k, l] for l in range(d) if l != k] or [0], gam[k], hs[k]) for k in range(d)]
            T = min(dts) * float(rng.uniform(0.2, 0.9))
            inp = dict(d=d, pts=pts, grid=kind, xx=xx, nus=nus, gam=gam, hs=hs, m={'%d%d' % (i+1, j+1): v for (i, j), v in m.items()},
                       beta=beta, T=T, use_delj_trick=use, phi=phi)
            key = 'precalc:%dD:delj=%s' % (d, use)
            try:
                with Recorder(dadi) as rec:
                    if d == 1:
                        I._one_pop_const_params(phi.copy(), xx, T, nus[0], gam[0], hs[0], 0.0, 0, beta)
                    elif d == 2:
                        I._two_pops_const_params(phi.copy(), xx, T, nus[0], nus[1], m[0, 1], m[1, 0], gam[0], gam[1], hs[0], hs[1], 0.0)
                    else:
                        I._three_pops_const_params(phi.copy(), xx, T, nus[0], nus[1], nus[2], m[0, 1], m[0, 2], m[1, 0], m[1, 2], m[2, 0], m[2, 1],
                                                   gam[0], gam[1], gam[2], hs[0], hs[1], hs[2], 0.0)
            except Exception as e:
                chk.l3((key,))
                chk.fail(key + ':raises:' + type(e).__name__, 'constant-parameter driver raises %r (use_delj_trick=%s)' % (e, use), inp)
                continue
            if len(rec.calls) != d:
                chk.fail(key + ':ncalls', 'expected %d kernel calls for one step, saw %d' % (d, len(rec.calls)), inp); continue
            for ax, (name, pin, args, kw, out) in enumerate(rec.calls):
                want = 'tridiag' if d == 1 else 'implicit_precalc_%dD%s' % (d, AX[ax])
                if name != want:
                    chk.fail(key + ':wrong-kernel', 'step %d called %s, expected %s' % (ax, name, want), inp); continue
                ms = [m[ax, l] for l in range(d) if l != ax]
                if d == 1:
                    a, b1, c, r = args; dt = T
                    b = b1 - 1 / dt; pin = r * dt
                else:
                    a, b, c, dt = args
                grids = [xx] * d
                # L3: the on-the-fly kernel on the same input must give the same result (precomputed == on-the-fly)
                from .c02 import call_kernel, eps_array
                chk.l3((key, ax, kind))
                rtol = 1e-9 if not use else 1e-6
                skip = False
                eps = None
                if use:
                    eps, tmin, tmax = eps_array(pin, grids, ax, nus[ax], ms, gam[ax], hs[ax], beta)
                    skip = tmax > 300 or tmin < 1e-2
                if skip:
                    chk.k_skipped += 1; continue
                otf = call_kernel(dadi, d, ax, pin, grids, nus[ax], ms, gam[ax], hs[ax], beta if beta is not None else 1.0, dt, use)
                ok, err, scale = close(out, otf, rtol=rtol)
                if not ok:
                    chk.fail(key + ':precalc-vs-onthefly:%s' % AX[ax], 'pre-computed step differs from on-the-fly kernel by %.3g (scale %.3g)' % (err, scale), inp)
                if driver is None or driver.p is None:
                    continue
                # K1: coefficients
                line = ' '.join(['precoef', '1' if use else '0', str(ax), rat(nus[ax]), rat(gam[ax]), rat(hs[ax]),
                                 rat(beta) if beta is not None else '-', fmt_list(ms), fmt_grids(grids),
                                 fmt_nd(eps) if eps is not None else '-', 'x'.join(str(s) for s in pin.shape)])
                ans = driver.ask(line)
                if not ans.startswith('ok '):
                    chk.k_bad('precoef:%dD%s' % (d, AX[ax]), inp, None, ans, None); continue
                parts = ans[3:].split(' ')
                for nm, impl_arr, txt in zip('abc', (a, b, c), parts):
                    model, _ = parse_nd(txt)
                    impl_arr = np.asarray(impl_arr).reshape(model.shape)
                    sc = max(np.max(np.abs(b)), 1.0)
                    ok, err, _ = close(impl_arr, model, rtol=0, atol=rtol * sc)
                    if ok: chk.k_ok('precoef_%s:%dD%s' % (nm, d, AX[ax]))
                    else: chk.k_bad('precoef_%s:%dD%s' % (nm, d, AX[ax]), inp, impl_arr, model, err)
                # K2: solve
                line = ' '.join(['presolve', str(ax), rat(dt), fmt_nd(a), fmt_nd(b), fmt_nd(c), fmt_nd(pin)])
                ans = driver.ask(line)
                if not ans.startswith('ok '):
                    chk.k_bad('presolve:%dD%s' % (d, AX[ax]), inp, None, ans, None); continue
                model, _ = parse_nd(ans[3:])
                ok, err, _ = close(out, model, rtol=1e-9)
                if ok: chk.k_ok('presolve:%dD%s' % (d, AX[ax]))
                else: chk.k_bad('presolve:%dD%s' % (d, AX[ax]), inp, out, model, err)
    finally:
        I.use_delj_trick = old
