"""C13 — genotype data become the spectrum and statistics that direct counting gives.

K : (round 6: the FILTER / REF / ALT / INFO texts of every VCF line also go to the model as texts -- op `vcflines`, the generated reader tokens)
    synthetic genotype matrices are rendered to VCF + popinfo text and to the SNP-file format in a temp dir, parsed with
    Misc.make_data_dict_vcf / make_data_dict; the resulting dictionary, Spectrum.from_data_dict, fragment_data_dict,
    bootstraps_from_dd_chunks (choices recorded), the sub-sampling branch (draws recorded) and the statistics
    S / pi / Watterson_theta / theta_L / Tajima_D / Fst are compared with the exact-rational Lean model
    (Model/DataDict.lean through Driver/DataDict.lean) fed the matrix itself (strings abstracted to codes).
L3: the property statement evaluated directly on the implementation, no Lean involved: the spectrum is recomputed from the
    matrix with math.comb in Fractions (usable SNPs only, polarised by AA or folded), total = number of usable SNPs, chunks
    partition the keys and their spectra add up, bootstraps are sums of the chosen chunk spectra, sub-sampling uses exactly
    the requested number of individuals, statistics recomputed from the columns (pairwise differences by brute force,
    Tajima 1989, Weir & Cockerham 1984 eqs. 2-4 with the random-mating closure).
    The clauses are evaluated in SEQUENCES on one object: spectrum built with mask_corners False and True -> entries / mask /
    total (masked sum and data sum) -> every statistic and derived quantity, each one required to leave data, mask, folded flag
    and labels untouched (`check_pure`) -> entries / mask / total again; chunk spectra: statistics on every chunk spectrum, then
    chunk totals, their sum and the sum of the spectra (added as spectra) against the whole again; bootstraps likewise.
    Every public entry point is called end to end against direct counting, with arguments whose internal order differs:
    `Misc.bootstraps_subsample_vcf` (check_pipeline: `subsample` dictionary written in another order than `pop_ids`, unequal
    sizes, pop_ids a subset / another order than the popinfo file and the VCF columns; sample sizes, sum of the chosen chunks of
    the sub-sampled data, total, mask, flags per replicate; K op `bsv` = the model's composition through the generated glue),
    `Misc.count_data_dict` (check_count_dict), `Spectrum.from_data_dict_corrected` with a zero-misidentification table
    (check_corrected), `make_data_dict_vcf(subsample=…)` with the dictionary in its own order.
"""
import os, math, itertools, tempfile, shutil, warnings, functools, operator, random as pyrandom
from fractions import Fraction
import numpy as np
from . import common
from .common import rat, parse_list, close

PROP = 'C13'
GENERATED = ['DataDict']
NEEDS_BUILD = False
NEEDS_DRIVER = True
DRIVER_MODULES = ['DataDict']

RTOL = 1e-9
BASES = 'ACGT'
# every substring of 'ACGT' of length 2-4 (a membership test written `allele in 'ACGT'` accepts exactly these) ...
SUBSTR = ['AC', 'CG', 'GT', 'ACG', 'CGT', 'ACGT']
# ... and multi-character alleles that are not substrings, multi-allelic lists, '*', '.', symbolic alleles, IUPAC codes
NONSUB = ['AT', 'TA', 'CA', 'GC', 'TTC', 'AAA', 'ACT', 'GTA', 'ACGTA', 'TACG']
OTHER = ['A,C', 'T,G', 'AC,A', '*', '.', '<DEL>', '<INS>', '<NON_REF>', 'N', 'R']
def nonsnp_lines():
    """(REF, ALT) pairs that are NOT biallelic single-base SNPs, of every kind; present in every generated VCF"""
    out = []
    for x in SUBSTR:
        out += [(x, x[0]), (x[0], x), (x, x[-1]), (x[-1], x)]              # deletions / insertions whose long allele is a substring of 'ACGT'
    out += [('AC', 'CG'), ('ACG', 'CGT'), ('ac', 'a'), ('c', 'cg'), ('Gt', 'g')]
    for x in NONSUB:
        out += [(x, x[0]), (x[-1], x)]
    out += [('CG', 'TA'), ('at', 'a')]
    for x in OTHER:
        out.append((BASES[len(out) % 4], x))
    out += [('N', 'A'), ('*', 'A'), ('.', 'A'), ('a,c', 'g')]
    return out
# ---- INFO column: the keys under which the reader may find the ancestral allele (exact INFO keys, the text before the first '=') ...
AA_KEYS = ('AA', 'AA_ensembl', 'AA_chimp')
# ... and keys that are NOT the ancestral allele although they share a prefix / are an extension / a case variant of one of them, or
# contain it: flags without '=', cohort annotations (ESP6500: AA_AC, AA_AF = African-American allele count / frequency), ...
DECOY_KEYS = ['AA', 'AA_ensembl', 'AA_chimp',                                  # flags (no '=')
              'AAX', 'AAA', 'AAs', 'AA.', 'AA-', 'AA:', 'AA_', 'AA_AC', 'AA_AF', 'AA_GTC', 'AA_AGE', 'AA_ens', 'AA_ensemb', 'AA_ensemblX',
              'AA_ensembl_v2', 'AA_ensembl.1', 'AA_chim', 'AA_chimpanzee', 'AA_chimp2', 'AA_CHIMP', 'AA_Ensembl', 'AA_gorilla', 'AA_macaque',
              'aa', 'Aa', 'aA', 'aa_ensembl', 'XAA', 'X_AA', 'BAA', 'EAA', 'CAA', 'A', 'A_A', 'AAF', 'AA1', '1AA', '.AA', 'AA_ensemblAA', 'AAAA']
UNRELATED = ['DP=14', 'AC=3', 'AN=12', 'NS=3', 'AF=0.5', 'DB', 'H2', 'CSQ=A|missense|p.x', 'MQ=60', 'VT=SNP', 'SOMATIC', 'END=77', '.']
FILTERS_FAIL = ['q10', 'LowQual', 'q10;s50', 'pass', 'FAIL', 'Pass', 'PASS;q10', 'q10;PASS', 'PAS', 'PASSED', 'PASS2', 'NOPASS', '..', '0', 'P', './.', ';']
FORMATS = ['GT:DP', 'GT:AD:DP', 'GT:DP:AD', 'DP:GT', 'AD:DP:GT', 'GQ:GT', 'GT:GQ:PL', 'DP:GQ:GT:AD', 'PL:AD:GT']
CHROMS = ['chr1', 'chr_2', 'scaf.3', 'ctg_4.1_b', '2L', 'X_random.v2', 'NC_000001.11', 'a_b_c', 'un.known', '7']
POPS = ['YRI', 'CEU', 'pop_3', 'East.1', 'w', 'P2', 'POP2', 'Sample.b', 'population']

# ------------------------------------------------------------------------------------------------ codes
def allele_code(s):
    """strings are compared only for equality: '-' -> 0, A C G T -> 1..4, anything else -> 5 + a stable number"""
    if s == '-': return 0
    if s in BASES and len(s) == 1: return 1 + BASES.index(s)
    return 5 + _intern(s)

_INTERN = {}
def _intern(s):
    if s not in _INTERN:
        _INTERN[s] = len(_INTERN)
    return _INTERN[s]

class Codes:
    """per-dataset interning of chromosome names and additional_info strings"""
    def __init__(self):
        self.chrom = {}; self.info = {}
    def c(self, name):
        return self.chrom.setdefault(name, len(self.chrom))
    def i(self, s):
        if s is None: return 0
        return self.info.setdefault(s, len(self.info) + 1)

# ------------------------------------------------------------------------------------------------ generator
def gen_info(rng, aakey, aa, ref, alt, full):
    """the INFO column of one line as the list of its ';'-separated fields.  The ancestral allele (if the line has one) is the field
    `<aakey>=<aa>`, aakey one of AA_KEYS; around it, in EVERY position relative to it: unrelated fields, and decoys = fields whose key
    shares a prefix with / extends / is a case variant of / contains a recognised key, as flags or with values that would be a
    perfectly good ancestral allele (REF, ALT, a third base, lower case, ensembl-style) or counts / frequencies."""
    fields = []
    for _ in range(int(rng.choice([0, 0, 1, 1, 2, 3]))):
        fields.append(str(rng.choice(UNRELATED[:-1])))
    real = None
    if aa is not None:
        real = '%s=%s' % (aakey, aa)
        fields.insert(int(rng.integers(0, len(fields) + 1)), real)
    ndec = int(rng.choice([0, 0, 1, 1, 2, 3])) if rng.random() < (0.6 if not full else 0.5) else 0
    r, a = ref.upper()[:1], alt.upper()[:1]
    third = [b for b in BASES if b not in (r, a)]
    for _ in range(ndec):
        key = str(rng.choice(DECOY_KEYS))
        if key in AA_KEYS:
            f = key                                                      # a recognised name without '=' is a flag, not a value
        else:
            u = rng.random()
            val = (r or 'A') if u < 0.2 else (a or 'C') if u < 0.4 else third[0] if u < 0.55 else str(rng.choice(['12', '0.3', '0', '.', 'N', '-', 't', 'g|||', 'A|C', '1,2', '']))
            f = ('%s=%s' % (key, val)) if rng.random() < 0.9 else key
        fields.insert(int(rng.integers(0, len(fields) + 1)), f)
    if not full and aa is not None and rng.random() < 0.05:
        # a second recognised field: the first one in the column decides
        fields.insert(int(rng.integers(0, len(fields) + 1)), '%s=%s' % (str(rng.choice(AA_KEYS)), str(rng.choice([r or 'A', a or 'C', third[0], '.', 'n']))))
    if not fields and rng.random() < 0.5:
        fields = ['.']                                                   # the VCF way of writing an empty INFO column
    return fields

def site_info(site):
    """the INFO fields of a line (replay files written before round 6 hold pre / aakey / aa / post instead)"""
    if 'info' in site: return list(site['info'])
    txt = site.get('pre', '') + ('%s=%s' % (site['aakey'], site['aa']) if site['aa'] is not None else 'XX=1') + site.get('post', '')
    return txt.split(';')

def info_text(site):
    f = site_info(site)
    return ';'.join(f) if f else '.'

def gen_dataset(rng, tier, kind='vcf', full=False, npop=None):
    """a synthetic genotype matrix with everything the text formats can express.
    full=True: no missing data, every line usable (for the direct statistics)."""
    P = int(npop or rng.choice([1, 2, 2, 3]))
    pops = [str(x) for x in rng.choice(POPS, size=P, replace=False)]
    hi = 12 if P < 3 else 7
    nd = [int(rng.integers(2, hi + 1)) for _ in range(P)]
    if rng.random() < 0.25:
        nd[int(rng.integers(P))] = 2
    samples = []
    for p, n in zip(pops, nd):
        samples += [[('%s_s%d' % (p, k)), p] for k in range(n)]
    if not full:
        for k in range(int(rng.integers(0, 3))):
            samples.append(['orphan%d' % k, None])                 # not listed in the popinfo file
    order = rng.permutation(len(samples)) if rng.random() < 0.5 else np.arange(len(samples))
    samples = [samples[int(i)] for i in order]
    L = int(rng.integers(4, 28 if tier == 'quick' else 60))
    nchr = int(rng.integers(1, 4))
    chroms = [str(x) for x in rng.choice(CHROMS, size=nchr, replace=False)]
    span = int(rng.choice([30, 200, 5000]))
    fmt = 'GT' if rng.random() < 0.55 else str(rng.choice(FORMATS))       # GT first, in the middle, last; fields the reader does not know
    sep = str(rng.choice(['/', '/', '|', 'mixed']))                        # unphased, phased, or both within one line
    miss_base = 0.0 if full else float(rng.choice([0.0, 0.05, 0.2, 0.5]))
    sites = []
    for s in range(L):
        chrom = chroms[int(rng.integers(nchr))]
        pos = int(rng.integers(1, span + 1))
        ref, alt = [str(x) for x in rng.choice(list(BASES), size=2, replace=False)]
        flt = 'PASS'; aa = ref; aakey = 'AA'
        if not full:
            u = rng.random()
            if u < 0.07: alt = str(rng.choice(SUBSTR + NONSUB + OTHER))
            elif u < 0.12: ref = str(rng.choice(SUBSTR + NONSUB + ['N']))
            elif u < 0.14: ref, alt = str(rng.choice(SUBSTR)), str(rng.choice(SUBSTR + NONSUB))
            elif u < 0.155: alt = ref                                 # REF == ALT (degenerate but accepted)
            if rng.random() < 0.15: ref = ref.lower()
            if rng.random() < 0.15: alt = alt.lower()
            u = rng.random()
            if u < 0.12: flt = str(rng.choice(FILTERS_FAIL))
            elif u < 0.27: flt = '.'
            u = rng.random()
            if u < 0.30: aa = ref.upper()
            elif u < 0.55: aa = alt.upper()
            elif u < 0.65: aa = [b for b in BASES if b not in (ref.upper(), alt.upper())][0]     # mismatching
            elif u < 0.75: aa = None                                   # no AA field at all
            elif u < 0.80: aa = '.'
            elif u < 0.84: aa = 'N'
            elif u < 0.88: aa = '-'
            elif u < 0.92: aa = str(rng.choice(['AT', 'acg', '', '?', 'A,C', '|A', 'NA']))
            else: aa = alt.upper() + str(rng.choice(['|||', '|A|C|.', '|insertion', '|', '||' + ref.upper()]))
            if aa is not None and rng.random() < 0.2: aa = aa.lower()
            aakey = 'AA' if rng.random() < 0.7 else str(rng.choice(['AA_ensembl', 'AA_chimp']))
        else:
            aa = ref if rng.random() < 0.5 else alt
            if rng.random() < 0.3: aa = aa.lower() if rng.random() < 0.5 else aa + '|||'
            if rng.random() < 0.3: aakey = str(rng.choice(['AA_ensembl', 'AA_chimp']))
        info = gen_info(rng, aakey, aa, ref, alt, full)
        q = float(rng.choice([0.05, 0.2, 0.5, 0.8, 0.97, 0.0, 1.0])) if not full else float(rng.choice([0.1, 0.3, 0.5, 0.8, 0.0, 1.0]))
        miss = miss_base if rng.random() < 0.8 else float(rng.choice([0.0, 0.7, 1.0]))
        if full: miss = 0.0
        gts = []
        for (name, pop) in samples:
            if rng.random() < miss:
                # no call at all, or a HALF call with the missing allele in either position (`./1`, `0/.`): such an individual is
                # not completely genotyped (it cannot be drawn when sub-sampling) although one of its chromosomes is called
                u = rng.random(); x = int(rng.random() < q)
                al = [9, 9] if u < 0.7 else [9, x] if u < 0.85 else [x, 9]
            else:
                al = [int(rng.random() < q), int(rng.random() < q)]
            gts.append(al)
        sites.append(dict(chrom=chrom, pos=pos, ref=ref, alt=alt, filt=flt, aa=aa, aakey=aakey, info=info, gts=gts,
                          nodata=[False] * len(samples), dpstyle=None))
    if not full and kind in ('vcf', 'dp'):
        # deterministic block: non-SNP lines of every kind, fully called, PASS, AA = first base of REF, own positions:
        # were one of them to enter the dictionary it would be a usable SNP and the total would exceed the number of SNP lines
        for k, (r, a) in enumerate(nonsnp_lines()):
            q = 0.5
            gts = [[int(rng.random() < q), int(rng.random() < q)] for _ in samples]
            r1 = r if rng.random() < 0.85 else r.lower()
            a1 = a if rng.random() < 0.85 else a.lower()
            sites.append(dict(chrom=chroms[k % nchr], pos=span + 1 + k, ref=r1, alt=a1, filt='PASS' if k % 3 else '.', aa=r.upper()[:1] if r[:1].upper() in BASES else 'A',
                              aakey='AA', gts=gts, nodata=[False] * len(samples), dpstyle=None, nonsnp=True))
            sites[-1]['info'] = ['AA=%s' % sites[-1]['aa']]
    if not full and rng.random() < 0.35 and len(sites) > 2:              # a duplicated CHROM_POS (later line replaces)
        k = int(rng.integers(1, 3))
        for _ in range(k):
            a, b = [int(x) for x in rng.choice(L, size=2, replace=False)]
            sites[b]['chrom'] = sites[a]['chrom']; sites[b]['pos'] = sites[a]['pos']
    if rng.random() < 0.7:
        sites.sort(key=lambda s: (chroms.index(s['chrom']), s['pos']))
    ds = dict(kind=kind, pops=pops, ndip=nd, samples=samples, sites=sites, fmt=fmt, sep=sep, full=full,
              popinfo_style=int(rng.integers(0, 6)), span=span,
              popinfo_order=[int(i) for i in rng.permutation(len(samples))] if rng.random() < 0.5 else None)
    ds['params'] = gen_params(rng, ds, tier)
    return ds

def gen_params(rng, ds, tier):
    P = len(ds['pops'])
    configs = []
    ncfg = 2 if tier == 'quick' else 3
    for c in range(ncfg):
        k = int(rng.integers(1, P + 1))
        sel = [int(x) for x in rng.choice(P, size=k, replace=False)]
        if c == 0:                                                     # all populations; half of the time NOT in the order of `pops`
            sel = [int(x) for x in rng.permutation(P)] if (P > 1 and rng.random() < 0.5) else list(range(P))
        cap = 2500 if tier == 'quick' else 9000
        while True:
            proj = []
            for p in sel:
                n = 2 * ds['ndip'][p]
                u = rng.random()
                proj.append(n if u < 0.3 else int(rng.integers(1, n + 1)) if u < 0.9 else int(rng.choice([1, 2, n - 1])))
            if int(np.prod([x + 1 for x in proj])) <= cap:
                break
        if ds['full']:
            proj = [2 * ds['ndip'][p] for p in sel]
            if int(np.prod([x + 1 for x in proj])) > cap:
                sel = sel[:1]; proj = proj[:1]
        configs.append(dict(sel=sel, proj=proj, polarized=bool(rng.random() < 0.6), mask_corners=bool(rng.random() < 0.6)))
    span = ds['span']
    cands = [c for c in [1, 2, 7, max(1, span // 17), max(1, span // 7), max(1, span // 2), span, 3 * span] if span // c <= 60]
    chunk = int(rng.choice(cands))
    sub = {}
    for p in range(P):
        if rng.random() < 0.85 or not sub:
            sub[ds['pops'][p]] = int(rng.integers(1, ds['ndip'][p] + 1))
    # a dictionary argument has an order of its own (insertion order): written as a list of pairs so that replays keep it
    sub_items = [[k, sub[k]] for k in sub]
    if len(sub_items) > 1 and rng.random() < 0.7:
        sub_items = [sub_items[int(i)] for i in rng.permutation(len(sub_items))]
    return dict(filter=bool(rng.random() < 0.75), configs=configs, chunk_size=chunk, nboot=int(rng.integers(1, 4)),
                bootseed=int(rng.integers(1 << 30)), subsample=sub_items, subseed=int(rng.integers(1 << 30)),
                pipeline=gen_pipeline(rng, ds, tier, cands))

def lines_with_enough(ds, filt, sub):
    """number of distinct CHROM_POS with a SNP line on which every population of `sub` has at least sub[pop] complete genotypes"""
    keys = set()
    for s in ds['sites']:
        r, a = s['ref'].upper(), s['alt'].upper()
        if not (len(r) == 1 and len(a) == 1 and r in BASES and a in BASES) or (filt and s['filt'] not in ('PASS', '.')): continue
        n = {p: 0 for p in sub}
        for (nm, p), al, nod in zip(ds['samples'], s['gts'], s['nodata']):
            if p in n and 9 not in al and not nod: n[p] += 1
        if all(n[p] >= sub[p] for p in sub): keys.add((s['chrom'], s['pos']))
    return len(keys)

def gen_pipeline(rng, ds, tier, chunk_cands):
    """one call of the composed entry point Misc.bootstraps_subsample_vcf: `subsample` (a dictionary, insertion order its own),
    `pop_ids` (a list, order its own, possibly fewer populations than `subsample`), unequal sizes wherever the data allow"""
    P = len(ds['pops']); pops = ds['pops']; nd = ds['ndip']
    cap = 1200 if tier == 'quick' else 4000
    keys = list(range(P))
    if P > 1 and rng.random() < 0.15:
        keys.remove(int(rng.integers(P)))                                   # a population of the popinfo file that is not sub-sampled at all
    ids = [keys[int(i)] for i in rng.permutation(len(keys))]
    if len(ids) > 1 and rng.random() < 0.25:
        ids = ids[:-1]                                                       # the dictionary may hold more populations than are asked for
    while True:
        u = rng.random()
        size = {p: (nd[p] if u < 0.2 else int(rng.integers(1, nd[p] + 1))) for p in keys}
        if len(ids) > 1 and len(set(size[p] for p in ids)) == 1 and rng.random() < 0.85:
            q = ids[int(rng.integers(len(ids)))]
            alt = [k for k in range(1, nd[q] + 1) if k != size[q]]
            if alt: size[q] = int(rng.choice(alt))
        if int(np.prod([2 * size[p] + 1 for p in ids])) <= cap: break
    filt = bool(rng.random() < 0.7)
    # mostly requests that leave at least one line with enough complete genotypes (an empty dictionary has nothing to resample)
    while lines_with_enough(ds, filt, {pops[p]: size[p] for p in keys}) == 0 and max(size.values()) > 1 and rng.random() < 0.9:
        q = max(size, key=lambda p: size[p]); size[q] = max(1, size[q] // 2)
    order = list(keys)
    if len(order) > 1:
        order = [order[int(i)] for i in rng.permutation(len(order))]
        if rng.random() < 0.7:
            # written in another order than `pop_ids` (for two populations: the opposite one)
            for _ in range(8):
                if [p for p in order if p in ids] != ids: break
                order = [order[int(i)] for i in rng.permutation(len(order))]
    return dict(subsample=[[pops[p], size[p]] for p in order], pop_ids=[pops[p] for p in ids],
                nboot=int(rng.integers(1, 3)), chunk_size=int(rng.choice(chunk_cands)), filter=filt,
                mask_corners=bool(rng.random() < 0.4), polarized=bool(rng.random() < 0.7),
                subseed=int(rng.integers(1 << 30)), bootseed=int(rng.integers(1 << 30)))

# ------------------------------------------------------------------------------------------------ rendering
def gt_text(al, sep):
    return sep.join('.' if a == 9 else str(a) for a in al)

def sample_text(ds, site, k):
    sep = ds['sep']
    if sep == 'mixed': sep = '/|'[(site['pos'] + 3 * k) % 2]
    gt = gt_text(site['gts'][k], sep)
    fmt = ds['fmt'].split(':')
    if ds.get('trim') and fmt[0] == 'GT' and all(a == 9 for a in site['gts'][k]):
        return gt                                                            # VCF: trailing fields of a sample may be dropped ("./." for GT:AD:DP)
    nod = site['nodata'][k]
    style = site.get('dpstyle')
    out = []
    for f in fmt:
        if f == 'GT': out.append(gt)
        elif f == 'DP': out.append(('0' if style != 'dot' else '.') if nod else '12')
        elif f == 'AD': out.append('0,0' if nod else '7,5')
        elif f == 'GQ': out.append('0' if k % 5 == 0 else '30')             # a 0 / '.' in a field that is not the depth means nothing
        elif f == 'PL': out.append('.' if k % 4 == 0 else '0,10,100')
        else: out.append('.')
    return ':'.join(out)

def render_vcf(ds, d):
    vcf = os.path.join(d, 'data.vcf'); pop = os.path.join(d, 'popinfo.txt')
    with open(vcf, 'w') as f:
        f.write('##fileformat=VCFv4.2\n##INFO=<ID=AA,Number=1,Type=String,Description="Ancestral Allele">\n')
        f.write('#CHROM\tPOS\tID\tREF\tALT\tQUAL\tFILTER\tINFO\tFORMAT\t' + '\t'.join(s[0] for s in ds['samples']) + '\n')
        for s in ds['sites']:
            f.write('\t'.join([s['chrom'], str(s['pos']), '.', s['ref'], s['alt'], '50', s['filt'], info_text(s), ds['fmt']]
                              + [sample_text(ds, s, k) for k in range(len(ds['samples']))]) + '\n')
    st = ds['popinfo_style']
    # styles: 0 plain, 1 comments + blank line, 2 header SAMPLE POP, 3 header `pop sample extra` (columns exchanged), 4 header in mixed
    # case with the columns further right (`Id Sample Sex Pop`), comment and blank lines between the rows, 5 plain with spaces,
    # more columns than needed and samples that are not in the VCF (of the same populations and of one that exists only here)
    with open(pop, 'w') as f:
        if st == 1: f.write('# a comment\n')
        if st == 2: f.write('SAMPLE\tPOP\n')
        if st == 3: f.write('pop sample extra\n')
        if st == 4: f.write('#sample pop  <- a comment, not the header\nId Sample Sex Pop\n')
        order = ds.get('popinfo_order') or range(len(ds['samples']))     # the popinfo file lists the samples in an order of their own
        rows = [ds['samples'][i] for i in order if ds['samples'][i][1] is not None]
        if st in (4, 5) and rows:
            ghosts = [['ghost_%d' % i, rows[(5 * i) % len(rows)][1]] for i in range(2)] + [['Sample', 'populations'], ['pop1', 'Pop.x']]
            rows = rows[:1] + ghosts[:2] + rows[1:] + ghosts[2:]
        for i, (name, p) in enumerate(rows):
            if st == 3: f.write('%s %s x\n' % (p, name))
            elif st == 4:
                f.write('%d %s F\t%s\n' % (i, name, p))
                if i % 3 == 1: f.write('# sample pop\n\n')
            elif st == 5: f.write('%s   %s  pop sample\n' % (name, p) if i else '%s %s\n' % (name, p))
            else: f.write('%s\t%s\n' % (name, p))
        if st == 1: f.write('\n# trailing comment\n')
    return vcf, pop

# ------------------------------------------------------------------------------------------------ abstraction (matrix -> wire)
def info_key(field):
    """the key of an INFO field: the text before the first '=' (None for a flag)"""
    return field.split('=', 1)[0] if '=' in field else None

def aa_value(site):
    """the statement's 'outgroup allele' of a VCF line, from the INFO column as written: the value of the first field whose KEY is
    exactly AA (or one of the two outgroup-specific names AA_ensembl, AA_chimp), upper-cased, ensembl-style annotation after '|' cut
    off; None if the line has no such field.  Any other key -- whatever it starts with -- is not the ancestral allele."""
    for f in site_info(site):
        if info_key(f) in AA_KEYS:
            return f.split('=', 1)[1].upper().split('|')[0]
    return None

def decoy_layout(site):
    """(decoys before the ancestral-allele field, decoys after it, line has such a field): a decoy is a field that is not the
    ancestral allele but begins with 'AA' in any case / contains it"""
    fs = site_info(site)
    real = [i for i, f in enumerate(fs) if info_key(f) in AA_KEYS]
    dec = [i for i, f in enumerate(fs) if info_key(f) not in AA_KEYS and 'aa' in f.split('=', 1)[0].lower()]
    if not real: return (len(dec), 0, False)
    return (sum(1 for i in dec if i < real[0]), sum(1 for i in dec if i > real[0]), True)

def site_wire(ds, site, codes):
    pops = ds['pops']
    inds = []
    for (name, p), al, nod in zip(ds['samples'], site['gts'], site['nodata']):
        inds.append('%s:%s:%d' % ('-' if p is None else pops.index(p), ''.join(str(a) for a in al), 1 if nod else 0))
    aa = aa_value(site)
    return ','.join([str(codes.c(site['chrom'])), str(site['pos']), '1' if site['filt'] in ('PASS', '.') else '0',
                     str(allele_code(site['ref'].upper())), str(allele_code(site['alt'].upper())),
                     '-' if aa is None else str(allele_code(aa)), '+'.join(inds) if inds else '-'])

def sites_wire(ds, codes):
    return ';'.join(site_wire(ds, s, codes) for s in ds['sites']) if ds['sites'] else '-'

def snp_wire(e):
    """e = dict(chrom(code), pos, info(code), nseg, a1, a2, out (None or code), calls [(a,b)...])"""
    return ','.join([str(e['chrom']), str(e['pos']), str(e['info']), str(e['nseg']), str(e['a1']), str(e['a2']),
                     '-' if e['out'] is None else str(e['out']),
                     '+'.join('%d:%d' % c for c in e['calls']) if e['calls'] else '-'])

def snps_wire(es):
    return ';'.join(snp_wire(e) for e in es) if es else '-'

def parse_snps(s):
    if s == '-': return []
    out = []
    for t in s.split(';'):
        c, p, i, n, a1, a2, o, calls = t.split(',')
        out.append(dict(chrom=int(c), pos=int(p), info=int(i), nseg=int(n), a1=int(a1), a2=int(a2), out=None if o == '-' else int(o),
                        calls=[] if calls == '-' else [tuple(int(x) for x in u.split(':')) for u in calls.split('+')]))
    return out

def split_key(key):
    """the documented key format chromosome_position[.additional_info]"""
    chrom, rest = key.rsplit('_', 1)
    if '.' in rest:
        pos, info = rest.split('.', 1)
    else:
        pos, info = rest, None
    return chrom, int(pos), info

def entry_of_impl(key, v, pop_names, codes):
    chrom, pos, info = split_key(key)
    seg = v['segregating']
    return dict(chrom=codes.c(chrom), pos=pos, info=codes.i(info), nseg=len(seg),
                a1=allele_code(seg[0]) if len(seg) > 0 else 0, a2=allele_code(seg[1]) if len(seg) > 1 else 0,
                out=allele_code(v['outgroup_allele']) if 'outgroup_allele' in v else None,
                calls=[tuple(int(x) for x in v['calls'][p]) for p in pop_names])

def have_driver(ctx):
    d = ctx.get('driver')
    return d is not None and d.p is not None

def parse_nd_exact(s):
    sh, dat = s.split(':')
    shape = tuple(int(t) for t in sh.split('x')) if sh else ()
    vals = parse_list(dat)
    return shape, vals

def nd_float(s):
    shape, vals = parse_nd_exact(s)
    return np.array([float(v) for v in vals]).reshape(shape)

# ------------------------------------------------------------------------------------------------ direct oracle (L3), no Lean
def hyp(m, n, i, j):
    if n < m or j > i or i - j > n - m or j > m: return Fraction(0)
    return Fraction(math.comb(m, j) * math.comb(n - m, i - j), math.comb(n, i))

def oracle_entries_vcf(ds, filt, subsample_draws=None):
    """the SNPs the statement talks about, read off the matrix: list of dict(key, ref, alt, aa, counts{pop:(ref,alt)}).
    A later line with the same CHROM_POS replaces the earlier one (dictionary)."""
    out = {}
    for s in ds['sites']:
        if filt and s['filt'] not in ('PASS', '.'): continue
        ref, alt = s['ref'].upper(), s['alt'].upper()
        if ref not in BASES or alt not in BASES or len(ref) != 1 or len(alt) != 1: continue
        aa = aa_value(s)
        if aa is None or len(aa) != 1 or aa not in BASES: aa = '-'
        counts = {}
        for (name, p), al, nod in zip(ds['samples'], s['gts'], s['nodata']):
            if p is None: continue
            c = counts.setdefault(p, [0, 0])
            if nod: continue
            c[0] += al.count(0); c[1] += al.count(1)
        out['%s_%d' % (s['chrom'], s['pos'])] = dict(a1=ref, a2=alt, out=aa, counts={p: tuple(c) for p, c in counts.items()})
    return out

def oracle_spectrum(entries, pop_names, proj, polarized):
    """entries: iterable of dict(a1, a2, out, counts{pop:(c1,c2)}, nseg optional).  Returns (array of Fractions, n_usable)."""
    shape = tuple(p + 1 for p in proj)
    tot = np.zeros(shape, dtype=object); tot[...] = Fraction(0)
    usable = 0
    for e in entries:
        if e.get('nseg', 2) != 2: continue
        og = e.get('out', None)
        pol = og is not None and og != '-' and og in (e['a1'], e['a2'])
        if polarized and not pol: continue
        if pol:
            der = 1 if e['a1'] == og else 0          # index of the derived allele's count
        else:
            der = 1                                  # unpolarised: the second allele is counted, the result is folded
        called = [sum(e['counts'][p]) for p in pop_names]
        if any(n < m for n, m in zip(called, proj)): continue
        usable += 1
        hits = [e['counts'][p][der] for p in pop_names]
        rows = [[hyp(m, n, i, j) for j in range(m + 1)] for m, n, i in zip(proj, called, hits)]
        for idx in itertools.product(*[range(m + 1) for m in proj]):
            w = Fraction(1)
            for r, j in zip(rows, idx):
                w *= r[j]
                if w == 0: break
            if w: tot[idx] += w
    if not polarized:
        T = sum(proj); fo = np.zeros(shape, dtype=object); fo[...] = Fraction(0)
        for idx in itertools.product(*[range(m + 1) for m in proj]):
            t = sum(idx); mir = tuple(m - j for m, j in zip(proj, idx))
            if 2 * t < T: fo[idx] = tot[idx] + tot[mir]
            elif 2 * t == T: fo[idx] = (tot[idx] + tot[mir]) / 2
        tot = fo
    return tot, usable

def unmasked_close(impl_fs, ref, rtol=RTOL):
    """compare the unmasked entries of a Spectrum with an exact array"""
    data = np.asarray(impl_fs.data, dtype=float); mask = np.asarray(np.ma.getmaskarray(impl_fs))
    reff = np.array([float(x) for x in np.asarray(ref, dtype=object).ravel()]).reshape(data.shape)
    if not np.all(np.isfinite(data[~mask])): return False, float('inf'), 0.0
    scale = float(np.max(np.abs(reff))) if reff.size else 0.0
    err = float(np.max(np.abs(data - reff)[~mask])) if np.any(~mask) else 0.0
    return err <= rtol * max(scale, 1e-300) + 1e-300, err, scale

def expected_mask(proj, polarized, mc):
    shape = tuple(p + 1 for p in proj); T = sum(proj)
    m = np.zeros(shape, dtype=bool)
    for idx in itertools.product(*[range(s) for s in shape]):
        corner = all(j == 0 for j in idx) or all(j == p for j, p in zip(idx, proj))
        # Spectrum.fold() builds its result with the constructor's default mask_corners=True: a folded spectrum always has masked corners
        m[idx] = (mc and corner) or ((not polarized) and (sum(idx) > T // 2 or corner))
    return m

# ---- statistics from columns (complete data)
def stats_direct(cols, n):
    """cols: list of 0/1 lists of length n (1 = derived).  S, pi, Watterson, theta_L, Tajima's argument of sqrt and numerator"""
    S = sum(1 for c in cols if 0 < sum(c) < n)
    pairs = n * (n - 1) // 2
    diff = 0
    for c in cols:
        for a, b in itertools.combinations(c, 2):
            diff += (a != b)
    pi = Fraction(diff, pairs)
    a1 = sum(Fraction(1, k) for k in range(1, n)); a2 = sum(Fraction(1, k * k) for k in range(1, n))
    W = Fraction(S) / a1
    tl = Fraction(sum(sum(c) for c in cols if 0 < sum(c) < n), n - 1)
    b1 = Fraction(n + 1, 3 * (n - 1)); b2 = Fraction(2 * (n * n + n + 3), 9 * n * (n - 1))
    c1 = b1 - 1 / a1; c2 = b2 - Fraction(n + 2, 1) / (a1 * n) + a2 / a1 ** 2
    e1 = c1 / a1; e2 = c2 / (a1 ** 2 + a2)
    var = e1 * S + e2 * S * (S - 1)
    return dict(S=Fraction(S), pi=pi, W=W, thetaL=tl, var=var)

def fst_direct(mcols, ns):
    """Weir & Cockerham (1984) eqs 2-4 per SNP with the random-mating closure b = 0 (no heterozygote counts), ratio of sums.
    mcols: per SNP, per population a 0/1 list; ns: chromosomes per population"""
    r = len(ns); nbar = Fraction(sum(ns), r)
    nc = (Fraction(sum(ns)) - Fraction(sum(n * n for n in ns), sum(ns))) / (r - 1)
    A = Fraction(0); BC = Fraction(0)
    for cols in mcols:
        p = [Fraction(sum(c), n) for c, n in zip(cols, ns)]
        pbar = sum(n * x for n, x in zip(ns, p)) / sum(ns)
        s2 = sum(n * (x - pbar) ** 2 for n, x in zip(ns, p)) / ((r - 1) * nbar)
        X = pbar * (1 - pbar) - Fraction(r - 1, r) * s2
        hbar = 4 * nbar / (2 * nbar - 1) * X                               # from b = 0 (eq. 3)
        a = nbar / nc * (s2 - (X - hbar / 4) / (nbar - 1))                  # eq. 2
        c = hbar / 2                                                        # eq. 4
        A += a; BC += c
    return A, BC


# ------------------------------------------------------------------------------------------------ statistics do not touch the spectrum
# every method of Spectrum that computes a statistic ...
STATS_1D = ('S', 'Watterson_theta', 'theta_L', 'pi', 'Tajima_D', 'Zengs_E')
STATS_ND = ('S', 'Fst')
# ... or another quantity derived from it (the result is a new object / a number; the receiver must stay as it was)
DERIVED = ('sample_sizes', 'Npop', 'fold', 'project', 'marginalize')

def fs_state(fs):
    """everything a Spectrum consists of: data, mask, folded flag, labels, shape"""
    return dict(shape=tuple(fs.shape), data=np.array(np.asarray(fs.data), dtype=float, copy=True),
                mask=np.array(np.ma.getmaskarray(fs), copy=True), folded=bool(fs.folded),
                pop_ids=None if fs.pop_ids is None else [str(x) for x in fs.pop_ids])

def state_diff(a, b):
    out = []
    if a['shape'] != b['shape']: return ['shape']
    if not np.array_equal(a['data'], b['data'], equal_nan=True): out.append('data')
    if not np.array_equal(a['mask'], b['mask']): out.append('mask')
    if a['folded'] != b['folded']: out.append('folded')
    if a['pop_ids'] != b['pop_ids']: out.append('pop_ids')
    return out

def restore_state(fs, st):
    try:
        fs.data[...] = st['data']; fs.mask = st['mask'].copy(); fs.folded = st['folded']; fs.pop_ids = st['pop_ids']
    except Exception:
        pass

def call_quiet(fs, name):
    """call a statistic / derived-quantity method; (value or None, name of the exception or None)"""
    try:
        with np.errstate(all='ignore'), warnings.catch_warnings():
            warnings.simplefilter('ignore')
            if name in ('sample_sizes', 'Npop'): v = getattr(fs, name)
            elif name == 'project': v = fs.project([max(int(n) - 1, 1) for n in fs.sample_sizes])
            elif name == 'marginalize': v = fs.marginalize([0])
            else: v = getattr(fs, name)()
        return v, None
    except Exception as e:
        return None, type(e).__name__

def stat_methods(fs):
    return STATS_1D if fs.ndim == 1 else STATS_ND

def stat_values(fs):
    """the statistics of a spectrum as floats (nan where undefined / raising); calls every statistic method on `fs` itself"""
    out = {}
    for m in stat_methods(fs):
        v, exc = call_quiet(fs, m)
        try:
            out[m] = float('nan') if (exc is not None or v is np.ma.masked) else float(v)
        except Exception:
            out[m] = float('nan')
    return out

def values_agree(a, b, rtol=1e-8):
    bad = []
    sc = max([abs(v) for v in list(a.values()) + list(b.values()) if math.isfinite(v)] + [1.0])
    for k in a:
        x, y = a[k], b[k]
        if math.isfinite(x) != math.isfinite(y) or (math.isfinite(x) and abs(x - y) > rtol * sc): bad.append(k)
    return bad

def corner_state(fs):
    """(corner entries hold SNPs, corner entries masked) -- what makes a purity case non-trivial"""
    d = np.asarray(fs.data); m = np.ma.getmaskarray(fs)
    return bool(d.flat[0] != 0 or d.flat[-1] != 0), bool(m.flat[0] and m.flat[-1])

def check_pure(chk, ds, fs, at, tag, derived=True):
    """the clause behind every multi-step use of a spectrum: computing a statistic (or another derived quantity) on a spectrum
    leaves that spectrum -- data, mask, folded flag, labels -- exactly as it was.  Called on the SAME object whose total /
    entries / chunk sums are (re-)checked afterwards."""
    meths = list(stat_methods(fs))
    if derived:
        meths += [m for m in DERIVED if not (m == 'fold' and fs.folded) and not (m in ('project',) and fs.folded)
                  and not (m == 'marginalize' and fs.ndim < 2)]
    populated, masked = corner_state(fs)
    chk.stat('pure:corners=%s,%s' % ('populated' if populated else 'empty', 'masked' if masked else 'unmasked'))
    for m in meths:
        st0 = fs_state(fs)
        v, exc = call_quiet(fs, m)
        chk.l3(('pure', tag, m, fs.ndim, st0['folded'], populated, masked, exc is None))
        d = state_diff(st0, fs_state(fs))
        if d:
            what = []
            if 'mask' in d:
                st1 = fs_state(fs)
                ch = np.argwhere(st0['mask'] != st1['mask'])
                what.append('mask changed at %s' % [tuple(int(x) for x in c) for c in ch[:4]])
            if 'data' in d: what.append('data changed')
            what += [x for x in d if x not in ('mask', 'data')]
            chk.fail('statistics:mutates:%s:%s' % (m, '+'.join(d)),
                     'calling %s on a spectrum (shape %s, folded=%s, corners %s and %s) changed the spectrum itself: %s; its total, entries and sums with other spectra are no longer those of the data'
                     % (m, st0['shape'], st0['folded'], 'populated' if populated else 'empty', 'masked' if masked else 'unmasked', '; '.join(what)),
                     dict(kind=ds['kind'], dataset=ds, at=dict(at, method=m, stage_pure=tag)))
            restore_state(fs, st0)               # so that the next method is judged on its own

def masked_total(fs):
    s = fs.sum()
    return 0.0 if s is np.ma.masked else float(s)

def ref_total(ref, mask):
    """exact sum of the oracle's entries that the mask leaves visible"""
    tot = Fraction(0)
    for x, m in zip(np.asarray(ref, dtype=object).ravel(), np.asarray(mask).ravel()):
        if not m: tot += x
    return tot

# ------------------------------------------------------------------------------------------------ the checks on one dataset
def small(ds):
    return ds

def kbad(chk, op, ds, impl, model, err=None, extra=None):
    inp = dict(kind=ds['kind'], dataset=ds, at=extra)
    chk.k_bad(op, inp, impl, model, err)

def ask(ctx, line):
    return ctx['driver'].ask(line)

def cmp_spec_model(chk, ctx, ds, op, fs, out, extra):
    """fs: impl Spectrum; out: driver answer 'ok data mask …'"""
    if not out.startswith('ok '):
        kbad(chk, op, ds, 'spectrum', out, None, extra); return None
    toks = out[3:].split(' ')
    mdata = nd_float(toks[0]); mmask = nd_float(toks[1]).astype(bool)
    idata = np.asarray(fs.data, dtype=float); imask = np.asarray(np.ma.getmaskarray(fs))
    if idata.shape != mdata.shape or not np.array_equal(imask, mmask):
        kbad(chk, op, ds, dict(shape=idata.shape, mask=imask), dict(shape=mdata.shape, mask=mmask), None, extra); return toks
    scale = float(np.max(np.abs(mdata))) if mdata.size else 0.0
    vis = ~imask
    if not np.all(np.isfinite(idata[vis])):
        kbad(chk, op, ds, idata, mdata, float('inf'), extra); return toks
    err = float(np.max(np.abs(idata - mdata)[vis])) if np.any(vis) else 0.0
    if err <= RTOL * scale + 1e-300: chk.k_ok(op)
    else: kbad(chk, op, ds, idata, mdata, err, extra)
    return toks

def scalar_close(a, b, rtol=RTOL, scale=None):
    a = float(a); b = float(b)
    if not math.isfinite(a): return False
    s = max(abs(b), scale or 0.0)
    return abs(a - b) <= rtol * s + 1e-300

def check_stats(chk, ctx, ds, fs, snps_w, pol, proj, cfgtag):
    """K for the statistics on whatever spectrum came out (projected, folded, masked corners or not)"""
    dadi = ctx['dadi']
    if len(proj) == 1:
        n = proj[0]
        if n < 2: return
        try:
            vals = dict(S=float(fs.S()), pi=float(fs.pi()), W=float(fs.Watterson_theta()), thetaL=float(fs.theta_L()))
        except Exception as e:
            chk.fail('stats:raises:%s' % type(e).__name__, 'S/pi/Watterson_theta/theta_L raise %r' % (e,), dict(kind=ds['kind'], dataset=ds, at=cfgtag)); return
        if have_driver(ctx):
            out = ask(ctx, 'stats1 %d %d %s' % (pol, n, snps_w))
            if not out.startswith('ok '):
                kbad(chk, 'stats1', ds, vals, out, None, cfgtag); return
            mS, mpi, mW, mtl, mvar = [Fraction(t) for t in out[3:].split(' ')]
            sc = max(float(mS), 1.0)
            ok = (scalar_close(vals['S'], mS, scale=sc) and scalar_close(vals['pi'], mpi, scale=sc) and
                  scalar_close(vals['W'], mW, scale=sc) and scalar_close(vals['thetaL'], mtl, scale=sc))
            if ok: chk.k_ok('stats1')
            else: kbad(chk, 'stats1', ds, vals, dict(S=mS, pi=mpi, W=mW, thetaL=mtl), None, cfgtag)
            # Tajima's D: sqrt is a parameter, supplied by the harness
            if mvar > 0 and float(mvar) > 1e-9 * sc:
                sq = math.sqrt(float(mvar))
                try:
                    D = float(fs.Tajima_D())
                except Exception as e:
                    chk.fail('Tajima_D:raises:%s' % type(e).__name__, 'Tajima_D raises %r' % (e,), dict(kind=ds['kind'], dataset=ds, at=cfgtag)); return
                out = ask(ctx, 'tajima %s %d %d %s' % (rat(sq), pol, n, snps_w))
                mD = Fraction(out[3:]) if out.startswith('ok ') else None
                if mD is not None and scalar_close(D, mD, rtol=1e-8, scale=abs(float(mpi) + float(mW)) / sq): chk.k_ok('tajima')
                else: kbad(chk, 'tajima', ds, D, mD, None, cfgtag)
            else:
                chk.k_skipped += 1
    else:
        try:
            with np.errstate(all='ignore'):
                F = float(fs.Fst())
        except Exception as e:
            chk.fail('Fst:raises:%s' % type(e).__name__, 'Fst raises %r' % (e,), dict(kind=ds['kind'], dataset=ds, at=cfgtag)); return
        if have_driver(ctx):
            out = ask(ctx, 'fst %d %s %s' % (pol, ','.join(map(str, proj)), snps_w))
            if not out.startswith('ok '):
                kbad(chk, 'fst', ds, F, out, None, cfgtag); return
            ma, md, mf = [Fraction(t) for t in out[3:].split(' ')]
            if ma + md == 0 or abs(float(ma + md)) < 1e-9 * (abs(float(ma)) + abs(float(md)) + 1e-300):
                chk.k_skipped += 1
            elif scalar_close(F, mf, rtol=1e-8, scale=1.0): chk.k_ok('fst')
            else: kbad(chk, 'fst', ds, F, mf, None, cfgtag)

def spectrum_clauses(chk, fs, fs_nomask, ref, usable, names, proj, pol, mc, tag, inp, phase):
    """the clauses of the statement about one spectrum, evaluated on the two objects `fs` (corners masked as the configuration
    asks) and `fs_nomask` (mask_corners=False).  phase '' = freshly built, ':after-statistics' = the same objects again after
    every statistic has been computed on them."""
    for obj, omc in ((fs, mc), (fs_nomask, False)):
        ok, err, scale = unmasked_close(obj, ref)
        if not ok:
            chk.fail('from_data_dict:%s:spectrum%s' % (tag, phase), 'spectrum (mask_corners=%s) differs from the sum of hypergeometric projections of the usable SNPs by %.3g (scale %.3g), polarized=%s' % (omc, err, scale, pol), inp)
        em = expected_mask(proj, pol, omc)
        if not np.array_equal(np.ma.getmaskarray(obj), em):
            chk.fail('from_data_dict:%s:mask%s' % (tag, phase), 'mask (mask_corners=%s) is not (corners if requested) + (folded-out half if unpolarised): entries %s differ'
                     % (omc, [tuple(int(x) for x in c) for c in np.argwhere(np.ma.getmaskarray(obj) != em)[:4]]), inp)
        if obj.folded != (not pol) or (obj.pop_ids is not None and list(obj.pop_ids) != names):
            chk.fail('from_data_dict:%s:flags%s' % (tag, phase), 'folded flag / pop_ids wrong: folded=%s pop_ids=%s' % (obj.folded, obj.pop_ids), inp)
        # the total the user sees (masked sum) = the exact total of the visible entries; with nothing masked = number of usable SNPs
        want = ref_total(ref, em)
        got = masked_total(obj)
        if abs(got - float(want)) > 1e-9 * max(usable, 1):
            chk.fail('from_data_dict:%s:visible-total%s' % (tag, phase), 'fs.sum() (mask_corners=%s, polarized=%s) is %.12g, the usable SNPs outside the entries that should be masked add up to %.12g (%d usable SNPs in all)'
                     % (omc, pol, got, float(want), usable), inp)
    tot = float(np.sum(fs_nomask.data))
    if abs(tot - usable) > 1e-9 * max(usable, 1):
        chk.fail('from_data_dict:%s:total%s' % (tag, phase), 'total %.12g != number of usable SNPs %d' % (tot, usable), inp)

def check_count_dict(chk, ctx, ds, dd, entries_oracle, names, tag, inp):
    """Misc.count_data_dict against direct counting: {(calls per population, derived calls per population, polarised): number of
    biallelic SNPs with that configuration}, the populations in the order of `pop_ids` (not of the dictionaries inside)"""
    M = ctx['dadi'].Misc
    try:
        cd = dict(M.count_data_dict(dd, list(names)))
    except Exception as e:
        chk.fail('count_data_dict:%s:raises:%s' % (tag, type(e).__name__), 'count_data_dict raises %r' % (e,), inp); return
    exp = {}
    for e in entries_oracle:
        if e.get('nseg', 2) != 2: continue
        og = e.get('out', None)
        polz = og is not None and og != '-' and og in (e['a1'], e['a2'])
        der = 1 if (not polz or e['a1'] == og) else 0
        k = (tuple(int(sum(e['counts'][p])) for p in names), tuple(int(e['counts'][p][der]) for p in names), polz)
        exp[k] = exp.get(k, 0) + 1
    got = {(tuple(int(x) for x in k[0]), tuple(int(x) for x in k[1]), bool(k[2])): int(v) for k, v in cd.items()}
    chk.l3((tag, 'count_data_dict', len(names), len(exp) > 1))
    if got != exp:
        diff = [k for k in set(got) | set(exp) if got.get(k) != exp.get(k)][:3]
        chk.fail('count_data_dict:%s:counts' % tag, 'count_data_dict(pop_ids=%r) is not the count of SNP configurations of the matrix: e.g. %s'
                 % (list(names), ['%r: %r, counted %r' % (k, got.get(k), exp.get(k)) for k in diff]), inp)

def check_spectra(chk, ctx, ds, dd, entries_oracle, model_entries, pop_names_all, tag):
    """from_data_dict for every configuration: K (spec) + L3 (oracle, total) + statistics, then the same clauses again on the
    same objects (statistics must not have changed them)"""
    dadi = ctx['dadi']
    for ci, cfg in enumerate(ds['params']['configs']):
        sel, proj, pol, mc = cfg['sel'], cfg['proj'], cfg['polarized'], cfg['mask_corners']
        names = [pop_names_all[p] for p in sel]
        at = dict(stage=tag, config=ci)
        inp = dict(kind=ds['kind'], dataset=ds, at=at)
        try:
            fs = dadi.Spectrum.from_data_dict(dd, names, proj, mask_corners=mc, polarized=pol)
            fs_nomask = dadi.Spectrum.from_data_dict(dd, names, proj, mask_corners=False, polarized=pol)
        except Exception as e:
            chk.fail('from_data_dict:%s:raises:%s' % (tag, type(e).__name__), 'from_data_dict raises %r' % (e,), inp); continue
        # ---- L3: direct counting
        check_count_dict(chk, ctx, ds, dd, entries_oracle, names, tag, inp)
        ref, usable = oracle_spectrum(entries_oracle, names, proj, pol)
        populated = bool(ref.flat[0] != 0 or ref.flat[-1] != 0)
        chk.l3((tag, len(sel), pol, mc, tuple(min(p, 3) for p in proj), usable > 0, usable < len(entries_oracle), populated))
        spectrum_clauses(chk, fs, fs_nomask, ref, usable, names, proj, pol, mc, tag, inp, '')
        chk.stat('cfg:npop=%d' % len(sel)); chk.stat('cfg:polarized=%s' % pol); chk.stat('cfg:usable=%s' % ('none' if usable == 0 else 'all' if usable == len(entries_oracle) else 'some'))
        chk.stat('cfg:corner-entries=%s' % ('populated' if populated else 'empty'))
        # ---- the statistics, on the very objects whose clauses were just evaluated: method by method (each must leave the object alone) ...
        check_pure(chk, ds, fs_nomask, at, tag + ':nomask'); check_pure(chk, ds, fs, at, tag)
        # ---- K
        if have_driver(ctx) and model_entries is not None:
            sub = [dict(e, calls=[e['calls'][p] for p in sel]) for e in model_entries]
            w = snps_wire(sub)
            out = ask(ctx, 'spec %d %d %s %s' % (pol, mc, ','.join(map(str, proj)), w))
            toks = cmp_spec_model(chk, ctx, ds, 'spec:' + tag, fs, out, at)
            if toks and len(toks) >= 4:
                if int(toks[2]) != usable or Fraction(toks[3]) != usable:
                    kbad(chk, 'spec:usable', ds, usable, toks[2:4], None, at)
            check_stats(chk, ctx, ds, fs, w, pol, proj, at)
        # ---- ... all of them in a row, with the values independent of whether the corner entries are masked ...
        va = stat_values(fs); vb = stat_values(fs_nomask)
        bad = values_agree(va, vb)
        if bad:
            chk.fail('stats:depend-on-corner-mask:%s' % '+'.join(bad), 'statistics of the same data differ between mask_corners=%s and mask_corners=False: %r vs %r' % (mc, va, vb), inp)
        check_mask_after_S(chk, ctx, ds, fs_nomask, proj, at); check_mask_after_S(chk, ctx, ds, fs, proj, at)
        # ---- ... and the clauses again
        spectrum_clauses(chk, fs, fs_nomask, ref, usable, names, proj, pol, mc, tag, inp, ':after-statistics')

def check_mask_after_S(chk, ctx, ds, fs, proj, at):
    """K for the state left behind by `S`: mask before -> mask after, implementation vs the generated statement list `sBody`
    run by the model's `sRun`"""
    if not have_driver(ctx): return
    before = np.array(np.ma.getmaskarray(fs), copy=True)
    call_quiet(fs, 'S')
    imask = np.asarray(np.ma.getmaskarray(fs))
    out = ask(ctx, 'sstate %s %s' % (','.join(map(str, proj)), common.fmt_nd(before.astype(int))))
    if out.startswith('ok '):
        mmask = nd_float(out[3:].strip()).astype(bool)
        if mmask.shape == imask.shape and np.array_equal(mmask, imask): chk.k_ok('sstate')
        else: kbad(chk, 'sstate', ds, imask, mmask, None, at)
    else:
        kbad(chk, 'sstate', ds, imask, out, None, at)

def impl_entries(dd, pop_names, codes):
    return [entry_of_impl(k, v, pop_names, codes) for k, v in dd.items()]

def entries_equal(a, b):
    return len(a) == len(b) and all(x == y for x, y in zip(a, b))

def oracle_list(dd_oracle, keys_in_impl_order=None):
    return list(dd_oracle.values())

def check_chunks(chk, ctx, ds, dd, model_entries, pop_names_all, codes, tag):
    dadi = ctx['dadi']; M = dadi.Misc
    size = ds['params']['chunk_size']
    cfg = ds['params']['configs'][0]
    sel, proj, pol, mc = cfg['sel'], cfg['proj'], cfg['polarized'], cfg['mask_corners']
    names = [pop_names_all[p] for p in sel]
    at = dict(stage=tag, chunk_size=size)
    inp = dict(kind=ds['kind'], dataset=ds, at=at)
    try:
        frags = M.fragment_data_dict(dd, size)
    except Exception as e:
        has_info = any(split_key(k)[2] is not None for k in dd)
        chk.fail('fragment_data_dict:%s:raises:%s' % ('add_info' if has_info else tag, type(e).__name__),
                 'fragment_data_dict(chunk_size=%d) raises %r' % (size, e), inp)
        return
    # ---- L3: partition, geometry, additivity
    chk.l3((tag, 'chunks', len(frags) > 1, size >= ds['span'], len(dd) > 0))
    allkeys = [k for f in frags for k in f]
    if sorted(allkeys) != sorted(dd.keys()) or len(set(allkeys)) != len(allkeys):
        chk.fail('fragment_data_dict:%s:partition' % tag, 'chunks do not partition the keys (%d keys in chunks, %d in the dictionary)' % (len(allkeys), len(dd)), inp)
    for f in frags:
        if any(f[k] is not dd[k] and f[k] != dd[k] for k in f):
            chk.fail('fragment_data_dict:%s:values' % tag, 'a chunk holds a different value than the dictionary', inp); break
        ck = [split_key(k) for k in f]
        if len(set(c[0] for c in ck)) > 1:
            chk.fail('fragment_data_dict:%s:chromosomes' % tag, 'a chunk mixes chromosomes', inp); break
        ps = [max(c[1], 1) for c in ck]                 # position 0 (unnamed SNPs of a SNP file) belongs to the first chunk
        if ps and max(ps) - min(ps) >= size:
            chk.fail('fragment_data_dict:%s:span' % tag, 'a chunk spans %d bp >= chunk_size %d' % (max(ps) - min(ps) + 1, size), inp); break
    try:
        whole = dadi.Spectrum.from_data_dict(dd, names, proj, mask_corners=False, polarized=pol)
        parts = [dadi.Spectrum.from_data_dict(f, names, proj, mask_corners=False, polarized=pol) for f in frags]
    except Exception as e:
        chk.fail('from_data_dict:%s:chunk-raises:%s' % (tag, type(e).__name__), 'from_data_dict on a chunk raises %r' % (e,), inp); return
    ssum = np.sum([np.asarray(p.data) for p in parts], axis=0) if parts else np.zeros_like(whole.data)
    ok, err, scale = close(ssum, np.asarray(whole.data), rtol=RTOL)
    if not ok:
        chk.fail('fragment_data_dict:%s:additive' % tag, 'chunk spectra do not add up to the whole (err %.3g, scale %.3g)' % (err, scale), inp)
    # the same clause the way a user evaluates it (spectra added as spectra, totals by .sum()), before and after statistics have been
    # computed on every chunk spectrum and on the whole -- on the same objects
    em = expected_mask(proj, pol, False)
    chunk_totals = [float(np.sum(np.asarray(p.data)[~em])) for p in parts]
    whole_total = float(np.sum(np.asarray(whole.data)[~em]))
    for phase in ('', ':after-statistics'):
        if phase:
            for i, p in enumerate(parts + [whole]):
                if i < 2 or i == len(parts): check_pure(chk, ds, p, at, tag + ':chunk', derived=False)
                else: stat_values(p)
        chk.l3((tag, 'chunk-sum', phase, len(parts) > 1, pol, bool(whole.data.flat[0] != 0 or whole.data.flat[-1] != 0)))
        scale = max(whole_total, 1.0)
        got = [masked_total(p) for p in parts]
        if any(abs(a - b) > 1e-9 * scale for a, b in zip(got, chunk_totals)):
            k = [i for i, (a, b) in enumerate(zip(got, chunk_totals)) if abs(a - b) > 1e-9 * scale][0]
            chk.fail('fragment_data_dict:%s:chunk-total%s' % (tag, phase), 'chunk %d of %d: .sum() of its spectrum (mask_corners=False, polarized=%s) is %.12g, its SNPs contribute %.12g'
                     % (k, len(parts), pol, got[k], chunk_totals[k]), inp)
        if abs(masked_total(whole) - whole_total) > 1e-9 * scale or abs(sum(got) - masked_total(whole)) > 1e-9 * scale:
            chk.fail('fragment_data_dict:%s:totals-additive%s' % (tag, phase), 'chunk totals add up to %.12g, the whole data set gives %.12g (expected %.12g)' % (sum(got), masked_total(whole), whole_total), inp)
        if parts:
            try:
                added = functools.reduce(operator.add, parts)
            except Exception as e:
                chk.fail('fragment_data_dict:%s:add-raises:%s%s' % (tag, type(e).__name__, phase), 'adding the chunk spectra raises %r' % (e,), inp); continue
            am = np.asarray(np.ma.getmaskarray(added)); wm = np.asarray(np.ma.getmaskarray(whole))
            okk, e, sc = close(np.asarray(added.data)[~em], np.asarray(whole.data)[~em], rtol=RTOL)
            if not np.array_equal(am, em) or not np.array_equal(wm, em) or not okk:
                chk.fail('fragment_data_dict:%s:sum-of-spectra%s' % (tag, phase), 'the sum of the chunk spectra is not the spectrum of the whole: masks differ from the expected one at %s (sum) / %s (whole), visible entries differ by %.3g'
                         % ([tuple(int(x) for x in c) for c in np.argwhere(am != em)[:4]], [tuple(int(x) for x in c) for c in np.argwhere(wm != em)[:4]], e), inp)
    chk.stat('chunks:n=%s' % ('1' if len(frags) == 1 else '2-5' if len(frags) <= 5 else '6+'))
    # ---- K: chunk membership and order, chunk spectra
    sub = None
    if have_driver(ctx) and model_entries is not None:
        sub = [dict(e, calls=[e['calls'][p] for p in sel]) for e in model_entries]
        w = snps_wire(sub)
        out = ask(ctx, 'frag %d %s' % (size, w))
        impl_ch = [sorted((codes.c(split_key(k)[0]), split_key(k)[1], codes.i(split_key(k)[2])) for k in f) for f in frags]
        if out.startswith('ok '):
            body = out[3:].strip()
            model_ch = [sorted(tuple(int(x) for x in t.split(':')) for t in c.split(',')) if c != '-' else [] for c in body.split('|')] if body else []
            if model_ch == impl_ch: chk.k_ok('frag')
            else: kbad(chk, 'frag', ds, impl_ch, model_ch, None, at)
        else:
            kbad(chk, 'frag', ds, impl_ch, out, None, at)
        if 0 < len(frags) <= 40:
            out = ask(ctx, 'fragspec %d %d %s %s' % (size, pol, ','.join(map(str, proj)), w))
            if out.startswith('ok '):
                mparts = [nd_float(t) for t in out[3:].split('|')]
                good = len(mparts) == len(parts)
                worst = 0.0
                if good:
                    for a, b in zip(parts, mparts):
                        okk, e, sc = close(np.asarray(a.data), b, rtol=RTOL)
                        worst = max(worst, e)
                        good = good and okk
                if good: chk.k_ok('fragspec')
                else: kbad(chk, 'fragspec', ds, [np.asarray(p.data) for p in parts], mparts, worst, at)
            else:
                kbad(chk, 'fragspec', ds, 'spectra', out, None, at)
    # ---- bootstraps with the choices recorded (an empty dictionary has no chunks: nothing to resample)
    if not frags:
        return
    nboot = ds['params']['nboot']
    rec = []
    orig = M.random.choices
    def choices(population, weights=None, *, cum_weights=None, k=1):
        idx = orig(range(len(population)), k=k)
        rec.append([int(i) for i in idx])
        return [population[i] for i in idx]
    pyrandom.seed(ds['params']['bootseed'])
    M.random.choices = choices
    try:
        boots = M.bootstraps_from_dd_chunks(frags, nboot, names, proj, mask_corners=mc, polarized=pol)
    except Exception as e:
        chk.fail('bootstraps_from_dd_chunks:%s:raises:%s' % (tag, type(e).__name__), 'bootstraps_from_dd_chunks raises %r' % (e,), inp); return
    finally:
        M.random.choices = orig
    if len(boots) != nboot or len(rec) != nboot or any(len(r) != len(frags) for r in rec):
        chk.fail('bootstraps_from_dd_chunks:%s:count' % tag, '%d replicates / %d draws of sizes %s for %d chunks, Nboot=%d' % (len(boots), len(rec), [len(r) for r in rec], len(frags), nboot), inp); return
    pm = [dadi.Spectrum.from_data_dict(f, names, proj, mask_corners=mc, polarized=pol) for f in frags]
    usable_chunk = [float(np.sum(p.data)) for p in parts]
    for b, r in zip(boots, rec):
        chk.l3((tag, 'boot', len(set(r)) < len(r), len(frags) > 1))
        ref = np.sum([np.asarray(parts[i].data) for i in r], axis=0)
        vis = ~np.asarray(np.ma.getmaskarray(b))
        okk, e, sc = close(np.asarray(b.data)[vis], ref[vis], rtol=RTOL)
        if not okk or not np.array_equal(np.ma.getmaskarray(b), expected_mask(proj, pol, mc)) or b.folded != (not pol):
            chk.fail('bootstraps_from_dd_chunks:%s:sum' % tag, 'a bootstrap is not the sum of its chosen chunk spectra (err %.3g) / wrong mask or folded flag' % e,
                     dict(inp, choice=r)); break
        # ... and still is after statistics have been computed on it
        check_pure(chk, ds, b, dict(at, choice=r), tag + ':boot', derived=False)
        vis = ~np.asarray(np.ma.getmaskarray(b))
        okk, e, sc = close(np.asarray(b.data)[vis], ref[vis], rtol=RTOL)
        if not okk or not np.array_equal(np.ma.getmaskarray(b), expected_mask(proj, pol, mc)) or b.folded != (not pol):
            chk.fail('bootstraps_from_dd_chunks:%s:sum:after-statistics' % tag, 'after computing statistics on it a bootstrap is no longer the sum of its chosen chunk spectra (err %.3g) / wrong mask or folded flag' % e,
                     dict(inp, choice=r)); break
        if have_driver(ctx) and sub is not None:
            out = ask(ctx, 'boot %d %d %d %s %s %s' % (size, pol, mc, ','.join(map(str, proj)), ','.join(map(str, r)) if r else '-', snps_wire(sub)))
            cmp_spec_model(chk, ctx, ds, 'boot', b, out, dict(at, choice=r))

def check_subsample(chk, ctx, ds, vcf, pop, pop_names_all, codes):
    dadi = ctx['dadi']; M = dadi.Misc
    par = ds['params']; sub = as_dict(par['subsample']); filt = par['filter']
    at = dict(stage='subsample', subsample=par['subsample'])
    inp = dict(kind=ds['kind'], dataset=ds, at=at)
    rec = []
    orig = np.random.choice
    def choice(a, size=None, replace=True, p=None):
        r = orig(a, size, replace=replace)
        rec.append(([int(x) for x in a], int(size), bool(replace), [int(x) for x in np.atleast_1d(r)]))
        return r
    np.random.seed(par['subseed'] % (2 ** 32))
    np.random.choice = choice
    try:
        dd = M.make_data_dict_vcf(vcf, pop, subsample=dict(sub), filter=filt)
    except Exception as e:
        chk.fail('make_data_dict_vcf:subsample:raises:%s%s' % (type(e).__name__, ':trailing-fields-dropped' if ds.get('trim') else ''),
                 'make_data_dict_vcf(subsample=%r) raises %r%s' % (sub, e, ' (FORMAT %s, samples without a call written `./.`: the VCF specification allows trailing fields to be dropped)' % ds['fmt'] if ds.get('trim') else ''), inp); return
    finally:
        np.random.choice = orig
    # ---- L3: exactly the requested number of individuals, drawn without replacement among the complete ones
    names = [p for p in pop_names_all if p in sub]
    chk.l3(('subsample', len(names), len(dd) > 0, len(dd) < len(ds['sites'])))
    for a, size, repl, r in rec:
        if repl or len(r) != size or len(set(r)) != len(r) or any(x not in a for x in r):
            chk.fail('make_data_dict_vcf:subsample:draw', 'a draw is not %d distinct individuals out of the callable ones: %r from %r replace=%s' % (size, r, a, repl), inp); return
    exp_keys = {}
    for s in ds['sites']:
        if filt and s['filt'] not in ('PASS', '.'): continue
        ref, alt = s['ref'].upper(), s['alt'].upper()
        if ref not in BASES or alt not in BASES or len(ref) != 1 or len(alt) != 1: continue
        comp = {p: [] for p in names}
        for (nm, p), al, nod in zip(ds['samples'], s['gts'], s['nodata']):
            if p in comp and 9 not in al and not nod: comp[p].append(al)
        key = '%s_%d' % (s['chrom'], s['pos'])
        if all(len(comp[p]) >= sub[p] for p in names):
            exp_keys[key] = comp
        # a line that is dropped does NOT remove an earlier entry with the same key
    if set(dd.keys()) != set(exp_keys.keys()):
        chk.fail('make_data_dict_vcf:subsample:keys', 'SNPs kept under sub-sampling are not those with enough complete genotypes in every population (%d kept, %d expected)' % (len(dd), len(exp_keys)), inp)
    for k, v in dd.items():
        for p in names:
            c = v['calls'].get(p)
            if c is None or c[0] + c[1] != 2 * sub[p]:
                chk.fail('make_data_dict_vcf:subsample:count', 'SNP %s: population %s has calls %r, requested %d diploid individuals' % (k, p, c, sub[p]), inp); return
            if k in exp_keys:
                alts = sorted(al.count(1) for al in exp_keys[k][p])
                lo = sum(alts[:sub[p]]); hi = sum(alts[len(alts) - sub[p]:])
                if not (lo <= c[1] <= hi):
                    chk.fail('make_data_dict_vcf:subsample:range', 'SNP %s: %d ALT calls cannot come from %d of the complete genotypes' % (k, c[1], sub[p]), inp); return
    subsample_exact(chk, ds, filt, sub, rec, dd, inp, '')
    chk.stat('subsample:kept=%s' % ('none' if not dd else 'all' if len(dd) == len(ds['sites']) else 'some'))
    # ---- K: the model replays the recorded draws
    if have_driver(ctx):
        selidx = [pop_names_all.index(p) for p in names]
        want = '+'.join('%d:%d' % (pop_names_all.index(p), sub[p]) for p in sub if p in names)      # in the dictionary's own order
        draws = ';'.join(','.join(map(str, r[3])) if r[3] else '-' for r in rec) if rec else '-'
        out = ask(ctx, 'subsample %d %s %s %s %s' % (filt, want, draws, ','.join(map(str, selidx)), sites_wire(ds, codes)))
        impl_e = impl_entries(dd, names, codes)
        if out.startswith('ok '):
            body, left = out[3:].rsplit(' ', 1)
            me = parse_snps(body)
            if entries_equal(me, impl_e) and int(left) == 0: chk.k_ok('subsample')
            else: kbad(chk, 'subsample', ds, impl_e, dict(entries=me, unused_draws=int(left)), None, at)
            # the spectrum of the sub-sampled dictionary, full projection (what bootstraps_subsample_vcf uses)
            proj = [2 * sub[p] for p in names]
            if int(np.prod([x + 1 for x in proj])) <= 4000:
                try:
                    fs = dadi.Spectrum.from_data_dict(dd, names, proj, mask_corners=False, polarized=True)
                    tot = float(np.sum(fs.data))
                    npol = sum(1 for v in dd.values() if v['outgroup_allele'] != '-' and v['outgroup_allele'] in v['segregating'])
                    if abs(tot - npol) > 1e-9 * max(npol, 1):
                        chk.fail('from_data_dict:subsample:total', 'sub-sampled spectrum total %.12g != %d polarisable SNPs' % (tot, npol), inp)
                    o2 = ask(ctx, 'spec 1 0 %s %s' % (','.join(map(str, proj)), snps_wire(me)))
                    cmp_spec_model(chk, ctx, ds, 'spec:subsample', fs, o2, at)
                except Exception as e:
                    chk.fail('from_data_dict:subsample:raises:%s' % type(e).__name__, 'from_data_dict on the sub-sampled dictionary raises %r' % (e,), inp)
        else:
            kbad(chk, 'subsample', ds, impl_e, out, None, at)

def subsample_exact(chk, ds, filt, sub, rec, dd, inp, tag):
    """the sub-sampled dictionary against the statement with the recorded draws: every draw is `sub[pop]` distinct individuals out of
    EXACTLY the completely genotyped ones of that population on that line (an individual is completely genotyped iff none of the
    alleles of its GT is missing and its depth does not say 'no reads'), every chromosome of a drawn individual is counted once, a
    line is kept iff every requested population has enough such individuals.  Returns True if nothing was found."""
    for a, size, repl, r in rec:
        if list(a) != list(range(len(a))):
            chk.fail('make_data_dict_vcf:subsample:pool' + tag, 'the individuals offered to a draw are not numbered 0..n-1: %r' % (a,), inp); return False
    ent, used, problem = oracle_subsampled(ds, filt, sub, [(len(a), size, repl, r) for a, size, repl, r in rec])
    if problem is None and used != len(rec):
        problem = '%d draws were made, the lines and populations with enough completely genotyped individuals account for %d' % (len(rec), used)
    if problem:
        chk.fail('make_data_dict_vcf:subsample:pool' + tag, 'sub-sampling does not draw among exactly the completely genotyped individuals (no allele of the GT missing): ' + problem, inp); return False
    if set(ent.keys()) != set(dd.keys()):
        chk.fail('make_data_dict_vcf:subsample:keys' + tag, 'SNPs kept under sub-sampling are not those with enough completely genotyped individuals in every population (%d kept, %d expected; e.g. %s)'
                 % (len(dd), len(ent), sorted(set(ent.keys()) ^ set(dd.keys()))[:3]), inp); return False
    for k, e in ent.items():
        got = {p: tuple(int(x) for x in dd[k]['calls'].get(p, ())) for p in e['counts']}
        if got != e['counts']:
            chk.fail('make_data_dict_vcf:subsample:counts' + tag, 'SNP %s: calls %r; the chromosomes of the drawn individuals (each counted once) are %r' % (k, got, e['counts']), inp); return False
    return True

def as_dict(items):
    """a dictionary argument from its (key, value) pairs, in that insertion order (older replay files hold a dict)"""
    return dict(items) if isinstance(items, dict) else {k: v for k, v in items}

# ------------------------------------------------------------------------------------------------ the composed entry point
def oracle_subsampled(ds, filt, sub, draws):
    """the dictionary one pass of the sub-sampling reader must produce, read off the matrix with the recorded draws:
    a line is kept iff it is a SNP line and every population of `sub` has at least sub[pop] complete genotypes; the populations
    are visited in the order of their first sample column and each visited one consumes one draw (indices into its complete
    genotypes, column order).  Returns (entries {key: dict(a1, a2, out, counts)}, draws used, problem or None)."""
    out = {}; it = 0
    for s in ds['sites']:
        if not is_snp_line(s, filt): continue
        comp = {}
        for (nm, p), al, nod in zip(ds['samples'], s['gts'], s['nodata']):
            if p is None or p not in sub: continue
            lst = comp.setdefault(p, [])
            if 9 not in al and not nod: lst.append(al)
        counts = {}; kept = True
        for p, lst in comp.items():
            if len(lst) < sub[p]:
                kept = False; break
            if it >= len(draws):
                return out, it, 'the reader drew fewer times than there are (line, population) pairs with enough complete genotypes'
            a_len, size, repl, r = draws[it]; it += 1
            if a_len != len(lst) or size != sub[p] or repl or len(r) != size or len(set(r)) != size or any(not (0 <= x < len(lst)) for x in r):
                return out, it, 'draw %d (%d of %d, replace=%s: %r) is not %d distinct of the %d complete genotypes of %s at %s_%d' % (
                    it - 1, size, a_len, repl, r, sub[p], len(lst), p, s['chrom'], s['pos'])
            counts[p] = (sum(lst[i].count(0) for i in r), sum(lst[i].count(1) for i in r))
        if not kept: continue
        aa = aa_value(s)
        if aa is None or len(aa) != 1 or aa not in BASES: aa = '-'
        out['%s_%d' % (s['chrom'], s['pos'])] = dict(a1=s['ref'].upper(), a2=s['alt'].upper(), out=aa, counts=counts)
    return out, it, None

def oracle_chunks(entries, size):
    """chunks of a dictionary {CHROM_POS: entry}: per chromosome (order of first appearance) the windows ((k)*size, (k+1)*size],
    k = 0 .. the last occupied one, empty windows included -> list of lists of entries"""
    by = {}
    for k, e in entries.items():
        chrom, pos, info = split_key(k)
        by.setdefault(chrom, []).append((pos, e))
    out = []
    for chrom, lst in by.items():
        last = max(max(pos - 1, 0) // size for pos, e in lst)
        for c in range(last + 1):
            out.append([e for pos, e in lst if max(pos - 1, 0) // size == c])
    return out

def check_pipeline(chk, ctx, ds, vcf, pop, pops, codes):
    """Misc.bootstraps_subsample_vcf end to end against direct counting: the VCF is sub-sampled, cut into chunks and one bootstrap
    of the chunks is taken, Nboot times.  Every replicate must have 2 x (requested individuals) chromosomes per population IN THE
    ORDER OF pop_ids, be the sum of the chosen chunks' spectra of the sub-sampled data (draws and choices recorded at the random
    number generators, everything else recomputed from the matrix), and total the number of usable SNPs in the chosen chunks."""
    dadi = ctx['dadi']; M = dadi.Misc
    par = ds['params'].get('pipeline')
    if not par or not hasattr(M, 'bootstraps_subsample_vcf'): return
    sub = as_dict(par['subsample']); pop_ids = list(par['pop_ids'])
    nboot, size, filt, mc, pol = int(par['nboot']), int(par['chunk_size']), bool(par['filter']), bool(par['mask_corners']), bool(par['polarized'])
    proj = [2 * sub[p] for p in pop_ids]
    at = dict(stage='pipeline', subsample=par['subsample'], pop_ids=pop_ids, Nboot=nboot, chunk_size=size, filter=filt, mask_corners=mc, polarized=pol)
    inp = dict(kind=ds['kind'], dataset=ds, at=at)
    same_order = [p for p in sub if p in pop_ids] == pop_ids
    sizes_differ = len(set(sub[p] for p in pop_ids)) > 1
    chk.stat('pipeline:dict-order=%s,sizes=%s' % ('pop_ids' if same_order else 'other', 'unequal' if sizes_differ else 'equal'))
    chk.stat('pipeline:npop=%d%s' % (len(pop_ids), '' if len(sub) == len(pop_ids) else '(of %d)' % len(sub)))
    events = []
    orig_choice = np.random.choice; orig_choices = M.random.choices
    def choice(a, size=None, replace=True, p=None):
        r = orig_choice(a, size, replace=replace)
        events.append(('draw', (len(a), int(size), bool(replace), [int(x) for x in np.atleast_1d(r)])))
        return r
    def choices(population, weights=None, *, cum_weights=None, k=1):
        idx = orig_choices(range(len(population)), k=k)
        events.append(('choice', (len(population), [int(i) for i in idx])))
        return [population[i] for i in idx]
    np.random.seed(par['subseed'] % (2 ** 32)); pyrandom.seed(par['bootseed'])
    np.random.choice = choice; M.random.choices = choices
    try:
        with warnings.catch_warnings():
            warnings.simplefilter('ignore')
            boots = M.bootstraps_subsample_vcf(vcf, pop, dict(sub), nboot, size, list(pop_ids), filter=filt, mask_corners=mc, polarized=pol)
    except Exception as e:
        if lines_with_enough(ds, filt, sub) == 0:
            chk.stat('pipeline:empty-dictionary'); return          # no line survives the sub-sampling: no chunks, nothing to resample
        chk.fail('bootstraps_subsample_vcf:raises:%s%s' % (type(e).__name__, ':trailing-fields-dropped' if ds.get('trim') else ''),
                 'bootstraps_subsample_vcf(subsample=%r, pop_ids=%r, ...) raises %r%s' % (sub, pop_ids, e, ' (FORMAT %s, samples without a call written `./.`)' % ds['fmt'] if ds.get('trim') else ''), inp); return
    finally:
        np.random.choice = orig_choice; M.random.choices = orig_choices
    chk.l3(('pipeline', len(pop_ids), len(sub), same_order, sizes_differ, pol, mc, filt))
    # ---- replicates: one chunk choice each, its draws before it
    reps = []; cur = []
    for kind, ev in events:
        if kind == 'draw': cur.append(ev)
        else: reps.append((cur, ev)); cur = []
    if len(boots) != nboot or len(reps) != nboot or cur:
        chk.fail('bootstraps_subsample_vcf:count', '%d spectra, %d chunk choices (%d draws after the last one) for Nboot=%d' % (len(boots), len(reps), len(cur), nboot), inp); return
    em = expected_mask(proj, pol, mc)
    for bi, (b, (draws, (npopu, chosen))) in enumerate(zip(boots, reps)):
        rinp = dict(inp, replicate=bi, choice=chosen)
        # ---- the requested number of individuals, population by population in the order of pop_ids
        got_ns = tuple(int(x) for x in b.sample_sizes)
        if got_ns != tuple(proj):
            chk.fail('bootstraps_subsample_vcf:sample-sizes', 'replicate %d has sample sizes %s; subsample=%r and pop_ids=%r ask for %s (two chromosomes per requested individual, in the order of pop_ids)'
                     % (bi, got_ns, sub, pop_ids, tuple(proj)), rinp)
        if (b.pop_ids is not None and list(b.pop_ids) != pop_ids) or b.folded != (not pol):
            chk.fail('bootstraps_subsample_vcf:flags', 'replicate %d: pop_ids=%s folded=%s' % (bi, b.pop_ids, b.folded), rinp)
        # ---- the sub-sampled dictionary of this replicate and its chunks, recomputed
        ent, used, problem = oracle_subsampled(ds, filt, sub, draws)
        if problem is None and used != len(draws):
            problem = '%d draws recorded, the lines and populations with enough complete genotypes account for %d' % (len(draws), used)
        if problem:
            chk.fail('bootstraps_subsample_vcf:draws', 'replicate %d: %s' % (bi, problem), rinp); continue
        chunks = oracle_chunks(ent, size)
        if len(chunks) != npopu or any(c >= len(chunks) for c in chosen) or len(chosen) != npopu:
            chk.fail('bootstraps_subsample_vcf:chunks', 'replicate %d: %d chunk spectra were resampled (%d drawn), the sub-sampled dictionary (%d SNPs) has %d chunks of %d bp'
                     % (bi, npopu, len(chosen), len(ent), len(chunks), size), rinp); continue
        cache = {}
        ref = None; usable = 0
        for c in chosen:
            if c not in cache:
                cache[c] = oracle_spectrum(chunks[c], pop_ids, proj, pol)
            ref = cache[c][0] if ref is None else ref + cache[c][0]
            usable += cache[c][1]
        if ref is None:
            ref = oracle_spectrum([], pop_ids, proj, pol)[0]
        # every SNP the sub-sampling kept has exactly the projected number of calls: usable iff polarisable (when polarised)
        direct = sum(sum(1 for e in chunks[c] if (not pol) or (e['out'] != '-' and e['out'] in (e['a1'], e['a2']))) for c in chosen)
        chk.stat('pipeline:usable=%s' % ('none' if direct == 0 else 'some'))
        if got_ns == tuple(proj):
            ok, err, scale = unmasked_close(b, ref)
            if not ok:
                chk.fail('bootstraps_subsample_vcf:sum', 'replicate %d is not the sum of the spectra of its chosen chunks of the sub-sampled data (differs by %.3g, scale %.3g)' % (bi, err, scale), rinp)
            if not np.array_equal(np.ma.getmaskarray(b), em):
                chk.fail('bootstraps_subsample_vcf:mask', 'replicate %d: mask differs from (corners if requested) + (folded-out half if unpolarised) at %s'
                         % (bi, [tuple(int(x) for x in c) for c in np.argwhere(np.ma.getmaskarray(b) != em)[:4]]), rinp)
            want = ref_total(ref, em)
            if abs(masked_total(b) - float(want)) > 1e-9 * max(direct, 1):
                chk.fail('bootstraps_subsample_vcf:visible-total', 'replicate %d: fs.sum() = %.12g, the usable SNPs of the chosen chunks outside the masked entries add up to %.12g' % (bi, masked_total(b), float(want)), rinp)
        tot = float(np.sum(np.asarray(b.data)))
        if usable != direct or abs(tot - direct) > 1e-9 * max(direct, 1):
            chk.fail('bootstraps_subsample_vcf:total', 'replicate %d: total %.12g; the chosen chunks hold %d sub-sampled SNPs that are usable (every kept SNP has exactly 2 x requested calls)' % (bi, tot, direct), rinp)
        if bi == 0:
            check_pure(chk, ds, b, dict(at, replicate=bi), 'pipeline:boot', derived=False)
        # ---- K: the model's composition (generated glue) fed the same draws and choice
        if have_driver(ctx):
            want_w = '+'.join('%d:%d' % (pops.index(p), k) for p, k in sub.items())
            ids_w = ','.join(str(pops.index(p)) for p in pop_ids)
            dw = ';'.join(','.join(map(str, d[3])) if d[3] else '-' for d in draws) if draws else '-'
            out = ask(ctx, 'bsv %d %d %d %d %d %s %s %s %s %s' % (filt, mc, pol, nboot, size, want_w, ids_w, dw, ','.join(map(str, chosen)) if chosen else '-', sites_wire(ds, codes)))
            if out.startswith('ok '):
                toks = out[3:].split(' ')
                mshape = parse_nd_exact(toks[0])[0]
                if tuple(mshape) != tuple(b.shape) or toks[4] != ','.join(str(n) for n in got_ns) or int(toks[2]) != 0 or int(toks[3]) != npopu:
                    kbad(chk, 'bsv', ds, dict(sample_sizes=got_ns, chunks=npopu, unused_draws=0), dict(projections=toks[4], chunks=toks[3], unused_draws=toks[2]), None, dict(at, replicate=bi))
                else:
                    cmp_spec_model(chk, ctx, ds, 'bsv', b, 'ok ' + ' '.join(toks[:2]), dict(at, replicate=bi, choice=chosen))
            else:
                kbad(chk, 'bsv', ds, dict(sample_sizes=got_ns), out, None, dict(at, replicate=bi))

def is_snp_line(site, filt):
    """the statement's 'biallelic SNP' for a VCF line: REF and ALT are each exactly one of A, C, G, T (any case), and the line passes the filter if asked"""
    r, a = site['ref'].upper(), site['alt'].upper()
    return len(r) == 1 and len(a) == 1 and r in BASES and a in BASES and not (filt and site['filt'] not in ('PASS', '.'))

def check_lines(chk, ctx, ds, dd, filt, codes):
    """line by line: exactly the biallelic single-base SNP lines enter the dictionary (L3), and the model's kept-line
    predicate `siteKept` says the same (K).  Lines whose CHROM_POS is repeated are judged through the last kept one."""
    keys = ['%s_%d' % (s['chrom'], s['pos']) for s in ds['sites']]
    expect_in = {}
    for k, s in zip(keys, ds['sites']):
        expect_in[k] = expect_in.get(k, False) or is_snp_line(s, filt)
    wrong = [(k, s) for k, s in zip(keys, ds['sites']) if (k in dd) != expect_in[k]]
    nsub = sum(1 for s in ds['sites'] if (s['ref'].upper() in SUBSTR or s['alt'].upper() in SUBSTR))
    chk.l3(('lines', filt, nsub > 0, any(',' in s['alt'] for s in ds['sites']), any(s['ref'] != s['ref'].upper() for s in ds['sites'])))
    chk.stat('lines:non-snp', sum(1 for s in ds['sites'] if not is_snp_line(s, False)))
    chk.stat('lines:substring-of-ACGT', nsub)
    if wrong:
        k, s = wrong[0]
        kind = 'substring-of-ACGT' if (s['ref'].upper() in SUBSTR or s['alt'].upper() in SUBSTR) else 'other'
        chk.fail('make_data_dict_vcf:line-kept:%s:%s' % ('non-snp-entered' if k in dd else 'snp-dropped', kind),
                 'VCF line %s REF=%s ALT=%s FILTER=%s is %s the data dictionary (filter=%s): %d line(s) misjudged; every one of them changes the total of the spectrum'
                 % (k, s['ref'], s['alt'], s['filt'], 'in' if k in dd else 'missing from', filt, len(wrong)),
                 dict(kind=ds['kind'], dataset=ds, at=dict(stage='lines', key=k)))
    if have_driver(ctx):
        out = ask(ctx, 'kept %d %s' % (filt, sites_wire(ds, codes)))
        if out.startswith('ok '):
            bits = out[3:].strip()
            mexp = {}
            for k, b in zip(keys, bits):
                mexp[k] = mexp.get(k, False) or b == '1'
            ref_bits = ''.join('1' if is_snp_line(s, filt) else '0' for s in ds['sites'])
            if bits == ref_bits and all((k in dd) == mexp[k] for k in keys): chk.k_ok('kept')
            else: kbad(chk, 'kept', ds, ''.join('1' if k in dd else '0' for k in keys), bits, None, dict(stage='lines'))
        else:
            kbad(chk, 'kept', ds, None, out, None, dict(stage='lines'))

def hexs(t):
    """a text field on the wire (no separators of the protocol inside): hex of its bytes, '-' for the empty string"""
    return t.encode('utf-8').hex() if t else '-'

def check_aa_lines(chk, ctx, ds, dd, filt, stage):
    """the reader's token-level decisions, line by line.  L3: the outgroup allele recorded for a SNP is the value of the INFO field whose
    key is exactly AA / AA_ensembl / AA_chimp (first such field, upper-cased, cut at '|', '-' unless a single base) and of no other field,
    wherever fields with similar keys stand.  K (`vcflines`): FILTER / REF / ALT / INFO texts through the model's generated reader
    (`lineKept`, `lineAa`: accepted FILTER tokens, base list, recognised prefixes, extraction pipeline) against the dictionary."""
    last = {}
    for s in ds['sites']:
        if is_snp_line(s, filt): last['%s_%d' % (s['chrom'], s['pos'])] = s
    nbefore = nafter = 0
    for k, s in last.items():
        want = aa_value(s)
        if want is None or len(want) != 1 or want not in BASES: want = '-'
        b, a, has = decoy_layout(s)
        nbefore += b > 0 and has; nafter += a > 0 and has
        cls = 'base' if want != '-' else 'none' if not has else 'unusable'
        chk.l3(('aa-line', stage, min(b, 2), min(a, 2), cls, [f.split('=')[0] for f in site_info(s) if info_key(f) in AA_KEYS][:1] == ['AA']))
        if k not in dd: continue                                           # judged by check_lines
        got = dd[k].get('outgroup_allele')
        if got != want:
            kind = ('similar-key-before' if b else 'similar-key-after' if a else 'plain') if has else ('similar-key-only' if b else 'no-field')
            chk.fail('make_data_dict_vcf:ancestral-allele:%s' % kind,
                     'VCF line %s REF=%s ALT=%s INFO=%r: outgroup_allele recorded as %r; the INFO column gives %r (the field whose key is exactly AA / AA_ensembl / AA_chimp; %s). Every such SNP is lost from (or mis-polarised in) polarised spectra'
                     % (k, s['ref'], s['alt'], info_text(s), got, want, 'fields with similar keys: %d before, %d after it' % (b, a) if has else 'there is none, only %d field(s) with similar keys' % b),
                     dict(kind=ds['kind'], dataset=ds, at=dict(stage=stage, key=k)))
            break
    chk.stat('info:similar-key-before-aa', int(nbefore)); chk.stat('info:similar-key-after-aa', int(nafter))
    if have_driver(ctx) and ds['sites']:
        w = ';'.join(','.join([hexs(s['filt']), hexs(s['ref']), hexs(s['alt']), hexs(info_text(s))]) for s in ds['sites'])
        out = ask(ctx, 'vcflines %d %s' % (filt, w))
        impl = {k: (v['segregating'][0], v['segregating'][1], v.get('outgroup_allele')) for k, v in dd.items()}
        if out.startswith('ok '):
            res = out[3:].split(' ')
            model = {}
            for s, r in zip(ds['sites'], res):
                if r != 's': model['%s_%d' % (s['chrom'], s['pos'])] = tuple(bytes.fromhex(x).decode('utf-8') if x != '-' else '' for x in r.split(':'))
            if len(res) == len(ds['sites']) and model == impl: chk.k_ok('vcflines')
            else:
                diff = [k for k in list(model) + list(impl) if model.get(k) != impl.get(k)][:3]
                kbad(chk, 'vcflines', ds, {k: impl.get(k) for k in diff}, {k: model.get(k) for k in diff}, None, dict(stage=stage))
        else:
            kbad(chk, 'vcflines', ds, 'entries', out[:300], None, dict(stage=stage))

def check_vcf_dataset(chk, ctx, ds):
    dadi = ctx['dadi']; M = dadi.Misc
    codes = Codes()
    d = tempfile.mkdtemp(prefix='c13_')
    try:
        vcf, pop = render_vcf(ds, d)
        filt = ds['params']['filter']
        inp = dict(kind=ds['kind'], dataset=ds, at=dict(stage='parse'))
        try:
            dd = M.make_data_dict_vcf(vcf, pop, filter=filt)
        except Exception as e:
            chk.fail('make_data_dict_vcf:raises:%s' % type(e).__name__, 'make_data_dict_vcf raises %r' % (e,), inp); return
        pops = ds['pops']
        present = [p for p in pops if any(s[1] == p for s in ds['samples'])]
        # ---- L3: the dictionary holds exactly the usable lines with the counts of the matrix
        od = oracle_entries_vcf(ds, filt)
        chk.l3(('parse', len(pops), filt, len(od) < len(ds['sites']), ds['fmt'], ds['sep']))
        bad = None
        if list(dd.keys()) != list(od.keys()) and sorted(dd.keys()) != sorted(od.keys()):
            bad = 'keys: %d parsed, %d expected' % (len(dd), len(od))
        else:
            for k, e in od.items():
                v = dd[k]
                if tuple(v['segregating']) != (e['a1'], e['a2']) or v['outgroup_allele'] != e['out'] or \
                   any(tuple(v['calls'].get(p, ())) != e['counts'][p] for p in e['counts']):
                    bad = 'entry %s: parsed %r, matrix says %r' % (k, dict(seg=v['segregating'], out=v['outgroup_allele'], calls=v['calls']), e); break
        if bad:
            chk.fail('make_data_dict_vcf:entries', 'the data dictionary is not the matrix: ' + bad, inp)
        chk.stat('vcf:fmt=' + ds['fmt']); chk.stat('vcf:lines_kept=%s' % ('all' if len(od) == len(ds['sites']) else 'some' if od else 'none'))
        nrep = sum(1 for s in ds['sites'] if is_snp_line(s, filt)) - len(od)
        chk.stat('vcf:repeated-keys=%s' % ('none' if nrep == 0 else 'some'))            # SNP lines overwritten by a later line with the same CHROM_POS
        # ---- K: dictionary
        model_entries = None
        if have_driver(ctx):
            allidx = [pops.index(p) for p in present]
            out = ask(ctx, 'dd_vcf %d %s %s' % (filt, ','.join(map(str, allidx)) if allidx else '-', sites_wire(ds, codes)))
            ie = impl_entries(dd, present, codes)
            if out.startswith('ok '):
                me = parse_snps(out[3:])
                if entries_equal(me, ie): chk.k_ok('dd_vcf')
                else: kbad(chk, 'dd_vcf', ds, ie, me, None, dict(stage='parse'))
                model_entries = me
            else:
                kbad(chk, 'dd_vcf', ds, ie, out, None, dict(stage='parse'))
        check_lines(chk, ctx, ds, dd, filt, codes)
        check_aa_lines(chk, ctx, ds, dd, filt, 'parse')
        if present != pops:
            return
        entries_oracle = [od[k] for k in dd.keys() if k in od] if sorted(dd.keys()) == sorted(od.keys()) else list(od.values())
        check_spectra(chk, ctx, ds, dd, entries_oracle, model_entries, pops, 'vcf')
        check_chunks(chk, ctx, ds, dd, model_entries, pops, codes, 'vcf')
        check_subsample(chk, ctx, ds, vcf, pop, pops, codes)
        check_pipeline(chk, ctx, ds, vcf, pop, pops, codes)
        chk.sample(dict(kind='vcf', pops=pops, diploids=ds['ndip'], lines=len(ds['sites']), kept=len(dd), fmt=ds['fmt'],
                        chroms=sorted(set(s['chrom'] for s in ds['sites'])), configs=ds['params']['configs'],
                        chunk_size=ds['params']['chunk_size'], subsample=ds['params']['subsample'], pipeline=ds['params'].get('pipeline'),
                        first_line=dict(dict((k, ds['sites'][0][k]) for k in ('chrom', 'pos', 'ref', 'alt', 'filt')), info=info_text(ds['sites'][0]))))
    finally:
        shutil.rmtree(d, ignore_errors=True)

# ------------------------------------------------------------------------------------------------ SNP-file format and hand-made dictionaries
def snpfile_rows(rng, ds):
    """rows of the SNP-file format derived from the same matrix: counts per population, alleles possibly multi-character,
    outgroup context with '-', 'N', lower case; ids = chromosome, position[.additional_info]"""
    rows = []
    for s in ds['sites']:
        a1 = s['ref'] if rng.random() < 0.9 else str(rng.choice(['AT', 'ac', '-', 'N']))
        a2 = s['alt'] if s['alt'] not in ('T,G', '<DEL>', '*', '.') else 'G'
        u = rng.random()
        og = a1[0] if u < 0.35 else a2[0] if u < 0.7 else str(rng.choice(['-', 'N', 'n', 'A', 'c']))
        if rng.random() < 0.15: og = og.lower()
        counts = {}
        for (nm, p), al in zip(ds['samples'], s['gts']):
            if p is None: continue
            c = counts.setdefault(p, [0, 0]); c[0] += al.count(0); c[1] += al.count(1)
        rows.append(dict(ctx='A%sG' % a1[0], octx='t%sc' % og, a1=a1, a2=a2, counts=[tuple(counts.get(p, (0, 0))) for p in ds['pops']],
                         chrom=s['chrom'], pos=s['pos'], info=None))
    return rows

def render_snpfile(ds, rows, d, with_ids=True):
    path = os.path.join(d, 'data.snp')
    pops = ds['pops']
    with open(path, 'w') as f:
        f.write('# synthetic SNP file\n#  second comment\n')
        f.write('Human\tChimp\tAllele1\t' + '\t'.join(pops) + '\tAllele2\t' + '\t'.join(pops) + ('\tChr\tPos' if with_ids else '') + '\n')
        for i, r in enumerate(rows):
            if i == 2: f.write('# a comment between rows\n')
            ident = []
            if with_ids:
                ident = [r['chrom'], str(r['pos']) + ('.' + r['info'] if r['info'] else '')]
            sepc = '\t' if i % 4 else ('  ' if i % 8 else ' \t ')                      # columns are separated by white space of any kind
            f.write(sepc.join([r['ctx'], r['octx'], r['a1']] + [str(c[0]) for c in r['counts']] + [r['a2']] + [str(c[1]) for c in r['counts']] + ident) + ('\n' if i % 5 else '  \n'))
    return path

def rows_to_oracle(rows, pops, with_ids=True, comment_shift=True):
    """dictionary semantics: later rows with the same id replace earlier ones (position in the dictionary is kept)"""
    out = {}
    ii = 0
    for i, r in enumerate(rows):
        if i == 2: ii += 1                       # the comment line between rows is enumerated too
        key = ('%s_%d%s' % (r['chrom'], r['pos'], '.' + r['info'] if r['info'] else '')) if with_ids else 'SNP_%d' % ii
        out[key] = dict(a1=r['a1'].upper(), a2=r['a2'].upper(), out=r['octx'][1].upper(), counts={p: c for p, c in zip(pops, r['counts'])})
        ii += 1
    return out

def check_snpfile_dataset(chk, ctx, ds, rng_rows):
    dadi = ctx['dadi']; M = dadi.Misc
    codes = Codes()
    pops = ds['pops']
    rows = ds.get('rows')
    if rows is None:
        rows = snpfile_rows(rng_rows, ds); ds['rows'] = rows
    with_ids = ds.get('with_ids', True)
    d = tempfile.mkdtemp(prefix='c13_')
    try:
        path = render_snpfile(ds, rows, d, with_ids)
        inp = dict(kind=ds['kind'], dataset=ds, at=dict(stage='parse'))
        try:
            dd = M.make_data_dict(path)
        except Exception as e:
            chk.fail('make_data_dict:raises:%s' % type(e).__name__, 'make_data_dict raises %r' % (e,), inp); return
        od = rows_to_oracle(rows, pops, with_ids)
        chk.l3(('snpfile', len(pops), with_ids, len(od) < len(rows)))
        bad = None
        if list(dd.keys()) != list(od.keys()):
            bad = 'keys %r vs %r' % (list(dd.keys())[:5], list(od.keys())[:5])
        else:
            for k, e in od.items():
                v = dd[k]
                if tuple(v['segregating']) != (e['a1'], e['a2']) or v['outgroup_allele'] != e['out'] or \
                   any(tuple(v['calls'][p]) != tuple(e['counts'][p]) for p in pops):
                    bad = 'entry %s: parsed %r, rows say %r' % (k, dict(seg=v['segregating'], out=v['outgroup_allele'], calls=v['calls']), e); break
        if bad:
            chk.fail('make_data_dict:entries', 'the data dictionary is not the table: ' + bad, inp)
        model_entries = None
        if have_driver(ctx):
            ie = impl_entries(dd, pops, codes)
            raw = []
            for k, e in zip(rows_keys(rows, with_ids), rows):
                chrom, pos, info = split_key(k)
                raw.append(dict(chrom=codes.c(chrom), pos=pos, info=codes.i(info), nseg=2, a1=allele_code(e['a1'].upper()), a2=allele_code(e['a2'].upper()),
                                out=allele_code(e['octx'][1].upper()), calls=[tuple(c) for c in e['counts']]))
            out = ask(ctx, 'mkdict %s' % snps_wire(raw))
            if out.startswith('ok '):
                me = parse_snps(out[3:])
                if entries_equal(me, ie): chk.k_ok('mkdict')
                else: kbad(chk, 'mkdict', ds, ie, me, None, dict(stage='parse'))
                model_entries = me
            else:
                kbad(chk, 'mkdict', ds, ie, out, None, dict(stage='parse'))
        entries_oracle = [od[k] for k in dd.keys() if k in od] if list(dd.keys()) == list(od.keys()) else list(od.values())
        check_spectra(chk, ctx, ds, dd, entries_oracle, model_entries, pops, 'snpfile')
        check_chunks(chk, ctx, ds, dd, model_entries, pops, codes, 'snpfile')
        chk.stat('snpfile:ids=%s' % with_ids)
    finally:
        shutil.rmtree(d, ignore_errors=True)

def rows_keys(rows, with_ids):
    keys = []; ii = 0
    for i, r in enumerate(rows):
        if i == 2: ii += 1
        keys.append(('%s_%d%s' % (r['chrom'], r['pos'], '.' + r['info'] if r['info'] else '')) if with_ids else 'SNP_%d' % ii)
        ii += 1
    return keys

def check_dict_dataset(chk, ctx, ds):
    """hand-made dictionaries: non-biallelic entries, missing 'outgroup_allele' key, additional_info in the keys"""
    dadi = ctx['dadi']
    codes = Codes()
    pops = ds['pops']
    dd = {}; od = {}
    for e in ds['entries']:
        v = dict(segregating=tuple(e['seg']), calls={p: tuple(c) for p, c in zip(pops, e['counts'])})
        if e.get('calls_order'):                         # the inner dictionaries have an insertion order of their own, SNP by SNP
            v['calls'] = {pops[i]: v['calls'][pops[i]] for i in e['calls_order']}
        if e['out'] is not None: v['outgroup_allele'] = e['out']
        if e.get('ctx'): v['context'], v['outgroup_context'] = e['ctx']
        dd[e['key']] = v
        od[e['key']] = dict(a1=e['seg'][0] if e['seg'] else None, a2=e['seg'][1] if len(e['seg']) > 1 else None, out=e['out'], nseg=len(e['seg']),
                            counts={p: tuple(c) for p, c in zip(pops, e['counts'])})
    me = impl_entries(dd, pops, codes)            # the dictionary *is* the input here: the model gets the same entries
    chk.l3(('dict', len(pops), any(len(e['seg']) != 2 for e in ds['entries']), any(e['out'] is None for e in ds['entries'])))
    check_spectra(chk, ctx, ds, dd, list(od.values()), me, pops, 'dict')
    check_chunks(chk, ctx, ds, dd, me, pops, codes, 'dict')
    check_corrected(chk, ctx, ds, dd, od, pops)

def correctable(e, v):
    """the SNPs Spectrum.from_data_dict_corrected documents as usable: biallelic with sensible alleles, the same sensible flanking
    bases in the ingroup and outgroup context, outgroup allele one of the segregating alleles"""
    if e.get('nseg', 2) != 2 or 'context' not in v or 'outgroup_context' not in v: return False
    c, o = v['context'], v['outgroup_context']
    return (c[0] == o[0] and c[2] == o[2] and c[0] in BASES and c[2] in BASES and o[1] in (e['a1'], e['a2'])
            and e['a1'] in BASES and e['a2'] in BASES)

def tri_class(e, v):
    """class of a correctable SNP: ((ingroup flank, derived allele, ingroup flank), outgroup base)"""
    c, o = v['context'], v['outgroup_context']
    og = o[1]
    der = e['a2'] if e['a1'] == og else e['a1']
    return ((c[0], der, c[2]), og)

def mis_class(k):
    (f0, der, f2), og = k
    return ((f0, og, f2), der)

def write_fux(path, a, b):
    """the table of misidentification probabilities: the number for (context xyz, outgroup base u) is a[u] + b[y] (multiples of 1/64: exact in binary)"""
    with open(path, 'w') as f:
        f.write('# probability of ancestral misidentification\n')
        for x, y, z, u in itertools.product(BASES, repeat=4):
            f.write('%s%s%s %s %s\n' % (x, y, z, u, repr(float(a[u] + b[y]))))

def corrected_oracle(ents_by_class, names, proj, a, b, force_pos):
    """Hernandez, Williamson & Bustamante (2007) eqs. 5-6 solved for the true spectra, class by class: a class c with observed spectrum N_c,
    probability f_c = a[outgroup base] + b[derived base] of being mistaken (for the class m(c) with derived allele and outgroup base exchanged,
    whose spectrum is then seen mirrored) contributes ((1 - f_m(c)) N_c - f_c rev(N_c)) / (1 - f_c - f_m(c)); then negative entries are moved to
    the mirrored entry if force_pos.  Exact."""
    shape = tuple(p + 1 for p in proj)
    tot = np.zeros(shape, dtype=object); tot[...] = Fraction(0)
    usable = 0
    def fmis(k): return a[k[1]] + b[k[0][1]]
    for k, ents in ents_by_class.items():
        N, u = oracle_spectrum(ents, names, proj, True)
        usable += u
        fc = fmis(k); fm = fmis(mis_class(k))
        rev = N[tuple(slice(None, None, -1) for _ in shape)]
        tot = tot + ((1 - fm) * N - fc * rev) / (1 - fc - fm)
    if force_pos:
        neg = np.zeros(shape, dtype=object)
        for idx in itertools.product(*[range(x) for x in shape]):
            neg[idx] = min(Fraction(0), tot[idx])
        tot = tot - neg + neg[tuple(slice(None, None, -1) for _ in shape)]
    return tot, usable

def tri_wire(e_model, v):
    """model entry + the flanking-base codes"""
    if 'context' in v and 'outgroup_context' in v:
        c, o = v['context'], v['outgroup_context']
        t = '1,%d,%d,%d,%d,%d' % (allele_code(c[0]), allele_code(c[2]), allele_code(o[0]), allele_code(o[1]), allele_code(o[2]))
    else:
        t = '0,0,0,0,0,0'
    return snp_wire(e_model) + '|' + t

def check_corrected(chk, ctx, ds, dd, od, pops):
    """Spectrum.from_data_dict_corrected against the statement, populations in the order of pop_ids: which SNPs the correction applies to
    (`_data_by_tri`, K `tricls`), the corrected spectrum for tables with zero and with non-zero misidentification probabilities that depend on
    the outgroup base and on the derived base (so that fux != fxu), with and without force_pos (L3 `corrected_oracle`, K `corrected`), and the
    total = number of correctable usable SNPs whatever the table"""
    dadi = ctx['dadi']
    if not any('context' in v for v in dd.values()) or not hasattr(dadi.Spectrum, 'from_data_dict_corrected'): return
    codes = Codes()
    rngc = common.Rng(ds['params']['bootseed'], 'C13-corrected')
    d = tempfile.mkdtemp(prefix='c13_')
    try:
        keys = list(dd.keys())
        by_class = {}
        for k in keys:
            if correctable(od[k], dd[k]):
                by_class.setdefault(tri_class(od[k], dd[k]), []).append(od[k])
        # ---- which SNPs are kept, in which class (K: the model's `triClassify` vs the real `_data_by_tri`)
        if have_driver(ctx) and hasattr(dadi.Spectrum, '_data_by_tri'):
            try:
                real = dadi.Spectrum._data_by_tri(dd)
                where = {}
                for (dtri, ogb), members in real.items():
                    for k in members: where[k] = (allele_code(dtri[0]), allele_code(dtri[1]), allele_code(dtri[2]), allele_code(ogb))
                me = impl_entries(dd, pops, codes)
                out = ask(ctx, 'tricls %s' % ';'.join(tri_wire(e, dd[k]) for e, k in zip(me, keys)))
                exp = ['k:%d,%d,%d,%d' % where[k] if k in where else 's' for k in keys]
                if out.startswith('ok ') and out[3:].split(' ') == exp: chk.k_ok('tricls')
                else: kbad(chk, 'tricls', ds, exp, out[:2000], None, dict(stage='corrected'))
            except Exception as e:
                chk.fail('_data_by_tri:raises:%s' % type(e).__name__, '_data_by_tri raises %r' % (e,), dict(kind=ds['kind'], dataset=ds, at=dict(stage='corrected')))
        for ci, cfg in enumerate(ds['params']['configs']):
            names = [pops[p] for p in cfg['sel']]; proj = cfg['proj']; mc = cfg['mask_corners']
            for variant in range(3):
                if variant == 0:
                    a = {u: Fraction(0) for u in BASES}; b = dict(a); fp = True
                else:
                    a = {u: Fraction(int(rngc.integers(0, 9)), 64) for u in BASES}; b = {u: Fraction(int(rngc.integers(0, 9)), 64) for u in BASES}
                    fp = variant == 1
                at = dict(stage='corrected', config=ci, variant=variant, table_a={u: str(a[u]) for u in BASES}, table_b={u: str(b[u]) for u in BASES}, force_pos=fp)
                inp = dict(kind=ds['kind'], dataset=ds, at=at)
                fux = os.path.join(d, 'fux_%d_%d.txt' % (ci, variant))
                write_fux(fux, a, b)
                try:
                    with np.errstate(all='ignore'), warnings.catch_warnings():
                        warnings.simplefilter('ignore')
                        fs = dadi.Spectrum.from_data_dict_corrected(dd, names, proj, fux, force_pos=fp, mask_corners=mc)
                        fs0 = dadi.Spectrum.from_data_dict_corrected(dd, names, proj, fux, force_pos=fp, mask_corners=False)
                except Exception as e:
                    chk.fail('from_data_dict_corrected:raises:%s' % type(e).__name__, 'from_data_dict_corrected raises %r' % (e,), inp); continue
                ref, usable = corrected_oracle(by_class, names, proj, a, b, fp)
                chk.l3(('corrected', len(names), mc, usable > 0, usable < len(dd), variant, len(by_class) > 1, bool((np.asarray(ref, dtype=object) < 0).any())))
                chk.stat('corrected:usable=%s' % ('none' if usable == 0 else 'all' if usable == len(dd) else 'some'))
                chk.stat('corrected:table=%s' % ('zero' if variant == 0 else 'nonzero,force_pos=%s' % fp))
                ok, err, scale = unmasked_close(fs, ref)
                ok0, err0, scale0 = unmasked_close(fs0, ref)
                if tuple(fs.shape) != tuple(p + 1 for p in proj) or not ok or not ok0 or not np.array_equal(np.ma.getmaskarray(fs), expected_mask(proj, True, mc)) \
                   or np.ma.getmaskarray(fs0).any() or (fs.pop_ids is not None and list(fs.pop_ids) != names):
                    chk.fail('from_data_dict_corrected:spectrum%s' % ('' if variant == 0 else ':nonzero-table'),
                             'the corrected spectrum (pop_ids=%r, projections=%r, mask_corners=%s, force_pos=%s, misidentification a[outgroup base]+b[derived base] with a=%s b=%s) is not the class-by-class solution of the misidentification equations for the %d correctable SNPs: differs by %.3g / %.3g with all entries visible (scale %.3g), pop_ids=%s'
                             % (names, proj, mc, fp, at['table_a'], at['table_b'], usable, err, err0, scale, fs.pop_ids), inp)
                tot = float(np.sum(np.asarray(fs0.data)))
                if abs(tot - usable) > 1e-9 * max(usable, 1):
                    chk.fail('from_data_dict_corrected:total', 'the corrected spectrum totals %.12g; the correction redistributes the %d correctable usable SNPs and must conserve their number' % (tot, usable), inp)
                if have_driver(ctx) and int(np.prod([x + 1 for x in proj])) <= 400:
                    me = impl_entries(dd, names, codes)
                    w = ';'.join(tri_wire(e, dd[k]) for e, k in zip(me, keys))
                    out = ask(ctx, 'corrected %d %s %s %s %s' % (fp, ','.join(map(str, proj)), ','.join(str(a[u]) for u in BASES), ','.join(str(b[u]) for u in BASES), w))
                    cmp_data_model(chk, ds, 'corrected', fs0, out, at)
        # ---- an outgroup context whose middle base is not the recorded outgroup allele: ValueError, in the model too (K)
        cand = [k for k in keys if 'outgroup_context' in dd[k] and len(dd[k].get('segregating', ())) == 2]
        if cand and have_driver(ctx) and rngc.random() < 0.5:
            k0 = cand[int(rngc.integers(len(cand)))]
            dd2 = dict(dd); v = dict(dd[k0]); o = v['outgroup_context']
            v['outgroup_context'] = o[0] + [x for x in BASES if x != o[1]][0] + o[2]; dd2[k0] = v
            cfg = ds['params']['configs'][0]; names = [pops[p] for p in cfg['sel']]
            fux = os.path.join(d, 'fux_incons.txt'); write_fux(fux, {u: Fraction(0) for u in BASES}, {u: Fraction(0) for u in BASES})
            try:
                dadi.Spectrum.from_data_dict_corrected(dd2, names, cfg['proj'], fux); got = 'ok'
            except Exception as e:
                got = 'err ' + type(e).__name__.lower()
            me = impl_entries(dd2, names, codes)
            out = ask(ctx, 'corrected 1 %s 0,0,0,0 0,0,0,0 %s' % (','.join(map(str, cfg['proj'])), ';'.join(tri_wire(e, dd2[k]) for e, k in zip(me, keys))))
            if out.split(' ')[0:2] == got.split(' ')[0:2] and got == 'err valueerror': chk.k_ok('corrected:inconsistent')
            else: kbad(chk, 'corrected:inconsistent', ds, got, out[:200], None, dict(stage='corrected', key=k0))
    finally:
        shutil.rmtree(d, ignore_errors=True)

def cmp_data_model(chk, ds, op, fs, out, extra):
    """all entries of the data of `fs` against the model's exact array"""
    if not out.startswith('ok '):
        kbad(chk, op, ds, 'spectrum', out[:300], None, extra); return
    mdata = nd_float(out[3:].strip()); idata = np.asarray(fs.data, dtype=float)
    if idata.shape != mdata.shape or not np.all(np.isfinite(idata)):
        kbad(chk, op, ds, idata, mdata, None, extra); return
    scale = float(np.max(np.abs(mdata))) if mdata.size else 0.0
    err = float(np.max(np.abs(idata - mdata))) if mdata.size else 0.0
    if err <= RTOL * scale + 1e-300: chk.k_ok(op)
    else: kbad(chk, op, ds, idata, mdata, err, extra)

def gen_dict_dataset(rng, tier, addinfo='none'):
    base = gen_dataset(rng, tier, kind='dict')
    pops = base['pops']
    with_ctx = bool(rng.random() < 0.5)                         # flanking-base contexts (what from_data_dict_corrected needs)
    entries = []
    seen = set()
    for s in base['sites']:
        counts = []
        for p in pops:
            c = [0, 0]
            for (nm, q), al in zip(base['samples'], s['gts']):
                if q == p: c[0] += al.count(0); c[1] += al.count(1)
            counts.append(tuple(c))
        a1, a2 = s['ref'].upper()[:1] or 'A', (s['alt'].upper()[:1] if s['alt'][:1].upper() in BASES else 'G')
        u = rng.random()
        seg = [a1, a2]
        if u < 0.08: seg = [a1, a2, 'C' if 'C' not in (a1, a2) else 'T']
        elif u < 0.12: seg = [a1]
        u = rng.random()
        out = a1 if u < 0.4 else a2 if u < 0.7 else None if u < 0.8 else str(rng.choice(['-', 'N', 'G']))
        info = None
        if addinfo == 'distinct' and rng.random() < 0.5: info = str(rng.choice(['a', 'b', '2', 'x.y']))
        key = '%s_%d%s' % (s['chrom'], s['pos'], '.' + info if info else '')
        if (s['chrom'], s['pos']) in seen: continue           # one entry per position here; 'mixed' adds the recurrent-mutation case
        seen.add((s['chrom'], s['pos']))
        e = dict(key=key, seg=seg, out=out, counts=counts)
        if len(pops) > 1 and rng.random() < 0.5:
            e['calls_order'] = [int(i) for i in rng.permutation(len(pops))]
        if with_ctx and out is not None and len(out) == 1:
            fl = [str(rng.choice(list(BASES))) if rng.random() < 0.9 else str(rng.choice(['-', 'N'])) for _ in range(2)]
            ofl = list(fl) if rng.random() < 0.85 else [str(rng.choice(list(BASES))), fl[1]]
            e['ctx'] = [fl[0] + seg[0] + fl[1], ofl[0] + out + ofl[1]]
        entries.append(e)
    if addinfo == 'mixed' and entries:
        # the documented use of additional_info: a recurrent mutation at a site that is already present without a suffix
        e = entries[int(rng.integers(len(entries)))]
        chrom, pos, info = split_key(e['key'])
        k2 = '%s_%d.%s' % (chrom, pos, 'b' if info is None else info + 'b')
        if info is not None:
            entries.append(dict(e, key='%s_%d' % (chrom, pos)))
        entries.append(dict(e, key=k2))
    ds = dict(kind='dict', pops=pops, ndip=base['ndip'], entries=entries, span=base['span'], full=False, addinfo=addinfo)
    ds['params'] = base['params']
    return ds

# ------------------------------------------------------------------------------------------------ statistics on complete data
def check_full_dataset(chk, ctx, ds):
    """complete, correctly polarised data through the VCF path: statistics from the spectrum vs counted on the matrix"""
    dadi = ctx['dadi']; M = dadi.Misc
    d = tempfile.mkdtemp(prefix='c13_')
    try:
        vcf, pop = render_vcf(ds, d)
        inp = dict(kind=ds['kind'], dataset=ds, at=dict(stage='full'))
        try:
            dd = M.make_data_dict_vcf(vcf, pop, filter=True)
        except Exception as e:
            chk.fail('make_data_dict_vcf:raises:%s' % type(e).__name__, 'make_data_dict_vcf raises %r' % (e,), inp); return
        pops = ds['pops']
        check_aa_lines(chk, ctx, ds, dd, True, 'full')
        # columns: derived = allele different from AA; a repeated CHROM_POS keeps the last line
        last = {}
        for s in ds['sites']:
            last['%s_%d' % (s['chrom'], s['pos'])] = s
        mcols = []
        for s in last.values():
            der = 1 if aa_value(s) == s['ref'].upper() else 0
            cols = []
            for p in pops:
                col = []
                for (nm, q), al in zip(ds['samples'], s['gts']):
                    if q == p: col += [1 if a == der else 0 for a in al]
                cols.append(col)
            mcols.append(cols)
        ns = [2 * n for n in ds['ndip']]
        for pi_, p in enumerate(pops):
            n = ns[pi_]
            cols = [c[pi_] for c in mcols]
            # direct count: entry k = number of columns with k derived alleles (corner entries included: columns that are
            # monomorphic in this population are SNPs of the data set all the same)
            hist = np.bincount([sum(c) for c in cols], minlength=n + 1).astype(float)
            ref = stats_direct(cols, n)
            sc = max(float(ref['S']), 1.0)
            mc0 = bool(ds['params']['configs'][0]['mask_corners'])
            fs = None; D = float('nan'); failed = False
            # the whole sequence on one object, for a spectrum with and one without masked corners:
            # build -> entries / total -> statistics -> entries / total again
            for omc in (mc0, not mc0):
                try:
                    obj = dadi.Spectrum.from_data_dict(dd, [p], [n], mask_corners=omc, polarized=True)
                except Exception as e:
                    chk.fail('stats:full:raises:%s' % type(e).__name__, 'from_data_dict raises %r' % (e,), inp); failed = True; break
                populated = bool(hist[0] != 0 or hist[-1] != 0)
                chk.stat('full:corner-entries=%s' % ('populated' if populated else 'empty'))
                for phase in ('', ':after-statistics'):
                    if phase:
                        try:
                            got = dict(S=float(obj.S()), pi=float(obj.pi()), W=float(obj.Watterson_theta()), thetaL=float(obj.theta_L()))
                            with np.errstate(all='ignore'):
                                Dv = float(obj.Tajima_D())
                        except Exception as e:
                            chk.fail('stats:full:raises:%s' % type(e).__name__, 'statistics raise %r' % (e,), inp); failed = True; break
                        chk.l3(('stats1', n, ref['S'] > 0, omc, populated))
                        for k in ('S', 'pi', 'W', 'thetaL'):
                            if not scalar_close(got[k], ref[k], scale=sc):
                                chk.fail('stats:%s' % k, '%s from the spectrum %.12g != %.12g counted on the genotype matrix (n=%d, mask_corners=%s)' % (k, got[k], float(ref[k]), n, omc), inp)
                        if ref['var'] > 0:
                            Dref = float(ref['pi'] - ref['W']) / math.sqrt(float(ref['var']))
                            if not scalar_close(Dv, Dref, rtol=1e-8, scale=abs(float(ref['pi']) + float(ref['W'])) / math.sqrt(float(ref['var']))):
                                chk.fail('stats:Tajima_D', "Tajima's D %.12g != %.12g from counted S and pi (n=%d, mask_corners=%s)" % (Dv, Dref, n, omc), inp)
                        check_pure(chk, ds, obj, dict(stage='full', pop=p, mask_corners=omc), 'full')
                        if omc == mc0: D = Dv
                    chk.l3(('direct-count', n, omc, populated, phase))
                    em = expected_mask([n], True, omc)
                    okk, err, scale = unmasked_close(obj, hist)
                    if not okk or not np.array_equal(np.ma.getmaskarray(obj), em):
                        chk.fail('from_data_dict:full:entries%s' % phase, 'complete data, mask_corners=%s: the spectrum is not the number of columns per derived-allele count %s: visible entries differ by %.3g, mask differs at %s'
                                 % (omc, hist.tolist(), err, [int(c[0]) for c in np.argwhere(np.ma.getmaskarray(obj) != em)[:4]]), inp)
                    want = float(np.sum(hist[~em]))
                    if abs(masked_total(obj) - want) > 1e-9 * max(want, 1.0):
                        chk.fail('from_data_dict:full:total%s' % phase, 'complete data, mask_corners=%s: fs.sum() = %.12g, the matrix has %g SNP columns outside the masked entries (%d in all)'
                                 % (omc, masked_total(obj), want, len(cols)), inp)
                if failed: break
                if omc == mc0: fs = obj
            if failed or fs is None: continue
            # pi survives projection (C13_pi_projection): project to a random m >= 2 and compare with the pairwise differences of the full matrix
            m = 2 + (ds['params']['bootseed'] + pi_) % (n - 1)
            try:
                pim = float(dadi.Spectrum.from_data_dict(dd, [p], [m], polarized=True).pi())
                chk.l3(('pi-projected', n, m == n, ref['S'] > 0))
                if not scalar_close(pim, ref['pi'], scale=sc):
                    chk.fail('stats:pi-projected', 'pi of the spectrum projected to %d of %d chromosomes %.12g != %.12g counted on the full matrix' % (m, n, pim, float(ref['pi'])), inp)
            except Exception as e:
                chk.fail('stats:pi-projected:raises:%s' % type(e).__name__, 'pi on a projected spectrum raises %r' % (e,), inp)
            check_projected_stats(chk, ctx, ds, dd, p, cols, n, m, ref, dict(inp, at=dict(stage='full', pop=p, project_to=m)))
            if n > 2:
                m2 = 2 + (ds['params']['subseed'] + 3 * pi_) % (n - 2)             # a proper projection (m < n)
                check_projected_stats(chk, ctx, ds, dd, p, cols, n, m2, ref, dict(inp, at=dict(stage='full', pop=p, project_to=m2)))
            if have_driver(ctx):
                cw = ';'.join(''.join(map(str, c)) for c in cols) if cols else '-'
                out = ask(ctx, 'direct1 %d %s' % (n, cw))
                if out.startswith('ok '):
                    a, b = out[3:].split(' | ')
                    da = [Fraction(t) for t in a.split(' ')]; db = [Fraction(t) for t in b.split(' ')]
                    exp = [ref['S'], ref['pi'], ref['W'], ref['thetaL'], ref['var']]
                    if da == db == exp: chk.k_ok('direct1')
                    else: kbad(chk, 'direct1', ds, exp, dict(direct=da, spectrum=db), None, dict(stage='full', pop=p))
                    if ref['var'] > 0:
                        sq = math.sqrt(float(ref['var']))
                        o2 = ask(ctx, 'direct_tajima %s %d %s' % (rat(sq), n, cw))
                        if o2.startswith('ok '):
                            x, y = [Fraction(t) for t in o2[3:].split(' ')]
                            if x == y and scalar_close(D, x, rtol=1e-8, scale=abs(float(ref['pi']) + float(ref['W'])) / sq): chk.k_ok('direct_tajima')
                            else: kbad(chk, 'direct_tajima', ds, D, (x, y), None, dict(stage='full', pop=p))
                else:
                    kbad(chk, 'direct1', ds, None, out, None, dict(stage='full', pop=p))
        if len(pops) >= 2 and int(np.prod([n + 1 for n in ns])) <= 9000:
            A, BC = fst_direct(mcols, ns)
            histn = np.zeros(tuple(n + 1 for n in ns))
            for cols in mcols:
                histn[tuple(sum(c) for c in cols)] += 1
            populated = bool(histn.flat[0] != 0 or histn.flat[-1] != 0)
            F = float('nan')
            for omc in (True, False):
                try:
                    obj = dadi.Spectrum.from_data_dict(dd, pops, ns, mask_corners=omc, polarized=True)
                except Exception as e:
                    chk.fail('Fst:full:raises:%s' % type(e).__name__, 'from_data_dict raises %r' % (e,), inp); return
                em = expected_mask(ns, True, omc)
                for phase in ('', ':after-statistics'):
                    if phase:
                        try:
                            with np.errstate(all='ignore'):
                                Fv = float(obj.Fst())
                        except Exception as e:
                            chk.fail('Fst:full:raises:%s' % type(e).__name__, 'Fst raises %r' % (e,), inp); return
                        chk.l3(('fst', len(pops), A + BC != 0, omc, populated))
                        if A + BC != 0 and not scalar_close(Fv, A / (A + BC), rtol=1e-8, scale=1.0):
                            chk.fail('stats:Fst', 'Fst from the spectrum (mask_corners=%s) %.12g != %.12g from Weir-Cockerham sums over the SNPs' % (omc, Fv, float(A / (A + BC))), inp)
                        check_pure(chk, ds, obj, dict(stage='full', mask_corners=omc), 'full:nd')
                        if omc: F = Fv
                    okk, err, scale = unmasked_close(obj, histn)
                    want = float(np.sum(histn[~em]))
                    if not okk or not np.array_equal(np.ma.getmaskarray(obj), em) or abs(masked_total(obj) - want) > 1e-9 * max(want, 1.0):
                        chk.fail('from_data_dict:full:entries-nd%s' % phase, 'complete data, %d populations, mask_corners=%s: the spectrum is not the count of columns per derived-count vector (visible entries differ by %.3g, mask differs at %s, fs.sum() = %.12g vs %g)'
                                 % (len(pops), omc, err, [tuple(int(x) for x in c) for c in np.argwhere(np.ma.getmaskarray(obj) != em)[:4]], masked_total(obj), want), inp)
            if A + BC != 0:
                Fref = A / (A + BC)
                if have_driver(ctx):
                    mw = ';'.join('|'.join(''.join(map(str, c)) for c in cols) for cols in mcols)
                    out = ask(ctx, 'direct_fst %s %s' % (','.join(map(str, ns)), mw))
                    if out.startswith('ok '):
                        x, y = [Fraction(t) for t in out[3:].split(' ')]
                        if x == y == Fref: chk.k_ok('direct_fst')
                        else: kbad(chk, 'direct_fst', ds, Fref, (x, y), None, dict(stage='full'))
                    else:
                        kbad(chk, 'direct_fst', ds, Fref, out, None, dict(stage='full'))
        chk.stat('full:npop=%d' % len(pops))
        check_pipeline(chk, ctx, ds, vcf, pop, pops, Codes())
    finally:
        shutil.rmtree(d, ignore_errors=True)

# ------------------------------------------------------------------------------------------------ round 5 extension: polarisation table, fold mask, projected statistics
POL_REP = {0: '-', 1: 'A', 2: 'C', 3: 'G'}
POL_STRINGS = ['-', 'A', 'C', 'G', 'T', 'N', 'a', 'AT', 'AC', '', '.', 'n', 'ACGT', '--']

def pol_expected(og, a1, a2):
    """the statement: polarised iff an outgroup allele is recorded, is not '-' and is one of the two segregating alleles; the derived
    allele is then the other one; otherwise the second allele is the one counted.  Returns (polarised, 1 or 2)"""
    polz = og is not None and og != '-' and og in (a1, a2)
    return polz, (2 if (not polz or a1 == og) else 1)

def pol_class(og, a1, a2):
    return 'missing' if og is None else 'dash' if og == '-' else 'allele1' if og == a1 else 'allele2' if og == a2 else 'third'

def pol_impl(dadi, og, a1, a2):
    """what the real count_data_dict / from_data_dict make of a single SNP with these allele strings: (polarised, derived 1/2, totals)"""
    v = dict(segregating=(a1, a2), calls={'p': (3, 5)})
    if og is not None: v['outgroup_allele'] = og
    dd = {'c_7': v}
    cd = dict(dadi.Misc.count_data_dict(dd, ['p']))
    if len(cd) != 1: return None
    (succ, der, polz), cnt = list(cd.items())[0]
    d = 2 if tuple(der) == (5,) else 1 if tuple(der) == (3,) else None
    tp = float(np.sum(dadi.Spectrum.from_data_dict(dd, ['p'], [4], mask_corners=False, polarized=True).data))
    tu = float(np.sum(dadi.Spectrum.from_data_dict(dd, ['p'], [4], mask_corners=False, polarized=False).data))
    return bool(polz), d, tp, tu

def check_pol_table(chk, ctx, rng, count):
    """C13_polarised_table on the real code: the three-way test for a usable ancestral allele, pattern by pattern (every equality pattern
    among '-', allele1, allele2, outgroup allele / no key: the 80 representatives the generated table is built from) and on other strings
    (multi-character, lower case, empty) — L3 against the statement, K against the generated table (`poltable`) and the model's
    decision under the canonical key (`polrow`)"""
    dadi = ctx['dadi']
    cases = [(None if og is None else POL_REP[og], POL_REP[a1], POL_REP[a2], (og, a1, a2))
             for og in (None, 0, 1, 2, 3) for a1 in range(4) for a2 in range(4)]
    for it in range(count):
        a1, a2 = [str(x) for x in rng.choice(POL_STRINGS, size=2)]
        u = rng.random()
        og = None if u < 0.15 else a1 if u < 0.4 else a2 if u < 0.65 else str(rng.choice(POL_STRINGS))
        cases.append((og, a1, a2, None))
    table = None
    if have_driver(ctx):
        out = ask(ctx, 'poltable')
        if out.startswith('ok '):
            table = {}
            for t in out[3:].split(';'):
                o, x, y, pz, dr = t.split(':')
                table[(None if o == '-' else int(o), int(x), int(y))] = (pz == '1', None if dr == '-' else int(dr))
        else:
            chk.k_bad('poltable', dict(kind='poltable'), None, out, None)
    for og, a1, a2, rep in cases:
        inp = dict(kind='poltable', og=og, a1=a1, a2=a2)
        cls = pol_class(og, a1, a2)
        chk.l3(('poltable', cls, a1 == a2, a1 == '-', a2 == '-', rep is not None))
        chk.stat('poltable:' + cls)
        try:
            got = pol_impl(dadi, og, a1, a2)
        except Exception as e:
            chk.fail('count_data_dict:polarisation:%s:raises:%s' % (cls, type(e).__name__), 'count_data_dict / from_data_dict raise %r on a SNP with segregating=(%r, %r), outgroup_allele=%r' % (e, a1, a2, og), inp)
            continue
        polz, der = pol_expected(og, a1, a2)
        if got is None or got[0] != polz or got[1] != der:
            chk.fail('count_data_dict:polarisation:%s' % cls, 'a SNP with segregating=(%r, %r) and outgroup_allele=%r (%s) is counted as (polarised, derived allele) = %r; the usable-ancestral-allele test says (%s, %d): polarised iff the outgroup allele is recorded, is not \'-\' and is one of the two segregating alleles'
                     % (a1, a2, og, cls, None if got is None else got[:2], polz, der), inp)
        elif abs(got[2] - (1.0 if polz else 0.0)) > 1e-9 or abs(got[3] - 1.0) > 1e-9:
            chk.fail('from_data_dict:polarisation:%s' % cls, 'a SNP with outgroup_allele=%r (%s), segregating=(%r, %r), 8 calls contributes %.6g to the polarised and %.6g to the folded spectrum at projection 4; expected %d and 1 (no usable ancestral allele => unpolarised only)'
                     % (og, cls, a1, a2, got[2], got[3], 1 if polz else 0), inp)
        if have_driver(ctx) and got is not None:
            if rep is not None and table is not None:
                if table.get(rep) == (got[0], got[1]): chk.k_ok('poltable')
                else: chk.k_bad('poltable', inp, (got[0], got[1]), table.get(rep), None)
            out = ask(ctx, 'polrow %s %d %d' % ('-' if og is None else allele_code(og), allele_code(a1), allele_code(a2)))
            mod = None
            if out.startswith('ok '):
                a, b = out[3:].split(' ')
                mod = (a == '1', None if b == '-' else int(b))
            if mod == (got[0], got[1]): chk.k_ok('polrow')
            else: chk.k_bad('polrow', inp, (got[0], got[1]), out, None)

def replay_pol(chk, ctx, inp):
    dadi = ctx['dadi']; og, a1, a2 = inp.get('og'), inp['a1'], inp['a2']
    cls = pol_class(og, a1, a2)
    chk.l3(('poltable', cls))
    try:
        got = pol_impl(dadi, og, a1, a2)
    except Exception as e:
        chk.fail('count_data_dict:polarisation:%s:raises:%s' % (cls, type(e).__name__), 'raises %r' % (e,), inp); return
    polz, der = pol_expected(og, a1, a2)
    if got is None or got[0] != polz or got[1] != der:
        chk.fail('count_data_dict:polarisation:%s' % cls, 'segregating=(%r, %r), outgroup_allele=%r: counted as %r, expected (%s, %d)' % (a1, a2, og, None if got is None else got[:2], polz, der), inp)
    elif abs(got[2] - (1.0 if polz else 0.0)) > 1e-9 or abs(got[3] - 1.0) > 1e-9:
        chk.fail('from_data_dict:polarisation:%s' % cls, 'contributes %.6g (polarised) / %.6g (folded)' % (got[2], got[3]), inp)

def fold_mask_expected(proj, m):
    """mask of fs.fold() for a spectrum with mask m: an entry is masked iff it or its mirror image was, or it lies in the folded-out half,
    or it is one of the two corners (fold builds its result with the constructor default mask_corners=True)"""
    shape = tuple(p + 1 for p in proj); T = sum(proj)
    out = np.zeros(shape, dtype=bool)
    for idx in itertools.product(*[range(x) for x in shape]):
        mir = tuple(p - j for p, j in zip(proj, idx))
        corner = all(j == 0 for j in idx) or idx == tuple(proj)
        out[idx] = bool(m[idx]) or bool(m[mir]) or sum(idx) > T // 2 or corner
    return out

def fold_mask_case(chk, ctx, proj, m, inp):
    dadi = ctx['dadi']
    shape = tuple(p + 1 for p in proj)
    try:
        with warnings.catch_warnings():
            warnings.simplefilter('ignore')
            fs = dadi.Spectrum(np.ones(shape), mask=m.copy(), mask_corners=False)
            got = np.asarray(np.ma.getmaskarray(fs.fold()))
            kept = np.array_equal(np.ma.getmaskarray(fs), m)
    except Exception as e:
        chk.fail('fold:mask:raises:%s' % type(e).__name__, 'Spectrum(mask=…).fold() raises %r' % (e,), inp); return
    chk.l3(('foldmask', len(proj), bool(m.any()), sum(proj) % 2))
    exp = fold_mask_expected(proj, m)
    if not kept or not np.array_equal(got, exp):
        chk.fail('fold:mask', 'mask of fs.fold() for a spectrum of sample sizes %s with mask %s is not (mask | mirrored mask | folded-out half | corners): differs at %s'
                 % (list(proj), m.astype(int).tolist(), [tuple(int(x) for x in c) for c in np.argwhere(got != exp)[:4]]), inp)
    if have_driver(ctx):
        out = ask(ctx, 'foldmask %s %s' % (','.join(map(str, proj)), common.fmt_nd(m.astype(int))))
        if out.startswith('ok '):
            mm = nd_float(out[3:].strip()).astype(bool)
            if mm.shape == got.shape and np.array_equal(mm, got): chk.k_ok('foldmask')
            else: chk.k_bad('foldmask', inp, got.astype(int).tolist(), mm.astype(int).tolist(), None)
        else:
            chk.k_bad('foldmask', inp, got.astype(int).tolist(), out, None)

def check_fold_mask(chk, ctx, rng, count):
    """C13_fold_mask / C13_mask: the mask Spectrum.fold computes, for arbitrary input masks (K `foldmask`, L3 the closed form)"""
    for it in range(count):
        d = int(rng.choice([1, 1, 2, 2, 3]))
        proj = [int(rng.integers(1, 6 if d < 3 else 4)) for _ in range(d)]
        shape = tuple(p + 1 for p in proj)
        dens = float(rng.choice([0.0, 0.1, 0.3, 0.6]))
        m = rng.random(shape) < dens
        fold_mask_case(chk, ctx, proj, m, dict(kind='foldmask', proj=proj, mask=m.astype(int).tolist()))

def proj_stats_oracle(cols, n, m):
    """statistics of the spectrum of the columns `cols` (n chromosomes each) projected to m, as expectations over drawing m of the n
    chromosomes of every column (hypergeometric probabilities, exact)"""
    f = [sum(hyp(m, n, sum(c), j) for c in cols) for j in range(m + 1)]
    S = sum(f[1:m]) if m >= 1 else Fraction(0)
    a1 = sum(Fraction(1, k) for k in range(1, m)); a2 = sum(Fraction(1, k * k) for k in range(1, m))
    W = S / a1
    tl = sum(j * f[j] for j in range(1, m)) / (m - 1)
    pi = Fraction(2 * m, m - 1) * sum(f[j] * Fraction(j, m) * (1 - Fraction(j, m)) for j in range(m + 1))
    b1 = Fraction(m + 1, 3 * (m - 1)); b2 = Fraction(2 * (m * m + m + 3), 9 * m * (m - 1))
    c1 = b1 - 1 / a1; c2 = b2 - Fraction(m + 2, 1) / (a1 * m) + a2 / a1 ** 2
    var = c1 / a1 * S + c2 / (a1 ** 2 + a2) * S * (S - 1)
    # the same quantities column by column, as the theorems state them (C13_S_projection, C13_thetaL_projection)
    S2 = sum(1 - hyp(m, n, sum(c), 0) - hyp(m, n, sum(c), m) for c in cols)
    tl2 = sum(Fraction(m * sum(c), n) - m * hyp(m, n, sum(c), m) for c in cols) / (m - 1)
    return dict(S=S, W=W, thetaL=tl, pi=pi, var=var, S_cols=S2, thetaL_cols=tl2)

def check_projected_stats(chk, ctx, ds, dd, p, cols, n, m, ref, inp):
    """what survives projection and what does not (C13_*_projection): pi of the projected spectrum is the full-data pi; S, Watterson's
    theta, theta_L and Tajima's D are those of the expected sub-sample (S never above the full-data S)"""
    dadi = ctx['dadi']
    if m < 2 or m > n: return
    o = proj_stats_oracle(cols, n, m)
    sc = max(float(ref['S']), 1.0)
    try:
        fs = dadi.Spectrum.from_data_dict(dd, [p], [m], mask_corners=bool(m % 2), polarized=True)
        got = dict(S=float(fs.S()), pi=float(fs.pi()), W=float(fs.Watterson_theta()), thetaL=float(fs.theta_L()))
        with np.errstate(all='ignore'):
            D = float(fs.Tajima_D())
    except Exception as e:
        chk.fail('stats:projected:raises:%s' % type(e).__name__, 'statistics of a projected spectrum raise %r' % (e,), inp); return
    chk.l3(('stats-projected', n, m == n, ref['S'] > 0, o['S'] < ref['S']))
    chk.stat('projected:S=%s' % ('same' if o['S'] == ref['S'] else 'smaller'))
    if o['S'] != o['S_cols'] or o['thetaL'] != o['thetaL_cols'] or o['S'] > ref['S'] or o['pi'] != ref['pi']:
        chk.fail('stats:projected:oracle', 'the column-by-column forms (1 - w0 - wm; m i/n - m wm) disagree with the projected spectrum, or S grew, or pi changed: %r vs full %r' % (o, ref), inp)
    for k, want in (('S', o['S']), ('W', o['W']), ('thetaL', o['thetaL']), ('pi', ref['pi'])):
        if not scalar_close(got[k], want, scale=sc):
            chk.fail('stats:projected:%s' % k, '%s of the spectrum projected from %d to %d chromosomes is %.12g; the expected sub-sample of the genotype matrix gives %.12g (full data: %.12g)'
                     % (k, n, m, got[k], float(want), float(ref[k])), inp)
    sq = None
    if o['var'] > 0:
        sq = math.sqrt(float(o['var']))
        Dref = float(ref['pi'] - o['W']) / sq
        if not scalar_close(D, Dref, rtol=1e-8, scale=abs(float(ref['pi']) + float(o['W'])) / sq):
            chk.fail('stats:projected:Tajima_D', "Tajima's D of the spectrum projected from %d to %d is %.12g; full-data pi and the projected S give %.12g" % (n, m, D, Dref), inp)
    if have_driver(ctx):
        cw = ';'.join(''.join(map(str, c)) for c in cols) if cols else '-'
        out = ask(ctx, 'projstats %s %d %d %s' % (rat(sq if sq is not None else 1.0), m, n, cw))
        if out.startswith('ok '):
            a, b = out[3:].split(' | ')
            da = [Fraction(t) for t in a.split(' ')]; db = [Fraction(t) for t in b.split(' ')]
            exp = [o['S'], o['W'], o['thetaL'], o['var']]
            if da[:4] == db[:4] == exp and da[4] == db[4] and (sq is None or scalar_close(D, da[4], rtol=1e-8, scale=abs(float(ref['pi']) + float(o['W'])) / sq)):
                chk.k_ok('projstats')
            else:
                kbad(chk, 'projstats', ds, exp + [D], dict(direct=da, spectrum=db), None, inp.get('at'))
        else:
            kbad(chk, 'projstats', ds, None, out, None, inp.get('at'))

# ------------------------------------------------------------------------------------------------ small ties
def check_weights(chk, ctx, rng, count):
    """the local projection weight of the model vs Numerics._cached_projection (property C08 owns that function)"""
    dadi = ctx['dadi']
    for it in range(count):
        n = int(rng.integers(1, 30)); m = int(rng.integers(1, n + 3)); i = int(rng.integers(0, n + 1))
        row = np.asarray(dadi.Numerics._cached_projection(m, n, i), dtype=float)
        ref = [hyp(m, n, i, j) for j in range(m + 1)]
        chk.l3(('weights', m <= n, i in (0, n)))
        if not close(row, [float(x) for x in ref])[0]:
            chk.fail('cached_projection:row', '_cached_projection(%d,%d,%d) is not the hypergeometric row' % (m, n, i), dict(kind='weights', m=m, n=n, i=i))
        if have_driver(ctx):
            out = ask(ctx, 'projrow13 %d %d %d' % (m, n, i))
            mod = parse_list(out[3:]) if out.startswith('ok ') else None
            if mod is not None and mod == ref and close(row, [float(x) for x in mod])[0]: chk.k_ok('projrow13')
            else: chk.k_bad('projrow13', dict(kind='weights', m=m, n=n, i=i), row, mod, None)

def check_dp_dataset(chk, ctx, ds):
    """missing data expressed through depth (DP = 0 / '.', AD = 0,0) instead of './.': such a sample carries no call.
    L3 on the dictionary + K (the model's `nodata` flag)."""
    dadi = ctx['dadi']; M = dadi.Misc
    codes = Codes()
    d = tempfile.mkdtemp(prefix='c13_')
    try:
        vcf, pop = render_vcf(ds, d)
        filt = ds['params']['filter']
        inp = dict(kind=ds['kind'], dataset=ds, at=dict(stage='dp'))
        try:
            dd = M.make_data_dict_vcf(vcf, pop, filter=filt)
        except Exception as e:
            chk.fail('make_data_dict_vcf:dp:raises:%s' % type(e).__name__, 'make_data_dict_vcf raises %r' % (e,), inp); return
        od = oracle_entries_vcf(ds, filt)
        chk.l3(('dp', ds['fmt'], any(any(s['nodata']) for s in ds['sites'])))
        if sorted(dd.keys()) == sorted(od.keys()):
            for k, e in od.items():
                v = dd[k]
                if any(tuple(v['calls'].get(p, ())) != e['counts'][p] for p in e['counts']):
                    last = [s for s in ds['sites'] if '%s_%d' % (s['chrom'], s['pos']) == k][-1]
                    lastcol = bool(last['nodata'][-1]) and ds['samples'][-1][1] is not None
                    key = 'make_data_dict_vcf:dp0-counted:fmt=%s%s' % (ds['fmt'], ':last-column' if lastcol and ds['fmt'].split(':')[-1] in ('DP', 'AD') else '')
                    chk.fail(key, 'a sample with no reads (FORMAT %s, depth fields say 0) is counted as called: SNP %s parsed calls %r, expected %r'
                             % (ds['fmt'], k, v['calls'], e['counts']), inp)
                    break
        else:
            chk.fail('make_data_dict_vcf:dp:keys', 'keys differ', inp)
        if have_driver(ctx):
            pops = ds['pops']
            out = ask(ctx, 'dd_vcf %d %s %s' % (filt, ','.join(map(str, range(len(pops)))), sites_wire(ds, codes)))
            ie = impl_entries(dd, pops, codes)
            if out.startswith('ok ') and entries_equal(parse_snps(out[3:]), ie): chk.k_ok('dd_vcf:dp')
            else: kbad(chk, 'dd_vcf:dp', ds, ie, out[:2000], None, dict(stage='dp'))
    finally:
        shutil.rmtree(d, ignore_errors=True)

def gen_trim_dataset(rng, tier):
    """missing calls written the short way: FORMAT GT:<depth fields…>, a sample without a call is just `./.` (the VCF specification allows
    trailing fields of a sample to be dropped; GATK and others write no-calls like this)"""
    ds = gen_dataset(rng, tier, kind='trim')
    ds['fmt'] = str(rng.choice(['GT:DP', 'GT:AD:DP', 'GT:DP:AD', 'GT:GQ:DP', 'GT:GQ']))
    ds['trim'] = True
    for s in ds['sites']:
        for k in rng.choice(len(ds['samples']), size=int(rng.integers(0, 3)), replace=False):
            s['gts'][int(k)] = [9, 9]
    return ds

def check_trim_dataset(chk, ctx, ds):
    """the same clauses as for any VCF (dictionary = matrix, sub-sampling, the composed entry point), keys suffixed
    `trailing-fields-dropped` so that a finding here cannot hide anything in the main streams"""
    dadi = ctx['dadi']; M = dadi.Misc
    codes = Codes()
    d = tempfile.mkdtemp(prefix='c13_')
    try:
        vcf, pop = render_vcf(ds, d)
        filt = ds['params']['filter']; pops = ds['pops']
        inp = dict(kind=ds['kind'], dataset=ds, at=dict(stage='trim'))
        ntrim = sum(1 for s in ds['sites'] for al in s['gts'] if al == [9, 9])
        chk.l3(('trim', ds['fmt'], ntrim > 0, filt))
        chk.stat('trim:samples-written-short', ntrim)
        try:
            dd = M.make_data_dict_vcf(vcf, pop, filter=filt)
        except Exception as e:
            chk.fail('make_data_dict_vcf:raises:%s:trailing-fields-dropped' % type(e).__name__, 'make_data_dict_vcf raises %r on a VCF (FORMAT %s) in which samples without a call are written `./.`' % (e, ds['fmt']), inp); return
        od = oracle_entries_vcf(ds, filt)
        if sorted(dd.keys()) != sorted(od.keys()) or any(
                dd[k]['outgroup_allele'] != e['out'] or any(tuple(dd[k]['calls'].get(p, ())) != e['counts'][p] for p in e['counts']) for k, e in od.items()):
            chk.fail('make_data_dict_vcf:entries:trailing-fields-dropped', 'the data dictionary is not the matrix (FORMAT %s, samples without a call written `./.`)' % ds['fmt'], inp)
        if have_driver(ctx):
            present = [p for p in pops if any(s[1] == p for s in ds['samples'])]
            out = ask(ctx, 'dd_vcf %d %s %s' % (filt, ','.join(str(pops.index(p)) for p in present) if present else '-', sites_wire(ds, codes)))
            ie = impl_entries(dd, present, codes)
            if out.startswith('ok ') and entries_equal(parse_snps(out[3:]), ie): chk.k_ok('dd_vcf:trim')
            else: kbad(chk, 'dd_vcf:trim', ds, ie, out[:2000], None, dict(stage='trim'))
        if any(not any(s[1] == p for s in ds['samples']) for p in pops): return
        check_subsample(chk, ctx, ds, vcf, pop, pops, codes)
        check_pipeline(chk, ctx, ds, vcf, pop, pops, codes)
    finally:
        shutil.rmtree(d, ignore_errors=True)

MULTI_ALT = ['C,G', 'A,T', 'G,C,T', 'T,*', 'A,<DEL>', 'c,g']
def gen_gt_dataset(rng, tier):
    """every shape a GT field can take, in both branches of the reader: diploid calls, HALF calls with the missing allele in either
    position (`0/.`, `./1`, `.|0`), haploid calls (`0`, `1`, `.`: males on X, mitochondria), polyploid calls (`0/1/1`, `1|.|0`, `././.`),
    `/` and `|` mixed within a line, samples whose depth says 'no reads' although a GT is written, trailing fields dropped for samples
    without any call, and multi-allelic lines (never SNP lines) whose genotypes carry allele indices >= 2."""
    ds = gen_dataset(rng, tier, kind='gt')
    ds['fmt'] = 'GT' if rng.random() < 0.35 else str(rng.choice(['GT:DP', 'DP:GT', 'GT:AD:DP', 'GT:GQ', 'GQ:GT', 'GT:GQ:PL']))
    ds['trim'] = bool(ds['fmt'].startswith('GT:') and rng.random() < 0.5)
    ds['sep'] = 'mixed' if rng.random() < 0.6 else str(rng.choice(['/', '|']))
    has_dp = 'DP' in ds['fmt'].split(':')
    n = len(ds['samples'])
    ploidy = [int(rng.choice([2, 2, 2, 2, 1, 3, 4])) if rng.random() < 0.5 else 2 for _ in range(n)]
    pmiss = float(rng.choice([0.1, 0.3, 0.5]))
    for s in ds['sites']:
        q = float(rng.choice([0.1, 0.5, 0.9]))
        s['dpstyle'] = 'zero' if rng.random() < 0.6 else 'dot'
        for k in range(n):
            pl = ploidy[k] if rng.random() < 0.9 else int(rng.choice([1, 2, 3]))
            al = [int(rng.random() < q) for _ in range(pl)]
            u = rng.random()
            if u < pmiss * 0.5:
                al = [9] * pl
            elif u < pmiss:
                m = [bool(rng.random() < 0.5) for _ in range(pl)]
                if not any(m): m[int(rng.integers(pl))] = True
                if all(m) and pl > 1: m[int(rng.integers(pl))] = False
                al = [9 if mm else a for a, mm in zip(al, m)]
            s['gts'][k] = al
            s['nodata'][k] = bool(has_dp and rng.random() < 0.08)
    span = ds['span']; chroms = sorted(set(s['chrom'] for s in ds['sites']))
    for j in range(int(rng.integers(1, 5))):
        ref = str(rng.choice(list(BASES)))
        gts = [[int(rng.choice([0, 1, 2, 3, 2, 9])) for _ in range(ploidy[k])] for k in range(n)]
        ds['sites'].insert(int(rng.integers(0, len(ds['sites']) + 1)),
                           dict(chrom=chroms[j % len(chroms)], pos=2 * span + 7 + j, ref=ref, alt=str(rng.choice(MULTI_ALT)), filt='PASS', aa=ref, aakey='AA',
                                info=['AA=%s' % ref], gts=gts, nodata=[False] * n, dpstyle=None, nonsnp=True))
    P = len(ds['pops'])
    par = ds['params']
    # requests: a random one, and ALL individuals of every population (then both branches of the reader must agree wherever the
    # sub-sampling one keeps the line)
    req = {}
    for p in range(P):
        if rng.random() < 0.85 or not req: req[ds['pops'][p]] = int(rng.integers(1, max(2, ds['ndip'][p] // 2 + 1)))
    items = [[k, req[k]] for k in req]
    if len(items) > 1 and rng.random() < 0.6: items = [items[int(i)] for i in rng.permutation(len(items))]
    par['subsample'] = items
    par['subsample_all'] = [[p, nn] for p, nn in zip(ds['pops'], ds['ndip'])]
    return ds

def gt_class(al):
    if all(a == 9 for a in al): return 'nocall'
    if 9 in al: return 'half' if len(al) == 2 else 'partial'
    return 'called'

def run_subsample(M, vcf, pop, sub, filt, seed):
    """make_data_dict_vcf(subsample=…) with the draws recorded at numpy.random.choice: (dictionary, [(candidates, size, replace, drawn)])"""
    rec = []
    orig = np.random.choice
    def choice(a, size=None, replace=True, p=None):
        r = orig(a, size, replace=replace)
        rec.append(([int(x) for x in a], int(size), bool(replace), [int(x) for x in np.atleast_1d(r)]))
        return r
    np.random.seed(seed % (2 ** 32))
    np.random.choice = choice
    try:
        return M.make_data_dict_vcf(vcf, pop, subsample=dict(sub), filter=filt), rec
    finally:
        np.random.choice = orig

def sample_fields(ds, site, k):
    """(GT, AD, DP) texts of one sample column as a reader finds them under the FORMAT of the line: None = FORMAT has no such field, or
    the sample's trailing fields were dropped"""
    fmt = ds['fmt'].split(':'); fields = sample_text(ds, site, k).split(':')
    def get(name):
        return fields[fmt.index(name)] if name in fmt and fmt.index(name) < len(fields) else None
    return get('GT'), get('AD'), get('DP')

def samples_wire(ds, site):
    def opt(t): return 'x' if t is None else hexs(t)
    out = []
    for k, (nm, p) in enumerate(ds['samples']):
        gt, ad, dp = sample_fields(ds, site, k)
        out.append('%s:%s:%s:%s' % ('-' if p is None else ds['pops'].index(p), hexs(gt), opt(ad), opt(dp)))
    return '+'.join(out)

def check_gtpool(chk, ctx, ds, filt, sub, rec, sinp):
    """K on the sample texts as written (generated `vcfSubDrawable`): the number of individuals offered to every draw of the real run, line
    by line and population by population, against the model's loop over the GT / DP texts"""
    lines = [s for s in ds['sites'] if is_snp_line(s, filt)]
    if not lines: return
    want = '+'.join('%d:%d' % (ds['pops'].index(p), k) for p, k in sub.items())
    out = ask(ctx, 'gtpool %s %s' % (want, ';'.join(samples_wire(ds, s) for s in lines)))
    impl = [len(a) for a, size, repl, r in rec]
    if out.startswith('ok '):
        model = [] if out[3:].strip() == '-' else [int(x) for x in out[3:].strip().split(',')]
        if model == impl: chk.k_ok('gtpool')
        else: kbad(chk, 'gtpool', ds, impl, model, None, sinp['at'])
    else:
        kbad(chk, 'gtpool', ds, impl, out[:300], None, sinp['at'])

def check_gtcalls(chk, ctx, ds, dd, filt, present):
    """K on the sample texts (generated `vcfNoSubSkip`, stride and tokens): the calls of the branch without sub-sampling, line by line"""
    lines = [s for s in ds['sites'] if is_snp_line(s, filt)]
    if not lines or not present: return
    out = ask(ctx, 'gtcalls %s %s' % (','.join(str(ds['pops'].index(p)) for p in present), ';'.join(samples_wire(ds, s) for s in lines)))
    impl = {}
    if out.startswith('ok '):
        model = {}
        for s, t in zip(lines, out[3:].strip().split(';')):
            model['%s_%d' % (s['chrom'], s['pos'])] = [tuple(int(x) for x in u.split(':')) for u in t.split('+')]       # a later line replaces
        impl = {k: [tuple(int(x) for x in v['calls'].get(p, (-1, -1))) for p in present] for k, v in dd.items()}
        if model == impl: chk.k_ok('gtcalls')
        else:
            diff = [k for k in list(model) + list(impl) if model.get(k) != impl.get(k)][:3]
            kbad(chk, 'gtcalls', ds, {k: impl.get(k) for k in diff}, {k: model.get(k) for k in diff}, None, dict(stage='genotypes'))
    else:
        kbad(chk, 'gtcalls', ds, None, out[:300], None, dict(stage='genotypes'))

def check_gt_dataset(chk, ctx, ds):
    """the genotype-token decisions of BOTH branches of make_data_dict_vcf.  Statement: without sub-sampling every called chromosome of a
    sample that has reads is counted once (REF index 0, ALT index 1), a missing allele is not counted, whatever the ploidy, the phasing
    separator and the position of the missing allele; with sub-sampling an individual can be drawn iff NO allele of its GT is missing
    (and its depth does not say 'no reads'), exactly the requested number of such individuals is used per SNP and population, each of
    their chromosomes counted once; asking for all individuals gives, on the lines that are kept, the counts of the other branch."""
    dadi = ctx['dadi']; M = dadi.Misc
    codes = Codes()
    d = tempfile.mkdtemp(prefix='c13_')
    try:
        vcf, pop = render_vcf(ds, d)
        par = ds['params']; filt = par['filter']; pops = ds['pops']
        inp = dict(kind=ds['kind'], dataset=ds, at=dict(stage='genotypes'))
        snp_sites = [s for s in ds['sites'] if is_snp_line(s, filt)]
        seen = {}
        for s in snp_sites:
            for (nm, p), al in zip(ds['samples'], s['gts']):
                if p is None: continue
                c = (len(al) if len(al) < 4 else 4, gt_class(al), (al.index(9) == 0) if 9 in al and gt_class(al) != 'nocall' else None)
                seen[c] = seen.get(c, 0) + 1
        for (pl, cl, first), cnt in seen.items():
            chk.stat('gt:ploidy=%d:%s%s' % (pl, cl, '' if first is None else ':missing-first' if first else ':missing-later'), cnt)
        chk.stat('gt:lines-with-allele-index>=2', sum(1 for s in ds['sites'] if any(a not in (0, 1, 9) for al in s['gts'] for a in al)))
        chk.l3(('gt', ds['fmt'], ds['sep'], bool(ds.get('trim')), tuple(sorted(k[:2] for k in seen))[:6]))
        # ---- branch without sub-sampling
        try:
            dd = M.make_data_dict_vcf(vcf, pop, filter=filt)
        except Exception as e:
            chk.fail('make_data_dict_vcf:genotypes:raises:%s' % type(e).__name__, 'make_data_dict_vcf raises %r (FORMAT %s, genotypes of mixed ploidy / half calls)' % (e, ds['fmt']), inp); return
        od = oracle_entries_vcf(ds, filt)
        if sorted(dd.keys()) != sorted(od.keys()):
            chk.fail('make_data_dict_vcf:genotypes:keys', 'the data dictionary does not hold exactly the biallelic SNP lines (%d parsed, %d expected; multi-allelic lines are never SNP lines)' % (len(dd), len(od)), inp); return
        for k, e in od.items():
            got = {p: tuple(int(x) for x in dd[k]['calls'].get(p, ())) for p in e['counts']}
            if got != e['counts']:
                chk.fail('make_data_dict_vcf:genotypes:counts', 'SNP %s: calls %r; counting every called chromosome once gives %r' % (k, got, e['counts']), inp); break
        present = [p for p in pops if any(s[1] == p for s in ds['samples'])]
        if have_driver(ctx):
            out = ask(ctx, 'dd_vcf %d %s %s' % (filt, ','.join(str(pops.index(p)) for p in present) if present else '-', sites_wire(ds, codes)))
            ie = impl_entries(dd, present, codes)
            if out.startswith('ok ') and entries_equal(parse_snps(out[3:]), ie): chk.k_ok('dd_vcf:gt')
            else: kbad(chk, 'dd_vcf:gt', ds, ie, out[:2000], None, dict(stage='genotypes'))
            check_gtcalls(chk, ctx, ds, dd, filt, present)
        if present != pops: return
        # ---- sub-sampling branch: a random request, then all individuals
        for which in ('subsample', 'subsample_all'):
            sub = as_dict(par[which])
            sinp = dict(kind=ds['kind'], dataset=ds, at=dict(stage='genotypes', request=which, subsample=par[which]))
            try:
                dds, rec = run_subsample(M, vcf, pop, sub, filt, par['subseed'])
            except Exception as e:
                chk.fail('make_data_dict_vcf:subsample:genotypes:raises:%s' % type(e).__name__, 'make_data_dict_vcf(subsample=%r) raises %r (FORMAT %s)' % (sub, e, ds['fmt']), sinp); continue
            chk.l3(('gt-sub', which, len(sub), len(dds) > 0, len(dds) < len(od)))
            chk.stat('gt:%s:kept=%s' % (which, 'none' if not dds else 'all' if len(dds) == len(od) else 'some'))
            ok = subsample_exact(chk, ds, filt, sub, rec, dds, sinp, ':genotypes')
            names = [p for p in pops if p in sub]
            if which == 'subsample_all':
                # every individual is asked for: a line is kept iff every individual of every population is completely genotyped,
                # and then there is nothing to choose -- the counts are those of the branch without sub-sampling
                nlines = {}
                for s in snp_sites: nlines['%s_%d' % (s['chrom'], s['pos'])] = nlines.get('%s_%d' % (s['chrom'], s['pos']), 0) + 1
                for k, v in dds.items():
                    if k not in dd or nlines.get(k) != 1: continue          # a repeated CHROM_POS: the two dictionaries may hold different lines
                    a = {p: tuple(int(x) for x in v['calls'].get(p, ())) for p in names}
                    b = {p: tuple(int(x) for x in dd[k]['calls'].get(p, ())) for p in names}
                    if a != b:
                        chk.fail('make_data_dict_vcf:subsample:all-individuals', 'SNP %s: sub-sampling ALL individuals gives calls %r, the same file read without sub-sampling gives %r' % (k, a, b), sinp); break
            if have_driver(ctx):
                selidx = [pops.index(p) for p in names]
                want = '+'.join('%d:%d' % (pops.index(p), sub[p]) for p in sub if p in names)
                draws = ';'.join(','.join(map(str, r[3])) if r[3] else '-' for r in rec) if rec else '-'
                out = ask(ctx, 'subsample %d %s %s %s %s' % (filt, want, draws, ','.join(map(str, selidx)), sites_wire(ds, codes)))
                impl_e = impl_entries(dds, names, codes)
                if out.startswith('ok '):
                    body, left = out[3:].rsplit(' ', 1)
                    if entries_equal(parse_snps(body), impl_e) and int(left) == 0: chk.k_ok('subsample:gt')
                    else: kbad(chk, 'subsample:gt', ds, impl_e, dict(entries=parse_snps(body), unused_draws=int(left)), None, sinp['at'])
                else:
                    kbad(chk, 'subsample:gt', ds, impl_e, out[:2000], None, sinp['at'])
                check_gtpool(chk, ctx, ds, filt, sub, rec, sinp)
    finally:
        shutil.rmtree(d, ignore_errors=True)

def gen_dp_dataset(rng, tier):
    ds = gen_dataset(rng, tier, kind='dp')
    ds['fmt'] = str(rng.choice(['GT:DP', 'GT:AD:DP', 'GT:DP:AD', 'GT:AD']))
    for s in ds['sites']:
        s['dpstyle'] = 'zero' if rng.random() < 0.7 else 'dot'
        s['nodata'] = [bool(rng.random() < 0.25) for _ in ds['samples']]
        for k, nod in enumerate(s['nodata']):
            if nod and rng.random() < 0.5:
                s['gts'][k] = [0, 0]                   # old callers write a hom-ref genotype for a sample without reads
    return ds

# ------------------------------------------------------------------------------------------------ driver
def check_dataset(chk, ctx, ds, rng=None):
    k = ds['kind']
    chk.stat('kind:' + k)
    if k == 'vcf': check_vcf_dataset(chk, ctx, ds)
    elif k == 'snpfile': check_snpfile_dataset(chk, ctx, ds, rng)
    elif k == 'dict': check_dict_dataset(chk, ctx, ds)
    elif k == 'full': check_full_dataset(chk, ctx, ds)
    elif k == 'dp': check_dp_dataset(chk, ctx, ds)
    elif k == 'trim': check_trim_dataset(chk, ctx, ds)
    elif k == 'gt': check_gt_dataset(chk, ctx, ds)

def run(chk, ctx):
    tier = ctx['tier']
    rng = common.Rng(ctx['seed'], 'C13')
    chk.rule = ('synthetic genotype matrices: 1-3 populations, 2-12 diploids each (2-7 with 3 populations), 4-27 (thorough: -59) lines on 1-3 chromosomes whose '
                'names contain "_" and "."; per line: REF/ALT single bases, lower case, REF==ALT; non-SNP lines of every kind, a deterministic block of ~60 in EVERY VCF plus random ones: multi-character REF and/or ALT from all substrings of "ACGT" of length 2-4 and from non-substrings, multi-allelic ALT lists, "*", ".", symbolic and IUPAC alleles, lower case; FILTER PASS, ".", '
                'failing (incl. texts that extend / truncate / re-case / contain PASS: pass, Pass, PAS, PASSED, PASS;q10, q10;PASS, ..); AA equal to REF, ALT, a third base, absent, ".", "N", "-", "?", multi-character, empty, '
                'with ensembl-style "|" annotation, lower case, under AA / AA_ensembl / AA_chimp; the INFO column is a list of fields: 0-3 unrelated ones, the ancestral-allele field (if any) at a random place among them, and (60% of the lines; 50% on complete data) 1-3 DECOYS '
                'inserted at random places before / after it: fields whose key is a prefix / extension / case variant of, or contains, a recognised key (AA and AA_ensembl as flags, AAX, AAA, AA_, AA_AC, AA_AF, AA_ens, AA_ensemblX, AA_ensembl_v2, AA_chimpanzee, AA_CHIMP, aa, Aa, XAA, X_AA, A, AA., ...) '
                'with values that would be a usable ancestral allele (REF, ALT, third base, lower case, "g|||") or counts / frequencies / empty; 5%: a second recognised field; INFO "." ; '
                'genotypes with per-line allele frequency and missing rate ("./.", half calls), "/" or "|" or both within a line, FORMAT with GT first / in the middle / last and fields the reader does not know (GT:DP, GT:AD:DP, DP:GT, AD:DP:GT, GQ:GT, GT:GQ:PL, DP:GQ:GT:AD, PL:AD:GT); '
                'samples absent from the popinfo file; shuffled sample order; repeated CHROM_POS; popinfo in 6 layouts (plain; comments + blank line; header SAMPLE POP; header `pop sample extra`; header `Id Sample Sex Pop` in mixed case below a comment that looks like a header, comment / blank lines between rows; '
                'spaces + surplus columns holding the words pop / sample), samples that are not in the VCF, a sample called `Sample`, populations called POP2 / population / Sample.b. Rendered to VCF+popinfo and to the '
                'SNP-file format (multi-character alleles, "-"/N outgroup, ids or no ids); hand-made dictionaries (non-biallelic entries, no outgroup key, additional_info). '
                'Per data set 2-3 configurations (population subset/order, projections incl. full, 1, n-1; polarised or folded; corners masked or not), one chunk size from '
                '{1,2,7,span/17,span/7,span/2,span,3*span} (at most ~60 chunks per chromosome), 1-3 bootstraps with recorded choices, one sub-sampling request with recorded draws '
                '(the `subsample` dictionary written in a shuffled order; popinfo lines in an order of their own; configuration 0 lists all populations in a shuffled order half of the time). '
                'One call of the composed entry point bootstraps_subsample_vcf per VCF and per complete data set: subsample = 1..all diploids per population with UNEQUAL sizes wherever possible, the dictionary written '
                'in another order than pop_ids (70%), pop_ids a permutation of the populations or a proper subset of the dictionary keys, a population left out of the dictionary (15%), Nboot 1-2, own chunk size, filter, '
                'mask_corners, polarized (see the stats pipeline:dict-order=…,sizes=…). count_data_dict for every configuration; from_data_dict_corrected (zero misidentification) on hand-made dictionaries with flanking contexts, '
                'inner `calls` dictionaries in a per-SNP order. Complete data sets for the statistics (each population also projected to two sizes m <= n: S, Watterson_theta, theta_L, Tajima_D, pi of the projected spectrum against the expected sub-sample). '
                'Round 5 extension: the 80 equality patterns among ("-", allele1, allele2, outgroup allele / no key) + 40 (thorough 400) random string triples through count_data_dict / from_data_dict on a one-SNP dictionary; 40 (400) random masks on 1-3-dimensional spectra through Spectrum.fold; from_data_dict_corrected with a zero table and two tables a[outgroup base] + b[derived base] in multiples of 1/64 (force_pos on / off), plus a dictionary with an inconsistent outgroup context (ValueError). '
                'Stream kind:trim (6 / 40 data sets): FORMAT GT:DP, GT:AD:DP, GT:DP:AD, GT:GQ:DP, GT:GQ with samples without a call written `./.` (trailing fields dropped, as the VCF specification allows): dictionary, sub-sampling, the composed entry point. '
                'Every spectrum is built with mask_corners=False and with the configured value; on both objects: clauses, then every statistic (S, Watterson_theta, theta_L, pi, Tajima_D, Zengs_E / S, Fst) '
                'and derived quantity (sample_sizes, Npop, fold, project, marginalize) one by one with the object compared before/after, then the clauses again on the same object; chunk spectra and bootstraps likewise '
                '(lines with allele frequency 0 or 1 and population subsets put usable SNPs into the corner entries: see the stats cfg:corner-entries, pure:corners). '
                'non-trivial = distinct (stage, #populations, polarised, mask, projection class, some/all/no SNP usable, corner entries populated, chunk/bootstrap/sub-sampling class; for purity: method, dimension, folded, corners populated / masked)')
    chk.unproved = [
        'text parsing (VCF, popinfo, SNP file) is modelled in Lean only for the token-level decisions of the VCF reader on FILTER / REF / ALT / INFO (generated tokens; C13_vcf_aa_keys, C13_vcf_aa_decoy, C13_vcf_aa_first, C13_vcf_aa_value, C13_vcf_line_tokens, C13_vcf_line_site; K `vcflines` on the texts as written): splitting a line into columns, the FORMAT / sample columns, the popinfo file and the SNP file are abstracted by the harness and validated by K through the real parsers',
        'numpy slicing/broadcasting of _from_count_dict, masked-array arithmetic (corners not accumulated when masked) and Spectrum.fold are tied to the pointwise model by K only',
        'round-off of exp(gammaln ...) and of float accumulation: agreement with the exact model at 1e-9 of the array scale is numerical; `_cached_projection` itself is property C08 (a local copy of the weight is used and compared)',
        "the square root in Tajima's D is a parameter (the harness supplies math.sqrt of the model's exact argument); 1e-8 tolerance there",
        'the statistics theorems are for completely called data: unprojected (C13_S, C13_pi, C13_watterson, C13_thetaL, C13_tajima, C13_fst, C13_fst_wc_theta) and projected (C13_pi_projection, C13_S_projection, C13_watterson_projection, C13_thetaL_projection, C13_tajima_projection: what the statistic of the projected spectrum is, with counterexample theorems for the ones that are not invariant); for incompletely called / folded spectra the statistics are a linear expectation form only (C13_linear_projection, C13_fst_projection) and otherwise compared with the model numerically (K)',
        'random choices (bootstrap chunks, sub-sampled individuals) are parameters: recorded from the real run and replayed by the model; that numpy draws without replacement is checked on the recorded draws only',
        'the chunk loop is modelled position by position (restart from chunk 0) and tied to the carried-along loop of the code by K; gz/zip inputs are not exercised',
        'bootstraps_subsample_vcf / make_data_dict_vcf(subsample=…): the pass over all lines with dictionary semantics is proved (C13_sub_pass, C13_sub_total, C13_bsv_pass, C13_dict_last_wins/_order) for draws that are given; that numpy.random.choice returns draws of the requested size within range (`DrawsValid`) is a hypothesis checked on the recorded draws (L3 `…:subsample:draw`, `bootstraps_subsample_vcf:draws`); an empty sub-sampled dictionary (the code raises: nothing to resample) is outside the statement',
        'the decision table of count_data_dict (`polTable`) is obtained by running the polarisation statements on one representative per equality pattern; that the statements cannot distinguish more than equality of the allele strings is enforced syntactically by the translator (closed language) and validated on other strings by K (`polrow`) and L3 (`count_data_dict:polarisation:*`)',
        'Spectrum.from_data_dict_corrected: the SNP filter, the derived allele, the two combination formulas, the accumulation and force_pos are translated; grouping and the loop over class pairs are modelled (`byContext`, `corrLoop`) and tied by K (`tricls`, `corrected`) for tables whose entries depend on the outgroup base and the derived base; proved: kept SNPs are polarised with the matching derived allele (C13_corrected_kept), conservation of the total per pair, for the whole loop and under force_pos (C13_corrected_pair/_total/_force_pos), identity with from_data_dict for a zero table (C13_corrected_zero); not proved: that the corrected spectrum solves the misidentification equations for a general table (L3 `corrected_oracle` only), reading the table file, multi-character alleles that are substrings of "ACTG" (the membership test of `_data_by_tri` is a substring test; not generated)',
        'masks: `maskAt` / `foldMask` are the composition constructor ∘ fold in the model (C13_fold_mask, C13_mask, C13_mask_folded, C13_mask_hides_nothing, C13_visible_total); that numpy computes `final_mask` as modelled is K (`foldmask`, `spec`) — the statement shape of `fold` is a T flag',
        'that a statistic leaves the spectrum unchanged is proved for `S` on the statement-level model (copy vs alias of the saved mask, `C13_S_pure`) and is a syntactic scan for the other statistics (`C13_stats_read_only`); numpy masked-array aliasing itself (that `self.mask` is a view, that `self.mask = m` copies values) is validated by K (`sstate`) and by the before/after comparison on the real objects only']
    nv = 50 if tier == 'quick' else 500
    ns = 16 if tier == 'quick' else 150
    nd = 16 if tier == 'quick' else 120
    nf = 20 if tier == 'quick' else 200
    ndp = 8 if tier == 'quick' else 40
    nai = 4 if tier == 'quick' else 16
    check_weights(chk, ctx, rng, 60 if tier == 'quick' else 600)
    if have_driver(ctx):
        out = ask(ctx, 'shapes13')
        if out.strip() == 'ok 1 1 1 1 1 1 1 1 1 1 1 1 1 1': chk.k_ok('shapes13')
        else: chk.k_bad('shapes13', dict(kind='shapes'), None, out, None)
    rng2 = common.Rng(ctx['seed'], 'C13-ext')                 # own stream: the data sets below keep their seeds
    check_pol_table(chk, ctx, rng2, 40 if tier == 'quick' else 400)
    check_fold_mask(chk, ctx, rng2, 40 if tier == 'quick' else 400)
    for it in range(nv):
        check_dataset(chk, ctx, gen_dataset(rng, tier, 'vcf'), rng)
    for it in range(ns):
        ds = gen_dataset(rng, tier, 'snpfile'); ds['with_ids'] = bool(rng.random() < 0.8)
        check_dataset(chk, ctx, ds, rng)
    for it in range(nd):
        check_dataset(chk, ctx, gen_dict_dataset(rng, tier, addinfo=['none', 'distinct'][it % 2]), rng)
    for it in range(nf):
        ds = gen_dataset(rng, tier, 'full', full=True, npop=[1, 2, 2, 3][it % 4])
        check_dataset(chk, ctx, ds, rng)
    for it in range(nai):
        check_dataset(chk, ctx, gen_dict_dataset(rng, tier, addinfo='mixed'), rng)
    for it in range(ndp):
        check_dataset(chk, ctx, gen_dp_dataset(rng, tier), rng)
    rng3 = common.Rng(ctx['seed'], 'C13-trim')                # own stream, own keys (…:trailing-fields-dropped)
    for it in range(6 if tier == 'quick' else 40):
        check_dataset(chk, ctx, gen_trim_dataset(rng3, tier), rng3)
    rng4 = common.Rng(ctx['seed'], 'C13-gt')                  # own stream: every shape of a GT field through both branches of the reader
    for it in range(12 if tier == 'quick' else 100):
        check_dataset(chk, ctx, gen_gt_dataset(rng4, tier), rng4)

def replay(chk, ctx, data):
    inp = data.get('input', {}) or {}
    kind = inp.get('kind')
    if kind == 'weights':
        dadi = ctx['dadi']; m, n, i = int(inp['m']), int(inp['n']), int(inp['i'])
        row = np.asarray(dadi.Numerics._cached_projection(m, n, i), dtype=float)
        ref = [hyp(m, n, i, j) for j in range(m + 1)]
        chk.l3(('weights', m, n, i))
        if not close(row, [float(x) for x in ref])[0]:
            chk.fail('cached_projection:row', '_cached_projection(%d,%d,%d) is not the hypergeometric row' % (m, n, i), inp)
        return
    if kind == 'poltable':
        replay_pol(chk, ctx, inp); return
    if kind == 'foldmask':
        fold_mask_case(chk, ctx, [int(x) for x in inp['proj']], np.array(inp['mask'], dtype=bool), inp); return
    ds = inp.get('dataset')
    if not isinstance(ds, dict) or 'kind' not in ds:
        run(chk, ctx); return
    ds = _unjson(ds)
    rng = common.Rng(ctx['seed'], 'C13-replay')
    check_dataset(chk, ctx, ds, rng)

def _unjson(ds):
    """replay files store tuples as lists; normalise what the checks index by tuple"""
    if 'rows' in ds and ds['rows'] is not None:
        for r in ds['rows']:
            r['counts'] = [tuple(c) for c in r['counts']]
    if 'entries' in ds:
        for e in ds['entries']:
            e['counts'] = [tuple(c) for c in e['counts']]
    return ds
