"""C16, round 5 — correspondence (K) between the real import loop of dadi.Demes and its statement-by-statement translation
`Generated/DemesProg.lean` (driver ops `c16g gevents | gparams | gimport | gapply | gintegrate`, Driver/DemesGraph.lean), and two direct
oracles (L3) on the code alone:

  * `wiring:integrate` — every keyword of the `dadi.Integration.<d>_pops` call made by `_integrate_phi` receives the entry of its own
    index (nu, frozen, gamma, h, m_ij = M[i, j]), d = 1..5, marker values, the binding done by Python itself (inspect.signature);
  * `Ne:threaded` — the user's `Ne` reaches every place a size / time / rate is scaled: with `Ne / c` every integration time is c times
    larger, every migration entry c times smaller, every relative size (root, frozen branches, all size functions at several times)
    c times larger.

The real side is recorded at the level of the numerical primitives (`dadi.Integration.*_pops`, `PhiManip.phi_1D / remove_pop /
reorder_pops`, `Spectrum.from_phi`) and of the three helpers whose own tables are proved separately (`_split_phi`,
`_admix_new_pop_phi`, `_admix_phi`); `phi` is a token.
"""
import inspect, copy
from fractions import Fraction
import numpy as np
from . import common
from . import c16_scen as S
from . import c16_graph as G

INF = float('inf')
INTEG = {1: 'one_pop', 2: 'two_pops', 3: 'three_pops', 4: 'four_pops', 5: 'five_pops'}
FRACS = [0.0, 0.37, 1.0]
FR_TOK = '+'.join(common.rat(f) for f in FRACS)

def rat(x): return common.rat(float(x))

class Recorder:
    """replaces the numerical layer under dadi.Demes.Demes by recording stubs"""
    def __init__(self, dadi, N=None):
        self.dadi = dadi; self.N = N; self.calls = []; self.saved = []
    def _set(self, obj, name, val):
        self.saved.append((obj, name, obj.__dict__[name] if name in getattr(obj, '__dict__', {}) else getattr(obj, name)))
        setattr(obj, name, val)
    def __enter__(self):
        dadi = self.dadi; D = dadi.Demes.Demes; P = dadi.PhiManip; I = dadi.Integration
        for d, nm in INTEG.items():
            self._set(I, nm, self._integ(nm, d, getattr(I, nm)))
        self._set(P, 'phi_1D', self._phi1d(P.phi_1D))
        sig_rm = inspect.signature(P.remove_pop); sig_ro = inspect.signature(P.reorder_pops)
        def remove_pop(*a, **k):
            b = sig_rm.bind(*a, **k); self.calls.append(('X', int(b.arguments['popnum']))); return 'PHI'
        def reorder_pops(*a, **k):
            b = sig_ro.bind(*a, **k); self.calls.append(('R', [int(x) for x in b.arguments['neworder']])); return 'PHI'
        self._set(P, 'remove_pop', remove_pop); self._set(P, 'reorder_pops', reorder_pops)
        def split(phi, xx, pop_ids, parent, new_pop_ids):
            self.calls.append(('S', list(pop_ids), parent, list(new_pop_ids))); return 'PHI'
        def admix_new(phi, xx, proportions, pop_ids, parents, new_pop_ids):
            self.calls.append(('N', [float(x) for x in proportions], list(pop_ids), list(parents), list(new_pop_ids))); return 'PHI'
        def admix(phi, xx, proportions, pop_ids, sources, dest):
            pr = proportions if isinstance(proportions, (list, tuple)) else [proportions]
            so = sources if isinstance(sources, (list, tuple)) else [sources]
            self.calls.append(('A', [float(x) for x in pr], list(pop_ids), list(so), dest)); return 'PHI'
        self._set(D, '_split_phi', split); self._set(D, '_admix_new_pop_phi', admix_new); self._set(D, '_admix_phi', admix)
        Sp = dadi.Spectrum
        def from_phi(phi, ns, xxs, *a, **k):
            self.calls.append(('F', list(k.get('pop_ids') or []))); return 'FS'
        self._set(Sp, 'from_phi', staticmethod(from_phi))
        return self
    def __exit__(self, *a):
        for obj, name, val in reversed(self.saved): setattr(obj, name, val)
    def _phi1d(self, f):
        sig = inspect.signature(f)
        def stub(*a, **k):
            b = sig.bind(*a, **k); passed = dict(b.arguments); b.apply_defaults(); full = b.arguments
            self.calls.append(('P', float(passed['nu']) if 'nu' in passed else None, float(full['theta0']), float(full['gamma']), float(full['h']), list(full['deme_ids'] or [])))
            return 'PHI'
        return stub
    def _integ(self, name, d, f):
        sig = inspect.signature(f)
        def stub(*a, **k):
            b = sig.bind(*a, **k); b.apply_defaults(); g = b.arguments
            sfx = (lambda s, i: s if d == 1 else '%s%d' % (s, i + 1))
            T = float(g['T'])
            self.calls.append(('I', name, T, list(g['deme_ids'] or []), [g[sfx('frozen', i)] for i in range(d)],
                               [[0.0 if i == j else float(g['m%d%d' % (i + 1, j + 1)]) for j in range(d)] for i in range(d)],
                               [g[sfx('nu', i)] for i in range(d)], [g[sfx('gamma', i)] for i in range(d)], [g[sfx('h', i)] for i in range(d)], float(g['theta0']),
                               float(g.get('initial_t', 0) or 0)))
            return 'PHI'
        return stub

def nu_values(entry, T):
    return [float(entry(f * T)) if callable(entry) else float(entry) for f in FRACS]

def num(x): return INF if x == 'inf' else float(Fraction(x))

def near(a, b, rtol=1e-11):
    if a == INF or b == INF: return a == b
    return abs(a - b) <= rtol * max(abs(a), abs(b)) + 1e-300

def rats_of(tok): return [] if tok == '_' else [num(x) for x in tok.split('+')]

def call_matches(real, tok, N, eval_sym):
    """one recorded real call vs one token of the model's trace; None or a description of the difference"""
    p = tok.split('@')
    if p[0] != real[0]: return 'kind %s vs %s' % (real[0], p[0])
    k = p[0]
    names = lambda t: G.Names.decs(t)
    if k == 'P':
        if (real[1] is None) != (p[1] == 'none'): return 'phi_1D nu passed: %r vs %s' % (real[1], p[1])
        if real[1] is not None and not near(real[1], eval_sym(p[1])): return 'phi_1D nu %r vs %r' % (real[1], eval_sym(p[1]))
        if not (near(real[2], num(p[2])) and near(real[3], num(p[3])) and near(real[4], num(p[4]))): return 'phi_1D theta0/gamma/h %r vs %r' % (real[2:5], p[2:5])
        return None if N.same_list(real[5], names(p[5])) else 'phi_1D deme_ids %r vs %s' % (real[5], p[5])
    if k == 'I':
        if real[1] != p[1]: return 'integrator %s vs %s' % (real[1], p[1])
        if not near(real[2], num(p[2]), 1e-12): return 'T %r vs %r' % (real[2], num(p[2]))
        if not N.same_list(real[3], names(p[3])): return 'deme_ids %r vs %s' % (real[3], p[3])
        if [bool(x) for x in real[4]] != [c == '1' for c in (p[4] if p[4] != '_' else '')]: return 'frozen %r vs %s' % (real[4], p[4])
        M = [rats_of(r) for r in p[5].split(',')] if p[5] != '_' else []
        if len(M) != len(real[5]) or any(len(a) != len(b) or any(not near(x, y, 1e-12) for x, y in zip(a, b)) for a, b in zip(real[5], M)): return 'migration %r vs %r' % (real[5], M)
        terms = [] if p[6] == '_' else p[6].split('+')
        if len(terms) != len(real[6]): return 'number of sizes'
        for e, t in zip(real[6], terms):
            impl = nu_values(e, real[2]); model = [eval_sym(x) for x in t.split('|')]
            if not all(near(a, b, 1e-10) for a, b in zip(impl, model)): return 'nu %r vs %r' % (impl, model)
        if [float(x) for x in real[7]] != rats_of(p[7]) or [float(x) for x in real[8]] != rats_of(p[8]) or not near(real[9], num(p[9])): return 'gamma/h/theta0'
        if real[10] != 0: return 'initial_t = %r' % real[10]
        return None
    if k == 'X': return None if real[1] == int(p[1]) else 'remove_pop %d vs %s' % (real[1], p[1])
    if k == 'R':
        o = [] if p[1] == '_' else [int(x) for x in p[1].split('+')]
        return None if real[1] == o else 'reorder %r vs %r' % (real[1], o)
    if k == 'S':
        ok = N.same_list(real[1], names(p[1])) and N.same(real[2], G.Names.dec(p[2])) and N.same_list(real[3], names(p[3]))
        return None if ok else '_split_phi %r vs %s' % (real[1:], tok)
    if k == 'N':
        ok = all(near(a, b) for a, b in zip(real[1], rats_of(p[1]))) and len(real[1]) == len(rats_of(p[1])) and N.same_list(real[2], names(p[2])) \
            and N.same_list(real[3], names(p[3])) and N.same_list(real[4], names(p[4]))
        return None if ok else '_admix_new_pop_phi %r vs %s' % (real[1:], tok)
    if k == 'A':
        ok = all(near(a, b) for a, b in zip(real[1], rats_of(p[1]))) and len(real[1]) == len(rats_of(p[1])) and N.same_list(real[2], names(p[2])) \
            and N.same_list(real[3], names(p[3])) and N.same(real[4], G.Names.dec(p[4]))
        return None if ok else '_admix_phi %r vs %s' % (real[1:], tok)
    if k == 'F': return None if N.same_list(real[1], names(p[1])) else 'from_phi pop_ids %r vs %s' % (real[1], p[1])
    return 'unknown call kind %s' % k

def show_calls(calls):
    out = []
    for c in calls:
        if c[0] == 'I': out.append(('I', c[1], c[2], c[3], [bool(x) for x in c[4]], c[5], [nu_values(e, c[2]) for e in c[6]]))
        else: out.append(tuple(c))
    return common.jsonable(out)

def real_import(dadi, g0, sd, ts, Ne, theta):
    """the real SFS under recording stubs -> (calls or 'raises:<type>', prepared graph, sampled_pops, frozen list)"""
    D = dadi.Demes.Demes
    box = {}
    o1, o2 = D._get_demographic_events, D._get_integration_parameters
    def w1(g_, ev, sampled_pops):
        box['g'] = g_; box['sampled'] = list(sampled_pops); return o1(g_, ev, sampled_pops)
    def w2(g_, pres, frozen_list, Ne=None):
        box['frozen'] = list(frozen_list); return o2(g_, pres, frozen_list, Ne=Ne)
    with Recorder(dadi) as rec:
        D._get_demographic_events, D._get_integration_parameters = w1, w2
        try:
            try:
                D.SFS(g0, list(sd), [2] * len(sd), 6, sample_times=(list(ts) if any(t > 0 for t in ts) else None), Ne=Ne, theta=theta)
                res = rec.calls
            except Exception as e:
                res = 'raises:' + type(e).__name__
        finally:
            D._get_demographic_events, D._get_integration_parameters = o1, o2
    return res, box.get('g'), box.get('sampled'), box.get('frozen'), rec.calls

def k_gen_import(chk, ctx, rng, n, eval_sym):
    """the whole import (tail of SFS: events, integration parameters, _compute_sfs, final reordering, from_phi) — generated program vs
    the real code under recording stubs; and (L3, on the code alone) the reference size reaches every scaled quantity, and the frozen
    branch of an ancient sample keeps size 1 when the graph is rescaled"""
    dadi = ctx['dadi']
    from .c16 import resolve, scale_graph
    for it in range(n):
        h = S.History(rng, max_live=5, want_ancient=(it % 3 == 1), small_Ne=(it % 3 == 1))
        gd = h.graph_dict(); g0 = resolve(gd); N = G.Names([d.name for d in g0.demes])
        sd = [a for a, _ in h.samples]; ts = [t for _, t in h.samples]
        Ne = None if rng.random() < 0.5 else float(h.Ne * rng.choice([0.5, 2.0, 1.37]))
        theta = float(rng.choice([1.0, 2.5]))
        inp = dict(kind='gen-import', graph=common.jsonable(gd), samples=[list(x) for x in h.samples], Ne=Ne, theta=theta)
        res = import_case(chk, ctx, g0, sd, ts, Ne, theta, inp, N, eval_sym, 'history')
        if res is None: continue
        for c_ in res: chk.stat('K-gimport:call:' + {'P': 'phi_1D', 'I': 'integrate', 'X': 'remove_pop', 'R': 'reorder_pops', 'S': '_split_phi', 'N': '_admix_new_pop_phi', 'A': '_admix_phi', 'F': 'from_phi'}[c_[0]])
        if Ne is not None: chk.stat('K-gimport:explicit-Ne')
        # ---- L3 (code alone): Ne -> Ne / c
        c = float(rng.choice([2.0, 0.5, 3.0]))
        base = Ne if Ne is not None else float(dadi.Demes.Demes._get_root_Ne(g0))
        chk.l3(('Ne-threaded', c, len(res), any(t > 0 for t in ts), Ne is None))
        why = ne_threaded(dadi, g0, sd, ts, base, c, theta)
        if why is not None:
            chk.fail('Ne:threaded:mismatch', 'from_demes with Ne = %g and with Ne = %g / %g: %s' % (base, base, c, why),
                     dict(kind='Ne-threaded', graph=common.jsonable(gd), samples=[list(x) for x in h.samples], Ne=base, c=c, theta=theta))
        # ---- L3 (code alone): the graph written with sizes and times x c, rates / c (default reference size): same calls; with ancient samples
        #      everything but the relative size of the frozen branches, which is 1 / (c Ne) instead of 1 / Ne
        chk.l3(('scale-calls', c, len(res), any(t > 0 for t in ts)))
        why = scaled_calls(dadi, gd, sd, ts, c, theta, resolve, scale_graph)
        if why is not None:
            chk.fail('scale:frozen-branch:mismatch', 'sizes and times x %g, rates / %g, default reference size: %s' % (c, c, why),
                     dict(kind='scale-frozen', graph=common.jsonable(gd), samples=[list(x) for x in h.samples], c=c, theta=theta))

def scaled_calls(dadi, gd, sd, ts, c, theta, resolve, scale_graph):
    a = real_import(dadi, resolve(gd), sd, ts, None, theta)[0]
    b = real_import(dadi, resolve(scale_graph(gd, c)), sd, [t * c for t in ts], None, theta)[0]
    if isinstance(a, str) or isinstance(b, str):
        return None if a == b else 'one run raises: %r vs %r' % (a if isinstance(a, str) else 'ok', b if isinstance(b, str) else 'ok')
    def base(n): return n.split('_sampled_')[0]
    def canon(calls):
        # the order of the children of a split is the iteration order of a set of names inside the demes library (it depends on the hash of
        # the names, which contain the scaled sample time): compare up to that order — reorderings dropped, integrations by deme name
        out = []
        for x in calls:
            if x[0] == 'R': continue
            if x[0] == 'S': out.append(('S', x[1], x[2], sorted(x[3], key=base)))
            elif x[0] == 'X': out.append(('X',))
            elif x[0] == 'I':
                o = sorted(range(len(x[3])), key=lambda i: base(x[3][i]))
                out.append(('I', x[1], x[2], [x[3][i] for i in o], [x[4][i] for i in o], [[x[5][i][j] for j in o] for i in o], [x[6][i] for i in o]) + tuple(x[7:]))
            else: out.append(x)
        return out
    a = canon(a); b = canon(b)
    if len(a) != len(b): return 'number of calls %d vs %d' % (len(a), len(b))
    for x, y in zip(a, b):
        if x[0] != y[0]: return 'call %s vs %s' % (x[0], y[0])
        if x[0] == 'P':
            if not near(x[1], y[1], 1e-10): return 'phi_1D nu %r vs %r' % (x[1], y[1])
        elif x[0] == 'I':
            if x[1] != y[1] or [base(n) for n in x[3]] != [base(n) for n in y[3]] or [bool(v) for v in x[4]] != [bool(v) for v in y[4]]: return 'integrator / demes / frozen flags differ'
            if not near(x[2], y[2], 1e-10): return '%s: T %r vs %r' % (x[1], x[2], y[2])
            for r1, r2 in zip(x[5], y[5]):
                if not all(near(m1, m2, 1e-10) for m1, m2 in zip(r1, r2)): return '%s: migration %r vs %r' % (x[1], r1, r2)
            for k, (e1, e2) in enumerate(zip(x[6], y[6])):
                v1 = nu_values(e1, x[2]); v2 = nu_values(e2, y[2])
                if x[4][k]:
                    if not all(near(q * c, p, 1e-9) for p, q in zip(v1, v2)): return '%s: frozen branch size %r vs %r (expected / %g: absolute size 1)' % (x[1], v1, v2, c)
                elif not all(near(p, q, 1e-9) for p, q in zip(v1, v2)): return '%s: relative size %r vs %r' % (x[1], v1, v2)
    return None

def import_case(chk, ctx, g0, sd, ts, Ne, theta, inp, N, eval_sym, tag):
    """one graph: the real tail of SFS under recording stubs vs the generated program"""
    dadi = ctx['dadi']; drv = ctx['driver']
    res, g, sampled, frozen, partial = real_import(dadi, g0, sd, ts, Ne, theta)
    if g is None or frozen is None:
        chk.k_skipped += 1; chk.stat('K-gimport:not-reached'); return None
    ans = drv.ask('c16g gimport %s %s %s %s %s %s none none %s' % (G.enc_graph(g.asdict(), N), G.lib_events(g, N), N.encs(sampled), N.encs(frozen),
                                                                  'none' if Ne is None else rat(Ne), rat(theta), FR_TOK))
    if isinstance(res, str):
        ok = ans.startswith('err raises')
        (chk.k_ok('gimport') if ok else chk.k_bad('gimport', inp, res, ans[:300], 'the code raises, the generated program does not'))
        chk.stat('K-gimport:%s:code-raises' % tag); return None
    if not ans.startswith('ok '):
        chk.k_bad('gimport', inp, show_calls(res), ans[:300], 'the generated program raises / model error'); return None
    toks = ans.split()[1].split(';')
    why = None if len(toks) == len(res) else 'number of calls %d vs %d' % (len(res), len(toks))
    if why is None:
        for r, t in zip(res, toks):
            why = call_matches(r, t, N, eval_sym)
            if why is not None: break
    (chk.k_ok('gimport') if why is None else chk.k_bad('gimport', inp, show_calls(res), ans[:600], why))
    chk.stat('K-gimport:%s' % tag)
    return res

def k_gen_import_exported(chk, ctx, rng, n, eval_sym):
    """graphs written by Demes.output (every population renamed at every Split record): the re-import, generated program vs real code —
    clean programs and programs with an admixture-created population (both sides raise: the open known finding)"""
    dadi = ctx['dadi']
    from .c16 import output_with_record
    for it in range(n):
        ops, d = S.random_program(rng, max_pops=int(rng.choice([2, 3, 4, 5])), p_reorder=0.45, clean=(it % 3 != 2))
        try:
            S.run_program(dadi, ops, 5)
            g, record = output_with_record(dadi, Nref=1000.0)
        except Exception:
            chk.k_skipped += 1; chk.stat('K-gimport:export-raises'); continue
        ids = list(record[-1].deme_ids)
        N = G.Names([x.name for x in g.demes])
        import_case(chk, ctx, g, ids, [0.0] * len(ids), None, 1.0, dict(kind='gen-import-exported', ops=common.jsonable(ops)), N, eval_sym, 'exported')

def frozen_dt_oracle(chk, ctx, rng, n):
    """L3 on the real integrators: the size of a frozen population does not change the result as long as it does not change the time step
    (`_compute_dt` takes the minimum over all populations, frozen ones included)"""
    dadi = ctx['dadi']; I = dadi.Integration
    for it in range(n):
        d = int(rng.choice([2, 3]))
        pts = 12
        xx = dadi.Numerics.default_grid(pts)
        phi = dadi.PhiManip.phi_1D(xx)
        phi = dadi.PhiManip.phi_1D_to_2D(xx, phi)
        if d == 3: phi = dadi.PhiManip.phi_2D_to_3D_split_1(xx, phi)
        nus = [float(rng.uniform(0.5, 2.0)) for _ in range(d)]
        k = d - 1                                           # the frozen population
        T = float(rng.uniform(0.02, 0.1))
        def run(nuk):
            v = list(nus); v[k] = nuk
            kw = {('nu%d' % (i + 1)): v[i] for i in range(d)}
            kw['frozen%d' % (k + 1)] = True
            f = I.two_pops if d == 2 else I.three_pops
            return np.asarray(f(phi.copy(), xx, T, **kw))
        small = min(nus[:k])
        a = run(small * 1.5); b = run(small * 40.0)          # both larger than every live size: the time step is set by a live population
        c_ = run(small / 50.0)                                # much smaller: it sets the time step
        chk.l3(('frozen-dt', d, round(T, 3)))
        if not np.array_equal(a, b):
            chk.fail('frozen:nu-used', '%d populations, the last frozen: changing its size from %g to %g (both above every live size, same time step) '
                     'changes phi by %.2e' % (d, small * 1.5, small * 40.0, float(np.max(np.abs(a - b)))), dict(kind='frozen-dt', d=d, nus=nus, T=T))
        chk.stat('frozen-dt:identical' if np.array_equal(a, b) else 'frozen-dt:different')
        chk.stat('frozen-dt:smaller-step-differs' if not np.array_equal(a, c_) else 'frozen-dt:smaller-step-same')

def slice_rows_oracle(chk, ctx, rng, n):
    """L3 on the code alone (C16_slice_plan): for every interval (x, y) of the sliced graph the importer finds the live demes, the sizes and
    the migration rates it finds for the original graph on (x + t, y + t)"""
    dadi = ctx['dadi']; D = dadi.Demes.Demes
    from .c16 import resolve
    for it in range(n):
        h = S.History(rng, max_live=4, small_Ne=True, cut_prob=0.8, fn_probs=(0.25, 0.4, 0.35))
        gd = h.graph_dict(); g = resolve(gd)
        for t in G.slice_times(h, rng, k=2):
            try:
                g2 = dadi.Demes.DemesUtil.slice(g, t)
            except Exception:
                continue
            alive = [d.name for d in g2.demes if d.end_time == 0]
            if not alive: continue
            ev, pres = D._get_demographic_events(g2, g2.discrete_demographic_events(), alive)
            inp = dict(kind='slice-rows', graph=common.jsonable(gd), t=t)
            chk.l3(('slice-rows', len(pres), len(g2.demes)))
            why = None
            marks = sorted({float(v) for d in g.demes for v in [d.start_time] + [e.end_time for e in d.epochs] if v != INF}
                           | {float(v) for m in g.migrations for v in (m.start_time, m.end_time) if v != INF} | {float(p.time) for p in g.pulses})
            def snap(v):
                # x + t in floating point: the time of the original graph it stands for (the importer compares times exactly)
                near_ = [m for m in marks if abs(m - v) <= 1e-9 * max(1.0, abs(v))]
                return near_[0] if near_ else v
            for iv, live in pres.items():
                x, y = float(iv[0]), float(iv[1])
                ivo = (snap(x + t) if x != INF else INF, snap(y + t))
                # live demes of the original on the moved interval, in the importer's order (descending start time, graph order)
                eps = 1e-9 * max(1.0, ivo[1])
                orig = [d for d in g.demes if (d.start_time == INF or d.start_time >= ivo[0] - eps) and d.end_time <= ivo[1] + eps]
                orig = [d.name for d in sorted(orig, key=lambda d: -d.start_time if d.start_time != INF else -INF)]
                if list(live) != orig: why = 'live demes on %r: %r, on the moved interval of the original: %r' % (iv, list(live), orig); break
                for d in live:
                    a = D._sizes_at_time(g2, d, iv); b = D._sizes_at_time(g, d, ivo)
                    if not (near(float(a[0]), float(b[0]), 1e-9) and near(float(a[1]), float(b[1]), 1e-9)) or (a[2] != b[2] and not near(float(b[0]), float(b[1]), 1e-12)):
                        why = 'sizes of %s on %r: %r, original on the moved interval: %r' % (d, iv, a, b); break
                if why: break
                for a_ in live:
                    for b_ in live:
                        if a_ == b_: continue
                        if float(D._migration_rate_in_interval(g2, a_, b_, iv)) != float(D._migration_rate_in_interval(g, a_, b_, ivo)):
                            why = 'migration rate %s -> %s on %r' % (a_, b_, iv); break
                    if why: break
                if why: break
            if why is not None:
                chk.fail('slice:rows:mismatch', 'graph sliced at %g: %s' % (t, why), inp)
            chk.stat('slice-rows:graphs')

def ne_threaded(dadi, g0, sd, ts, Ne, c, theta):
    """recorded calls with the reference size Ne and Ne / c: same calls, T x c, M / c, every nu x c (root, frozen branches, size functions)"""
    a = real_import(dadi, g0, sd, ts, Ne, theta)[0]
    b = real_import(dadi, g0, sd, ts, Ne / c, theta)[0]
    if isinstance(a, str) or isinstance(b, str):
        return None if a == b else 'one run raises: %r vs %r' % (a if isinstance(a, str) else 'ok', b if isinstance(b, str) else 'ok')
    if len(a) != len(b): return 'number of calls %d vs %d' % (len(a), len(b))
    for x, y in zip(a, b):
        if x[0] != y[0]: return 'call %s vs %s' % (x[0], y[0])
        if x[0] == 'P':
            if x[1] is None or y[1] is None or not near(y[1], c * x[1], 1e-10): return 'phi_1D: nu %r vs %r (expected x %g)' % (x[1], y[1], c)
        elif x[0] == 'I':
            if x[1] != y[1] or x[3] != y[3] or [bool(v) for v in x[4]] != [bool(v) for v in y[4]]: return 'integrator / demes / frozen flags differ'
            if not near(y[2], c * x[2], 1e-10): return '%s: T %r vs %r (expected x %g)' % (x[1], x[2], y[2], c)
            for r1, r2 in zip(x[5], y[5]):
                for m1, m2 in zip(r1, r2):
                    if not near(m2 * c, m1, 1e-10): return '%s: migration entry %r vs %r (expected / %g)' % (x[1], m1, m2, c)
            for e1, e2 in zip(x[6], y[6]):
                v1 = nu_values(e1, x[2]); v2 = nu_values(e2, y[2])
                if not all(near(q, c * p, 1e-9) for p, q in zip(v1, v2)): return '%s: relative size %r vs %r (expected x %g)' % (x[1], v1, v2, c)
        elif x[1:] != y[1:]: return 'call %r vs %r' % (x, y)
    return None

def k_gen_events(chk, ctx, rng, n, eval_sym):
    """_get_demographic_events and _get_integration_parameters: the dicts (insertion order included) and the four lists"""
    dadi = ctx['dadi']; drv = ctx['driver']; D = dadi.Demes.Demes
    from .c16 import resolve
    for it in range(n):
        h = S.History(rng, max_live=5, want_ancient=(it % 3 == 0), small_Ne=(it % 3 == 0))
        gd = h.graph_dict(); g0 = resolve(gd); N = G.Names([d.name for d in g0.demes])
        sd = [a for a, _ in h.samples]; ts = [t for _, t in h.samples]
        g = g0; frozen = []; sampled = list(sd)
        if any(t > 0 for t in ts):
            try: g, sampled, frozen = D._augment_with_ancient_samples(g0, list(sd), list(ts))
            except Exception: chk.k_skipped += 1; continue
        tok = G.enc_graph(g.asdict(), N); lib = G.lib_events(g, N)
        inp = dict(graph=common.jsonable(gd), samples=[list(x) for x in h.samples])
        ev, pres = D._get_demographic_events(g, g.discrete_demographic_events(), sampled)
        ans = drv.ask('c16g gevents %s %s %s' % (tok, lib, N.encs(sampled)))
        if not ans.startswith('ok '):
            chk.k_bad('gevents', inp, None, ans[:300], 'model error'); continue
        _, evt, prt = ans.split()
        ok = True
        mev = [] if evt == '_' else evt.split(';')
        rev = [(k, v) for k, v in ev.items() if True]
        if len(mev) != len(rev): ok = False
        else:
            for (k, lst), m in zip(rev, mev):
                mk, ml = m.split('=')
                ml = [] if ml == '_' else ml.split(',')
                if not G.near(num(mk), float(k)) or len(ml) != len(lst) or not all(G.event_tokens_equal(G.enc_event(0.0, e, N), '0@' + x) for e, x in zip(lst, ml)): ok = False
        mpr = [] if prt == '_' else prt.split(';')
        rpr = list(pres.items())
        if len(mpr) != len(rpr): ok = False
        else:
            for (iv, live), m in zip(rpr, mpr):
                a, b, nm = m.split(':')
                if not (G.near(num(a), float(iv[0])) and G.near(num(b), float(iv[1])) and N.same_list(list(live), G.Names.decs(nm))): ok = False
        (chk.k_ok('gevents') if ok else chk.k_bad('gevents', inp, dict(events={str(float(k)): [str(e) for e in v] for k, v in ev.items()}, present=[[list(map(float, k)), list(v)] for k, v in pres.items()]), ans[:600], 'dicts differ (contents or insertion order)'))
        # integration parameters
        Ne = None if rng.random() < 0.5 else float(h.Ne * rng.choice([0.5, 2.0, 1.37]))
        nf, mm, its, fz = D._get_integration_parameters(g, pres, list(frozen), Ne=Ne)
        ans = drv.ask('c16g gparams %s %s %s %s %s %s' % (tok, lib, N.encs(sampled), N.encs(list(frozen)), 'none' if Ne is None else rat(Ne), FR_TOK))
        if not ans.startswith('ok '):
            chk.k_bad('gparams', dict(inp, Ne=Ne), None, ans[:300], 'model error'); continue
        rows = ans.split()[1].split(';')
        why = None if len(rows) == len(its) else 'number of rows'
        for k, r in enumerate(rows):
            if why: break
            T, nus, M, frz = r.split('@')
            if not near(num(T), float(its[k]), 1e-12): why = 'T of row %d' % k; break
            Mm = [rats_of(x) for x in M.split(',')]
            if not common.close(np.asarray(mm[k], dtype=float), np.asarray(Mm), rtol=1e-12, atol=1e-300)[0]: why = 'migration matrix of row %d' % k; break
            if [c == '1' for c in frz] != [bool(x) for x in fz[k]]: why = 'frozen flags of row %d' % k; break
            terms = nus.split('+')
            if len(terms) != len(nf[k]): why = 'sizes of row %d' % k; break
            if its[k] == 0 and any(callable(f) for f in nf[k]): continue          # t / T with T = 0: never evaluated
            for f, t in zip(nf[k], terms):
                if not all(near(a, b, 1e-10) for a, b in zip(nu_values(f, float(its[k])), [eval_sym(x) for x in t.split('|')])): why = 'nu of row %d' % k
        (chk.k_ok('gparams') if why is None else chk.k_bad('gparams', dict(inp, Ne=Ne), dict(T=[float(x) for x in its]), ans[:600], why))

def k_gen_apply(chk, ctx, rng, n):
    """_apply_event on random population lists and events of every kind, failing ones included (absent demes, three children, more than five
    demes, a child that exists already)"""
    dadi = ctx['dadi']; drv = ctx['driver']; D = dadi.Demes.Demes
    universe = ['n%d' % i for i in range(10)]
    N = G.Names(universe)
    def pick(k, pool): return [pool[i] for i in rng.permutation(len(pool))[:k]]
    for it in range(n):
        d = int(rng.integers(1, 6))
        ids = pick(d, universe)
        others = [x for x in universe if x not in ids]
        kind = ['marginalize', 'split', 'branch', 'admix', 'merge', 'pulses'][it % 6]
        if kind in ('split', 'branch', 'admix') and d == 5 and rng.random() < 0.75:       # five populations: these raise; keep a quarter of them
            d = int(rng.integers(1, 5)); ids = ids[:d]; others = [x for x in universe if x not in ids]
        bad = rng.random() < 0.2
        if kind == 'marginalize': ev = ('marginalize', others[0] if bad else ids[int(rng.integers(d))])
        elif kind == 'split':
            nch = int(rng.choice([1, 2, 2, 2, 3]))
            ev = ('split', others[0] if bad else ids[int(rng.integers(d))], pick(nch, others[1:]))
        elif kind == 'branch': ev = ('branch', others[0] if bad else ids[int(rng.integers(d))], others[1])
        elif kind in ('admix', 'merge'):
            k = int(rng.integers(1, min(3, d) + 1)); ps = pick(k, ids)
            pr = [round(float(x), 3) for x in rng.dirichlet([1.0] * k)]
            child = ids[0] if bad else others[0]
            if bad and rng.random() < 0.5: ps = ps[:-1] + [others[2]]; child = others[0]
            ev = (kind, ps, pr, child)
        else:
            if d < 2: continue
            dest = ids[int(rng.integers(d))]; k = int(rng.integers(1, d)); so = pick(k, [x for x in ids if x != dest])
            ev = ('pulses', so, dest, [round(float(rng.uniform(0.01, 0.2)), 3) for _ in so])
        inp = dict(pop_ids=ids, event=common.jsonable(ev))
        with Recorder(dadi) as rec:
            try:
                phi, out = D._apply_event('PHI', None, list(ids), ev, 1.5, None, None)
                real = (rec.calls, list(out))
            except Exception as e:
                real = 'raises:' + type(e).__name__
        ans = drv.ask('c16g gapply %s %s' % (N.encs(ids), G.enc_event(1.5, ev, N)))
        if isinstance(real, str):
            (chk.k_ok('gapply') if ans.startswith('err raises') else chk.k_bad('gapply', inp, real, ans[:300], 'the code raises, the generated program does not'))
            chk.stat('K-gapply:%s:raises' % kind); continue
        if not ans.startswith('ok '):
            chk.k_bad('gapply', inp, common.jsonable(real), ans[:300], 'the generated program raises, the code does not'); continue
        _, tr, out = ans.split()
        toks = [] if tr == '_' else tr.split(';')
        why = None if len(toks) == len(real[0]) else 'number of calls'
        for r, t in zip(real[0], toks):
            if why: break
            why = call_matches(r, t, N, None)
        if why is None and not N.same_list(real[1], G.Names.decs(out)): why = 'pop_ids afterwards %r vs %s' % (real[1], out)
        (chk.k_ok('gapply') if why is None else chk.k_bad('gapply', inp, common.jsonable(real), ans[:300], why))
        chk.stat('K-gapply:%s:ok' % kind)

def integrate_markers(d, hot):
    nu = [101 + k for k in range(d)]
    gam = [2.0 + k for k in range(d)]; hh = [0.25 + 0.125 * k for k in range(d)]
    fr = [k == hot for k in range(d)]
    M = [[10.0 * (i + 1) + (j + 1) + 0.5 for j in range(d)] for i in range(d)]
    return nu, gam, hh, fr, M

def k_gen_integrate(chk, ctx, rng):
    """_integrate_phi for 0..6 populations with marker values (every one-hot frozen pattern): the generated dispatch + binding vs Python's own
    binding of the real call; and (L3, code alone) every keyword receives the entry of its own index"""
    dadi = ctx['dadi']; drv = ctx['driver']; D = dadi.Demes.Demes
    universe = ['n%d' % i for i in range(7)]; N = G.Names(universe)
    for d in range(0, 7):
        for hot in ([-1] + list(range(d))):
            nu, gam, hh, fr, M = integrate_markers(d, hot)
            ids = universe[:d]
            with Recorder(dadi) as rec:
                try:
                    out = D._integrate_phi('PHI-IN', 'XX', [list(map(float, nu)), 0.125, np.array(M).reshape(d, d), gam, hh, 7.5, fr], ids)
                    real = rec.calls
                except Exception as e:
                    real = 'raises:' + type(e).__name__
            mtok = ','.join('+'.join(rat(x) for x in row) for row in M) or '_'
            ans = drv.ask('c16g gintegrate %s %s %s %s %s %s %s %s' % ('+'.join(str(x) for x in nu) or '_', rat(0.125), mtok, G.rats(gam), G.rats(hh), rat(7.5),
                                                                      ''.join('1' if x else '0' for x in fr) or '_', N.encs(ids)))
            inp = dict(npop=d, frozen=fr)
            if isinstance(real, str):
                (chk.k_ok('gintegrate') if ans.startswith('err raises') else chk.k_bad('gintegrate', inp, real, ans[:300], 'the code raises')); continue
            if not ans.startswith('ok '):
                chk.k_bad('gintegrate', inp, show_calls(real), ans[:300], 'model error'); continue
            toks = [] if ans.split()[1] == '_' else ans.split()[1].split(';')
            ok = len(toks) == len(real)
            if ok and real:
                r = real[0]; p = toks[0].split('@')
                Mm = [rats_of(x) for x in p[5].split(',')]
                ok = p[0] == 'I' and p[1] == r[1] and near(num(p[2]), r[2]) and N.same_list(r[3], G.Names.decs(p[3])) and [c == '1' for c in p[4]] == [bool(x) for x in r[4]] \
                    and Mm == r[5] and [float(x) for x in p[6].split('+')] == [float(x) for x in r[6]] and rats_of(p[7]) == [float(x) for x in r[7]] \
                    and rats_of(p[8]) == [float(x) for x in r[8]] and near(num(p[9]), r[9])
            (chk.k_ok('gintegrate') if ok else chk.k_bad('gintegrate', inp, show_calls(real), ans[:400], 'dispatch / binding differs'))
            # L3 on the code alone
            if 1 <= d <= 5:
                chk.l3(('integrate-wiring', d, hot))
                why = wiring_violation(real, d, nu, gam, hh, fr, M, ids)
                if why is not None:
                    chk.fail('wiring:integrate:own-index', '_integrate_phi with %d populations (frozen flags %r): %s' % (d, fr, why), dict(kind='integrate-wiring', npop=d, hot=hot))

def wiring_violation(real, d, nu, gam, hh, fr, M, ids):
    if isinstance(real, str): return real
    if len(real) != 1 or real[0][0] != 'I': return 'calls made: %r' % ([c[0] for c in real],)
    r = real[0]
    if r[1] != INTEG[d]: return 'integrator %s for %d populations' % (r[1], d)
    if [float(x) for x in r[6]] != [float(x) for x in nu]: return 'nu1..nu%d receive %r, the list is %r' % (d, r[6], nu)
    if [bool(x) for x in r[4]] != fr: return 'frozen1..frozen%d receive %r, the list is %r' % (d, r[4], fr)
    want = [[0.0 if i == j else M[i][j] for j in range(d)] for i in range(d)]
    if r[5] != want: return 'm_ij receive %r, the matrix is %r' % (r[5], want)
    if list(r[3]) != list(ids) or r[2] != 0.125 or r[9] != 7.5: return 'T / theta0 / deme_ids'
    return None

def k_classify(chk, ctx, rng, n):
    """the model of the demes library's `discrete_demographic_events()` (`classifyEvents`, hand-written from the library's source) vs the
    library itself: random histories, augmented graphs (frozen branches), graphs exported from random dadi programs (every deme renamed
    at every Split record); the children of a split are compared as sets (the library builds them from a set)"""
    dadi = ctx['dadi']; drv = ctx['driver']; D = dadi.Demes.Demes
    from .c16 import resolve, output_with_record
    def canon(tok):
        p = tok.split('@')
        if p[1] == 'split': p[3] = '+'.join(sorted(p[3].split('+')))
        return '@'.join(p)
    def one(g, kind, inp):
        N = G.Names([d.name for d in g.demes])
        real = G.lib_events(g, N)
        ans = drv.ask('c16g classify %s' % G.enc_graph(g.asdict(), N))
        if not ans.startswith('ok '):
            chk.k_bad('classify', inp, real, ans[:300], 'model error'); return
        a = [] if real == '_' else [canon(x) for x in real.split(';')]
        b = [] if ans.split()[1] == '_' else [canon(x) for x in ans.split()[1].split(';')]
        ok = len(a) == len(b) and all(G.event_tokens_equal(x, y) for x, y in zip(a, b))
        (chk.k_ok('classify') if ok else chk.k_bad('classify', inp, real, ans[:600], 'discrete events differ'))
        chk.stat('K-classify:' + kind)
        for x in a: chk.stat('K-classify:event:' + x.split('@')[1])
    for it in range(n):
        h = S.History(rng, max_live=5, want_ancient=(it % 2 == 0), small_Ne=(it % 2 == 0))
        gd = h.graph_dict(); g0 = resolve(gd)
        one(g0, 'history', dict(graph=common.jsonable(gd)))
        sd = [a for a, _ in h.samples]; ts = [t for _, t in h.samples]
        if any(t > 0 for t in ts):
            try:
                g1, _, _ = D._augment_with_ancient_samples(g0, list(sd), list(ts))
                one(g1, 'augmented', dict(graph=common.jsonable(gd), samples=[list(x) for x in h.samples]))
            except Exception:
                chk.k_skipped += 1
        ops, d = S.random_program(rng, max_pops=int(rng.choice([2, 3, 4, 5])), p_reorder=0.45, clean=(it % 3 != 0))
        try:
            S.run_program(dadi, ops, 5)
            g2, _ = output_with_record(dadi, Nref=1000.0)
        except Exception:
            chk.k_skipped += 1; chk.stat('K-classify:export-raises'); continue
        one(g2, 'exported', dict(ops=common.jsonable(ops)))

def replay_case(chk, ctx, inp):
    dadi = ctx['dadi']
    from .c16 import resolve, dec
    inp = dec(inp)
    if inp['kind'] == 'integrate-wiring':
        D = dadi.Demes.Demes
        d, hot = inp['npop'], inp['hot']
        nu, gam, hh, fr, M = integrate_markers(d, hot); ids = ['n%d' % i for i in range(d)]
        with Recorder(dadi) as rec:
            try:
                D._integrate_phi('PHI-IN', 'XX', [list(map(float, nu)), 0.125, np.array(M).reshape(d, d), gam, hh, 7.5, fr], ids); real = rec.calls
            except Exception as e:
                real = 'raises:' + type(e).__name__
        why = wiring_violation(real, d, nu, gam, hh, fr, M, ids)
        if why is not None: chk.fail('wiring:integrate:own-index', 'replay: ' + why, common.jsonable(inp))
        return
    if inp['kind'] == 'scale-frozen':
        from .c16 import scale_graph
        smp = [tuple(x) for x in inp['samples']]
        why = scaled_calls(dadi, inp['graph'], [a for a, _ in smp], [t for _, t in smp], inp['c'], inp['theta'], resolve, scale_graph)
        if why is not None: chk.fail('scale:frozen-branch:mismatch', 'replay: ' + why, common.jsonable(inp))
        return
    if inp['kind'] == 'slice-rows':
        chk.l3(('slice-rows-replay',))
        class _R:
            def __init__(self, ts): self.ts = ts
        g = resolve(inp['graph']); t = inp['t']
        D = dadi.Demes.Demes
        g2 = dadi.Demes.DemesUtil.slice(g, t)
        alive = [d.name for d in g2.demes if d.end_time == 0]
        ev, pres = D._get_demographic_events(g2, g2.discrete_demographic_events(), alive)
        for iv, live in pres.items():
            x, y = float(iv[0]), float(iv[1]); ivo = (x + t if x != INF else INF, y + t)
            for d in live:
                a = D._sizes_at_time(g2, d, iv); b = D._sizes_at_time(g, d, ivo)
                if not (near(float(a[0]), float(b[0]), 1e-9) and near(float(a[1]), float(b[1]), 1e-9)):
                    chk.fail('slice:rows:mismatch', 'replay: sizes of %s on %r: %r vs %r' % (d, iv, a, b), common.jsonable(inp)); return
        return
    if inp['kind'] == 'frozen-dt':
        chk.l3(('frozen-dt-replay',)); return
    if inp['kind'] == 'Ne-threaded':
        g0 = resolve(inp['graph']); smp = [tuple(x) for x in inp['samples']]
        why = ne_threaded(dadi, g0, [a for a, _ in smp], [t for _, t in smp], inp['Ne'], inp['c'], inp['theta'])
        if why is not None: chk.fail('Ne:threaded:mismatch', 'replay: ' + why, common.jsonable(inp))
        return
    raise common.Infra('unknown case kind %r' % inp['kind'])
