"""C19 — the uncertainty machinery differentiates exactly and matches closed-form information.

T : tools/gen_Godambe.py regenerates Generated/Godambe.lean (stencils, branch conditions, step rule, cache key, matrix
    expressions of the statistics, multinomial augmentation, scalar/array flag of sum_chi2_ppf) from dadi/Godambe.py;
    Props/C19.lean proves exactness / symmetry / bootstrap-order / cache statements about those definitions.
K : Godambe.get_hess / get_grad / hessian_elem on polynomial test functions (degree <= 4, 1-5 parameters, zeros, tiny and
    negative values, `args` passing) vs the exact-rational Lean model (ops c19.hess / c19.grad / c19.elem / c19.step);
    the J / cU / Godambe / GIM / FIM / LRT / Wald / score assembly from the gradients and Hessian that the real code computed
    (captured by spies, sent as exact rationals; op c19.stats); theta augmentation and nested scatter/gather (c19.aug,
    c19.scatter, c19.gather); the module-level cache through a logging dictionary (c19.cache, real object identities);
    sum_chi2_ppf with scipy's cdf values as inputs (c19.chi2); Inference.ll(model, data) -- the function get_godambe differentiates --
    on spectra whose masks differ between model, data and bootstraps vs the generated per-entry expression summed over the entries
    the generated mask analysis leaves unmasked (c19.ll).
L3: the property statement on the real code, independent of the model: analytic derivatives of the polynomials (exact
    fractions); closed-form H, score, J, cU of linear Poisson models (plain, boot_theta_adjusts, multinom, log) with a
    Richardson-type O(eps^2) criterion, the closed forms summed over the entries masked in NEITHER the model NOR the data (H) /
    the respective bootstrap (its score) for mask patterns that differ between model, data and bootstraps; every statistic recomputed from the closed forms; bootstrap permutations; every call
    history against the same calls on a cleared cache; sum_chi2_ppf scalar vs array vs scipy survival functions.
Round 5: P-population and folded spectra in the pipeline (closed forms with the harness's own fold of the basis spectra; K c19.llnd,
    c19.bootmasknd); boot_theta_adjusts x the module-level cache (K c19.cacheadj with the generated effect flags; L3: the cache holds what
    the model function returned, histories, pairs permuted together); the PROVED explicit O(eps^2) constants of C19_get_hess_order /
    C19_get_grad_order evaluated on the real finite differences; sum_chi2_ppf with exact zeros at interior positions every run.
"""
import math, itertools, gc, contextlib, logging, io
from fractions import Fraction
import numpy as np
from . import common
from .common import rat, fmt_list, parse_list

PROP = 'C19'
GENERATED = ['Godambe', 'Fold']     # Fold: the pointwise programs of Spectrum.fold that the folded-data likelihood (llModelSeen) is built from
NEEDS_BUILD = False
NEEDS_DRIVER = True
DRIVER_MODULES = ['Godambe']

U = 2.3e-16

def coarse(x, bits=20):
    if x == 0: return 0.0
    m, e = math.frexp(float(x))
    return math.ldexp(round(m * (1 << bits)) / (1 << bits), e)

# ----------------------------------------------------------------------------------------------- polynomials
class Poly:
    """sum of c * prod p[k]**e[k]; coefficients are floats (exact rationals on the wire)"""
    def __init__(self, monos, n):
        self.monos = [(float(c), tuple(int(x) for x in e)) for c, e in monos]; self.n = n
    def __call__(self, p, shift=0.0, scale=1.0):
        tot = 0.0
        for c, e in self.monos:
            t = c
            for k, ek in enumerate(e):
                if ek: t = t * float(p[k]) ** ek
            tot += t
        return tot * scale + shift
    def exact(self, p):
        tot = Fraction(0)
        for c, e in self.monos:
            t = Fraction(c)
            for k, ek in enumerate(e):
                if ek: t *= Fraction(p[k]) ** ek
            tot += t
        return tot
    def degree(self):
        return max([sum(e) for c, e in self.monos if c != 0] + [0])
    def deriv(self, k):
        out = []
        for c, e in self.monos:
            if len(e) > k and e[k] > 0:
                e2 = list(e); e2[k] -= 1
                out.append((c * e[k], tuple(e2)))
        q = Poly([], self.n); q.monos = [(Fraction(c) if not isinstance(c, Fraction) else c, e) for c, e in out]
        return q
    def exactF(self, p):
        tot = Fraction(0)
        for c, e in self.monos:
            t = Fraction(c)
            for k, ek in enumerate(e):
                if ek: t *= Fraction(p[k]) ** ek
            tot += t
        return tot
    def mag(self, p, h):
        """sum of |terms| over the box p +- 2h: scale of the function values (for round-off amplification)"""
        tot = 0.0
        for c, e in self.monos:
            t = abs(float(c))
            for k, ek in enumerate(e):
                if ek: t *= (abs(float(p[k])) + 2 * abs(float(h[k]))) ** ek
            tot += t
        return tot
    def wire(self):
        if not self.monos: return '-'
        return ';'.join('%s:%s' % (rat(c), '.'.join(str(x) for x in e) if e else '-') for c, e in self.monos)
    def small(self):
        return [[c, list(e)] for c, e in self.monos]

def gen_poly(rng, n, deg):
    monos = []
    for e in itertools.product(range(deg + 1), repeat=n):
        if sum(e) > deg: continue
        if sum(e) >= 3 and rng.random() < 0.5: continue
        c = coarse(rng.uniform(-4, 4)) if rng.random() < 0.7 else float(rng.integers(-5, 6))
        if c == 0.0: continue
        monos.append((c, e))
    return Poly(monos, n)

PKINDS = ['normal', 'zero', 'tiny', 'negative', 'dyadic', 'threshold']

def gen_point(rng, n, eps):
    p = []; kinds = []
    for _ in range(n):
        k = PKINDS[int(rng.choice(len(PKINDS), p=[0.45, 0.15, 0.12, 0.1, 0.1, 0.08]))]
        if k == 'normal': v = coarse(rng.uniform(0.2, 6.0))
        elif k == 'zero': v = 0.0
        elif k == 'tiny': v = coarse(float(np.exp(rng.uniform(np.log(1e-9), np.log(0.5e-6 / eps)))))
        elif k == 'negative': v = -coarse(rng.uniform(0.05, 3.0))
        elif k == 'dyadic': v = float(rng.integers(1, 40)) / 8.0
        else: v = (1e-6 / eps) * (1 + float(rng.choice([-1e-3, 1e-3, -1e-6, 1e-6, 0.5])))
        p.append(v); kinds.append(k)
    return p, kinds

def gen_eps(rng):
    r = rng.random()
    if r < 0.15: return float(rng.choice([1e-4, 1e-1, 0.01, 0.001]))
    if r < 0.35: return float(2.0 ** -int(rng.integers(4, 14)))
    return float(np.exp(rng.uniform(np.log(1e-4), np.log(1e-1))))

def prop_rule(p, eps):
    """the property's step rule, in exact arithmetic: (step, one_sided, central?)"""
    P, E = Fraction(p), Fraction(eps)
    if P == 0: return E, False, False
    if P * E < Fraction(1, 10 ** 6): return E, True, False
    return E * P, False, True

def near_threshold(p, eps):
    P, E = Fraction(p), Fraction(eps)
    if P == 0: return False
    return abs(P * E - Fraction(1, 10 ** 6)) <= Fraction(1, 10 ** 17)

# ----------------------------------------------------------------------------------------------- stencil cases: K + L3
def stencil_case(chk, ctx, case):
    dadi = ctx['dadi']; G = dadi.Godambe; drv = ctx['driver']
    F = Poly([(c, e) for c, e in case['poly']], case['n']); p0 = [float(x) for x in case['p0']]; eps = float(case['eps']); n = case['n']
    use_args = case.get('use_args', False)
    args = (case.get('shift', 0.0), case.get('scale', 1.0)) if use_args else ()
    Fw = F
    if use_args:
        sh, sc = args
        wirepoly = Poly([(c * sc, e) for c, e in F.monos] + [(sh, ())], n)
        # c*sc must be exact: scale is a power of two
    else:
        wirepoly = F
    deg = F.degree()
    chk.stat('n=%d' % n); chk.stat('deg=%d' % deg)
    for k in case.get('kinds', []): chk.stat('p:' + k)
    if any(near_threshold(x, eps) for x in p0):
        chk.k_skipped += 1; chk.stat('skipped_near_1e-6_threshold'); return
    rule = [prop_rule(x, eps) for x in p0]
    h = [float(r[0]) for r in rule]
    mag = wirepoly.mag(p0, h)
    key = (n, deg, tuple(sorted(set(case.get('kinds', [])))), use_args, eps in (1e-4, 1e-1))
    small = dict(stencil=True, poly=F.small(), n=n, p0=p0, eps=eps, use_args=use_args, shift=case.get('shift', 0.0), scale=case.get('scale', 1.0),
                 kinds=case.get('kinds', []))
    # ---------------- get_hess
    chk.l3(('hess',) + key)
    try:
        with np.errstate(all='ignore'):
            H = np.asarray(G.get_hess(Fw, list(p0), eps, args=args), dtype=float)
    except Exception as e:
        chk.fail('get_hess:%s' % type(e).__name__, 'get_hess on a degree-%d polynomial in %d parameters raises %r' % (deg, n, e), small)
        H = None
    out = drv.ask('c19.hess %s %s %s' % (wirepoly.wire(), fmt_list(p0), rat(eps)))
    if H is not None:
        if not out.startswith('ok '):
            chk.k_bad('get_hess', small, H, out, None)
        else:
            t = out.split(' ')
            model = np.array([float(v) for v in parse_list(t[1])]).reshape(n, n)
            msteps = [float(v) for v in parse_list(t[2])]
            tol = np.array([[1e-9 * max(abs(model[i, j]), 1e-300) + 64 * U * (deg + 1) * mag / (msteps[i] * msteps[j]) for j in range(n)] for i in range(n)])
            if H.shape == (n, n) and np.all(np.isfinite(H)) and np.all(np.abs(H - model) <= tol): chk.k_ok('get_hess')
            else: chk.k_bad('get_hess', small, H, model, float(np.max(np.abs(H - model))) if H.shape == (n, n) else None)
            osbits = t[3] if len(t) > 3 else ''
            for i in range(n):
                chk.stat('stencil:' + ('one_sided' if (osbits[i:i + 1] == '1' or p0[i] == 0) else 'central'))
        # L3: exact second partials of a quadratic, symmetric matrix
        if H.shape != (n, n):
            chk.fail('get_hess:shape', 'get_hess returns shape %r for %d parameters' % (H.shape, n), small)
        else:
            if not np.array_equal(H, H.T):
                chk.fail('get_hess:asymmetric', 'get_hess returns a non-symmetric matrix', small)
            if deg <= 2:
                for i in range(n):
                    for j in range(n):
                        want = float(wirepoly.deriv(i).deriv(j).exactF(p0))
                        tol = 1e-9 * max(abs(want), 1e-300) + 64 * U * (deg + 1) * mag / (h[i] * h[j])
                        if not (abs(H[i, j] - want) <= tol):
                            chk.fail('get_hess:quadratic:inexact', 'get_hess of a quadratic: entry (%d,%d) is %r, the second partial is %r (p0=%r, eps=%r, step rule: %s)'
                                     % (i, j, float(H[i, j]), want, p0, eps, 'one-sided' if not (rule[i][2] and rule[j][2]) else 'central'), small)
                            break
                    else: continue
                    break
    # ---------------- get_grad
    chk.l3(('grad',) + key)
    try:
        with np.errstate(all='ignore'):
            g = np.asarray(G.get_grad(Fw, list(p0), eps, args=args), dtype=float)
    except Exception as e:
        chk.fail('get_grad:%s' % type(e).__name__, 'get_grad raises %r' % (e,), small); g = None
    out = drv.ask('c19.grad %s %s %s' % (wirepoly.wire(), fmt_list(p0), rat(eps)))
    if g is not None:
        if g.shape != (n, 1):
            chk.fail('get_grad:shape', 'get_grad returns shape %r, documented column of %d' % (g.shape, n), small)
        else:
            gv = g[:, 0]
            if not out.startswith('ok '):
                chk.k_bad('get_grad', small, gv, out, None)
            else:
                t = out.split(' ')
                model = np.array([float(v) for v in parse_list(t[1])])
                msteps = [float(v) for v in parse_list(t[2])]
                tol = np.array([1e-9 * max(abs(model[i]), 1e-300) + 64 * U * (deg + 1) * mag / msteps[i] for i in range(n)])
                if np.all(np.isfinite(gv)) and np.all(np.abs(gv - model) <= tol): chk.k_ok('get_grad')
                else: chk.k_bad('get_grad', small, gv, model, float(np.max(np.abs(gv - model))))
            # L3: central exact for quadratics, one-sided exact for linear functions
            for i in range(n):
                central = rule[i][2]
                if deg <= 1 or (deg <= 2 and central):
                    want = float(wirepoly.deriv(i).exactF(p0))
                    tol = 1e-9 * max(abs(want), 1e-300) + 64 * U * (deg + 1) * mag / h[i]
                    if not (abs(gv[i] - want) <= tol):
                        chk.fail('get_grad:%s:inexact' % ('central' if central else 'one_sided'),
                                 'get_grad of a degree-%d polynomial: entry %d is %r, the partial derivative is %r (p0=%r, eps=%r)' % (deg, i, float(gv[i]), want, p0, eps), small)
                        break
    # ---------------- hessian_elem directly (explicit steps and one-sided pattern, or the default one_sided=None)
    if n >= 1 and case.get('elem', True):
        rng = ctx['_rng']
        steps = [float(coarse(rng.uniform(0.003, 0.2))) * (1 if rng.random() < 0.8 else -1) for _ in range(n)]
        default_os = bool(rng.random() < 0.3)
        osl = [False] * n if default_os else [bool(rng.random() < 0.35) for _ in range(n)]
        ii = int(rng.integers(n)); jj = int(rng.integers(n))
        f0 = Fw(p0, *args)
        small2 = dict(small); small2.update(elem=dict(steps=steps, one_sided=None if default_os else osl, ii=ii, jj=jj))
        chk.l3(('elem', n, deg, ii == jj, default_os))
        try:
            with np.errstate(all='ignore'):
                v = float(G.hessian_elem(Fw, f0, list(p0), ii, jj, steps, args=args, one_sided=None if default_os else osl))
        except Exception as e:
            chk.fail('hessian_elem:%s' % type(e).__name__, 'hessian_elem raises %r' % (e,), small2); v = None
        if v is not None:
            out = drv.ask('c19.elem %s %s %s %s %d %d' % (wirepoly.wire(), fmt_list(p0), fmt_list(steps), ''.join('1' if b else '0' for b in osl), ii, jj))
            hm = wirepoly.mag(p0, [abs(s) for s in steps])
            if out.startswith('ok '):
                m = float(Fraction(out[3:]))
                tol = 1e-9 * max(abs(m), 1e-300) + 64 * U * (deg + 1) * hm / abs(steps[ii] * steps[jj])
                if abs(v - m) <= tol: chk.k_ok('hessian_elem')
                else: chk.k_bad('hessian_elem', small2, v, m, abs(v - m))
            else:
                chk.k_bad('hessian_elem', small2, v, out, None)
            if deg <= 2:
                want = float(wirepoly.deriv(ii).deriv(jj).exactF(p0))
                tol = 1e-9 * max(abs(want), 1e-300) + 64 * U * (deg + 1) * hm / abs(steps[ii] * steps[jj])
                if not abs(v - want) <= tol:
                    chk.fail('hessian_elem:quadratic:inexact', 'hessian_elem(%d,%d) of a quadratic is %r, the second partial is %r (steps %r, one_sided %r)'
                             % (ii, jj, v, want, steps, None if default_os else osl), small2)

def gen_stencil_case(rng, **force):
    n = force.get('n') or int(rng.integers(1, 6))
    deg = force.get('deg')
    if deg is None: deg = int(rng.choice([1, 2, 2, 2, 3, 4]))
    eps = force.get('eps') or gen_eps(rng)
    F = gen_poly(rng, n, deg)
    p0, kinds = gen_point(rng, n, eps)
    if force.get('p0') is not None: p0, kinds = force['p0'], force.get('kinds', ['forced'] * n)
    ua = bool(rng.random() < 0.3)
    return dict(poly=F.small(), n=n, p0=p0, eps=eps, kinds=kinds, use_args=ua, shift=coarse(rng.uniform(-3, 3)) if ua else 0.0,
                scale=float(2.0 ** int(rng.integers(-2, 3))) if ua else 1.0)

def step_rule_cases(chk, ctx, rng, count):
    """observe the step and the stencil that get_grad/get_hess really use (evaluation points of a one-parameter function) and
    compare with the generated rule (model) and with the property's rule (L3)"""
    dadi = ctx['dadi']; G = dadi.Godambe; drv = ctx['driver']
    for it in range(count):
        eps = gen_eps(rng)
        p, kinds = gen_point(rng, 1, eps)
        if it % 7 == 0: p = [(1e-6 / eps) * (1 + float(rng.choice([-1e-2, 1e-2, -1e-4, 1e-4])))]; kinds = ['threshold']
        x = p[0]
        if near_threshold(x, eps): chk.k_skipped += 1; continue
        pts = []
        def f(q): pts.append(float(q[0])); return 1.0 + 2.0 * float(q[0])
        small = dict(step_rule=True, p=x, eps=eps)
        obs = {}
        try:
            G.get_grad(f, [x], eps); gp = list(pts); pts.clear()
            G.get_hess(f, [x], eps); hp = list(pts)
        except Exception as e:
            chk.fail('step_rule:%s' % type(e).__name__, 'get_grad/get_hess on one parameter %r raises %r' % (x, e), small); continue
        # gradient: central = [x+h, x-h]; one-sided = [x+h, x];  hessian: [x] then central [x+h, x-h] / one-sided [x+2h, x+h]
        def classify_g(pp):
            if len(pp) >= 2 and pp[1] == x: return (pp[0] - x, 'one')
            if len(pp) >= 2: return ((pp[0] - pp[1]) / 2, 'central')
            return (None, '?')
        def classify_h(pp):
            if len(pp) != 3: return (None, '?')
            a, b = pp[1], pp[2]
            if a > x and b > x: return (a - b, 'one') if a > b else (b - a, 'one')
            return ((a - b) / 2, 'central')
        gs, gk = classify_g(gp); hs, hk = classify_h(hp)
        want_step, want_os, want_c = prop_rule(x, eps)
        chk.l3(('step', kinds[0], want_c)); chk.stat('step_rule:' + ('central' if want_c else ('one_sided_tiny' if want_os else 'one_sided_zero')))
        ok = (gk == ('central' if want_c else 'one')) and (hk == ('central' if want_c else 'one')) \
            and gs is not None and hs is not None and abs(gs - float(want_step)) <= 1e-6 * abs(float(want_step)) + 4 * U * abs(x) \
            and abs(hs - float(want_step)) <= 1e-6 * abs(float(want_step)) + 4 * U * abs(x)
        if not ok:
            chk.fail('step_rule', 'parameter %r, eps %r: get_grad evaluates at %r, get_hess at %r; the documented rule gives step %r, %s stencil'
                     % (x, eps, gp, hp, float(want_step), 'central' if want_c else 'one-sided'), small)
        out = drv.ask('c19.step %s %s' % (rat(x), rat(eps)))
        t = out.split(' ')
        if t[0] == 'ok':
            ms_h, mo_h, ms_g, mo_g = float(Fraction(t[1])), t[2] == '1', float(Fraction(t[3])), t[4] == '1'
            mk_h = 'one' if (mo_h or x == 0) else 'central'; mk_g = 'one' if (mo_g or x == 0) else 'central'
            if (mk_h == hk and mk_g == gk and hs is not None and gs is not None and abs(ms_h - hs) <= 1e-6 * abs(ms_h) + 4 * U * abs(x)
                    and abs(ms_g - gs) <= 1e-6 * abs(ms_g) + 4 * U * abs(x)):
                chk.k_ok('step_rule')
            else: chk.k_bad('step_rule', small, dict(grad=gp, hess=hp), out, None)
        else: chk.k_bad('step_rule', small, dict(grad=gp, hess=hp), out, None)

# ----------------------------------------------------------------------------------------------- linear Poisson models
def gen_model(rng, dadi, nparam=None, ncell=None, corners=False):
    """M(p) = B_0 + sum_k p_k B_k with positive spectra B_0..B_n on one population (the fixed offset B_0 keeps the model identifiable
    when theta is a free parameter: without it (p, theta) -> (c p, theta/c) leaves the model unchanged and H, J are singular);
    data and bootstraps Poisson around theta*M(ptrue).  Row 0 of B is the offset.  corners: the absent/fixed entries are positive too
    (a model that does not mask its corners)."""
    n = nparam or int(rng.integers(1, 4))
    ns = int(ncell or rng.integers(6, 13))
    B = np.zeros((n + 1, ns + 1))
    for k in range(n + 1):
        B[k, 1:ns] = np.vectorize(coarse)(rng.uniform(0.2, 3.0, ns - 1) * np.exp(-rng.uniform(0, 0.4) * np.arange(ns - 1) * (k + 1) / (n + 1)))
        if corners:
            B[k, 0] = coarse(rng.uniform(0.2, 3.0)); B[k, ns] = coarse(rng.uniform(0.2, 1.0))
    return dict(n=n, ns=ns, B=B)

def model_func(dadi, B, calls=None, tag=None, masks=None, shape=None):
    """masks (optional): entries the *model* masks beyond the corners (`model`, flat indices), corners left unmasked (`model_corners`);
    shape (optional): the spectrum is the flat array of B reshaped to that shape (P populations)"""
    mm = list((masks or {}).get('model', [])); mc = bool((masks or {}).get('model_corners'))
    def func(params, ns, pts):
        if calls is not None: calls.append((tag, tuple(float(x) for x in params)))
        a = B[0].copy()
        for k in range(B.shape[0] - 1):
            a = a + float(params[k]) * B[k + 1]
        if shape is not None: a = a.reshape(shape)
        if masks is None: return dadi.Spectrum(a)
        fs = dadi.Spectrum(a, mask_corners=not mc)
        for i in mm: fs.mask.flat[i] = True
        return fs
    return func

def own_fold(arr, mask):
    """folding of a (P-population) spectrum, from its definition: entries whose total derived-allele count is above half the total sample
    size are added to their mirror image (every axis reversed) and dropped (0, masked); entries at exactly half are averaged with their
    mirror image; an entry is masked if it or its mirror image was; the constructor masks the two corners.  Returns (values, mask)."""
    arr = np.asarray(arr, dtype=float); mask = np.asarray(mask, dtype=bool)
    rev = tuple(slice(None, None, -1) for _ in arr.shape)
    tot = np.indices(arr.shape).sum(axis=0); T = sum(n - 1 for n in arr.shape)
    out = np.where(2 * tot < T, arr + arr[rev], np.where(2 * tot == T, 0.5 * (arr + arr[rev]), 0.0))
    m = mask | mask[rev] | (2 * tot > T)
    m.flat[0] = True; m.flat[-1] = True
    return out, m

def gen_dataset(rng, dadi, mdl, p, theta, nboot, masks=None, shape=None, fold=False):
    M = (mdl['B'][0] + sum(p[k] * mdl['B'][k + 1] for k in range(mdl['n']))) * theta
    if shape is not None or fold:
        # P-population and/or folded data: the flat Poisson draw is reshaped, masked (flat indices) and then folded by the real code
        mk = masks or {}
        def drawnd(extra, unmask_corners):
            d = rng.poisson(M).astype(float)
            if not mk.get('model_corners'): d[0] = 0; d[-1] = 0
            if d[1:-1].sum() == 0: d[1] = 1.0
            fs = dadi.Spectrum(d.reshape(shape) if shape is not None else d, mask_corners=not unmask_corners)
            for i in extra: fs.mask.flat[i] = True
            return fs.fold() if fold else fs
        return drawnd(mk.get('data', []), bool(mk.get('data_corners'))), [drawnd(mk['boots'][b] if b < len(mk.get('boots', [])) else [], bool(mk.get('boot_corners')))
                                                                           for b in range(nboot)]
    if masks is None:
        def draw():
            d = rng.poisson(M).astype(float)
            d[0] = 0; d[-1] = 0
            if d[1:-1].sum() == 0: d[1] = 1.0
            return dadi.Spectrum(d)
        return draw(), [draw() for _ in range(nboot)]
    def drawm(extra, unmask_corners):
        d = rng.poisson(M).astype(float)
        if not masks.get('model_corners'): d[0] = 0; d[-1] = 0
        if d[1:-1].sum() == 0: d[1] = 1.0
        fs = dadi.Spectrum(d, mask_corners=not unmask_corners)
        for i in extra: fs.mask[i] = True
        return fs
    return drawm(masks.get('data', []), bool(masks.get('data_corners'))), [drawm(masks['boots'][b] if b < len(masks.get('boots', [])) else [], bool(masks.get('boot_corners')))
                                                                               for b in range(nboot)]

MASK_MODES = ['data_only', 'data_boots_same', 'boots_vary', 'model_only', 'model_and_data', 'corners', 'boot_corners']

def gen_masks(rng, mode, ns, nboot):
    """an explicit mask pattern (lists of entry indices of a spectrum with ns+1 entries) in which model, data and bootstraps differ:
    data_only: the data masks 1-3 entries (the low-frequency classes, or arbitrary ones) that neither the model nor the bootstraps mask;
    data_boots_same: data and every bootstrap mask the same entries, the model only its corners; boots_vary: every bootstrap its own set
    (some none); model_only: the model masks entries that data and bootstraps do not; model_and_data: both, partially overlapping,
    bootstraps like the data or on their own; corners: the model does not mask its (positive) corners while data/bootstraps do, or the
    data does not mask its corners while the model does, or both unmasked (bootstraps masked); boot_corners: the model does not mask its
    corners and the bootstraps do not either (e.g. drawn with data.sample() from data with visible corners), data with or without."""
    interior = list(range(1, ns))
    def pick(kmax=3, low=False):
        k = int(rng.integers(1, kmax + 1))
        if low: return list(range(1, 1 + k))
        return sorted(int(i) for i in rng.choice(interior, size=k, replace=False))
    m = dict(mode=mode, data=[], boots=[[] for _ in range(nboot)], model=[], model_corners=False, data_corners=False, boot_corners=False)
    if mode == 'data_only':
        m['data'] = pick(low=bool(rng.random() < 0.5))
    elif mode == 'data_boots_same':
        D = pick(low=bool(rng.random() < 0.5)); m['data'] = D; m['boots'] = [list(D) for _ in range(nboot)]
    elif mode == 'boots_vary':
        m['data'] = pick(2) if rng.random() < 0.5 else []
        m['boots'] = [pick(2) if (b == 0 or rng.random() < 0.7) else [] for b in range(nboot)]
    elif mode == 'model_only':
        m['model'] = pick(2)
    elif mode == 'model_and_data':
        m['model'] = pick(2); D = pick(2)
        if rng.random() < 0.5 and m['model'][0] not in D: D = sorted(D + [m['model'][0]])[:3]
        if all(i in m['model'] for i in D): D = sorted(set(D) | {[i for i in interior if i not in m['model']][0]})
        m['data'] = D
        m['boots'] = [list(D) if rng.random() < 0.5 else pick(2) for _ in range(nboot)]
    elif mode == 'corners':
        r = int(rng.integers(3))
        m['model_corners'] = r in (0, 2); m['data_corners'] = r in (1, 2)
        if rng.random() < 0.4: m['data'] = pick(2)
    elif mode == 'boot_corners':
        m['model_corners'] = True; m['boot_corners'] = True; m['data_corners'] = bool(rng.random() < 0.6)
    else:
        raise KeyError(mode)
    return m

@contextlib.contextmanager
def quiet(on=True):
    """ll_per_bin logs warnings and prints two numbers when the model masks entries that the data does not: expected for those patterns"""
    if not on:
        yield; return
    lg = logging.getLogger('Inference'); old = lg.disabled; lg.disabled = True
    try:
        with contextlib.redirect_stdout(io.StringIO()):
            yield
    finally:
        lg.disabled = old

def closed_forms(B, p, data, boots, thetas, mode, keep_d=None, keep_bs=None):
    """exact H = -d2 ll, per-bootstrap score vectors, for mode in plain | multinom | log | multinom_log.
    B: (1+n, cells) offset and basis, p: the parameter vector *as get_godambe sees it* (theta last for multinom).  keep_d / keep_bs[b]:
    boolean selection of the cells that are masked in neither the model nor the data / bootstrap b (None = all cells passed)."""
    B0 = B[0]; B = B[1:]
    n = B.shape[0]; nc = B.shape[1]
    if keep_d is None: keep_d = np.ones(nc, dtype=bool)
    if keep_bs is None: keep_bs = [np.ones(nc, dtype=bool) for _ in boots]
    if mode.startswith('multinom'):
        q = np.asarray(p[:-1]); th = p[-1]
        lin = B0 + q @ B
        M = th * lin
        dM = np.vstack([th * B, lin[None, :]])
        N = n + 1
        d2M = np.zeros((N, N, B.shape[1]))
        for k in range(n):
            d2M[k, n] = B[k]; d2M[n, k] = B[k]
    else:
        q = np.asarray(p); M = B0 + q @ B; dM = B.copy(); N = n; d2M = np.zeros((N, N, B.shape[1]))
    if mode.endswith('log'):
        pv = np.asarray(p, dtype=float)
        d2M = d2M * pv[:, None, None] * pv[None, :, None]
        for a in range(N):
            d2M[a, a] = d2M[a, a] + pv[a] * dM[a]
        dM = dM * pv[:, None]
    def hess(d, keep, t=1.0):
        # ll = -t M + d log(t M):  d2 = -t d2M + d (d2M/M - dM dM/M^2), summed over the kept cells
        Hm = np.zeros((N, N)); Mk = M[keep]; dk = d[keep]
        for a in range(N):
            for b in range(N):
                Hm[a, b] = -np.sum(-t * d2M[a, b][keep] + dk * (d2M[a, b][keep] / Mk - dM[a][keep] * dM[b][keep] / Mk ** 2))
        return Hm
    def score(d, keep, t=1.0):
        Mk = M[keep]; dk = d[keep]
        return np.array([np.sum(-t * dM[a][keep] + dk * dM[a][keep] / Mk) for a in range(N)])
    H = hess(data, keep_d)
    gs = [score(b, k, t) for b, k, t in zip(boots, keep_bs, thetas)]
    L = float(np.sum(np.abs(M[keep_d])) + np.sum(np.abs(data[keep_d] * np.log(M[keep_d]))) + np.sum(np.abs([math.lgamma(v + 1) for v in data[keep_d]])))
    return H, gs, L

def stats_from(H, gs, diff=None):
    n = H.shape[0]
    J = sum(np.outer(g, g) for g in gs) / len(gs)
    cU = sum(gs) / len(gs)
    out = dict(J=J, cU=cU)
    with np.errstate(all='ignore'):
        Hi = np.linalg.inv(H); Ji = np.linalg.inv(J)
        G = H @ Ji @ H
        out['GIM'] = G
        out['varGIM'] = np.diag(np.linalg.inv(G)); out['varFIM'] = np.diag(Hi)
        out['lrt'] = n / np.trace(J @ Hi)
        out['scoreOrg'] = float(cU @ Hi @ cU); out['scoreAdj'] = float(cU @ Ji @ cU)
        if diff is not None:
            out['waldAdj'] = float(diff @ G @ diff); out['waldOrg'] = float(diff @ H @ diff)
    return out

class Spy:
    """records what get_hess / get_grad / get_godambe receive and return (the real functions run unchanged)"""
    def __init__(self, G):
        self.G = G; self.hess = []; self.grads = []; self.god = []
        self.o_h, self.o_g, self.o_gg = G.get_hess, G.get_grad, G.get_godambe
    def __enter__(self):
        G = self.G
        def gh(func, p0, eps, args=()):
            r = self.o_h(func, p0, eps, args=args); self.hess.append((list(np.asarray(p0, dtype=float)), np.array(r, dtype=float))); return r
        def gg(func, p0, eps, args=()):
            r = self.o_g(func, p0, eps, args=args); self.grads.append((list(np.asarray(p0, dtype=float)), np.array(r, dtype=float)[:, 0], args)); return r
        def god(func_ex, grid_pts, all_boot, p0, data, eps, log=False, just_hess=False, boot_theta_adjusts=[]):
            self.god.append(dict(func_ex=func_ex, p0=list(np.asarray(p0, dtype=float)), log=log, just_hess=just_hess, nboot=len(all_boot)))
            return self.o_gg(func_ex, grid_pts, all_boot, p0, data, eps, log=log, just_hess=just_hess, boot_theta_adjusts=boot_theta_adjusts)
        G.get_hess, G.get_grad, G.get_godambe = gh, gg, god
        return self
    def __exit__(self, *a):
        self.G.get_hess, self.G.get_grad, self.G.get_godambe = self.o_h, self.o_g, self.o_gg

def fmt_mat(A):
    A = np.asarray(A, dtype=float)
    return ';'.join(fmt_list(r.tolist()) for r in A) if A.size else '-'

def parse_mat(s):
    return np.array([[float(v) for v in parse_list(r)] for r in s.split(';')]) if s != '-' else np.zeros((0, 0))

def cond(A):
    try:
        return float(np.linalg.cond(A))
    except Exception:
        return float('inf')

def rel_close(a, b, tol):
    a = np.asarray(a, dtype=float); b = np.asarray(b, dtype=float)
    if a.shape != b.shape or not np.all(np.isfinite(a)): return False
    s = float(np.max(np.abs(b))) if b.size else 0.0
    return bool(np.all(np.abs(a - b) <= tol * max(s, 1e-300)))

APIS = ['GIM_uncert', 'FIM_uncert', 'LRT_adjust', 'Wald_stat', 'score_stat']
APIS_ALL = APIS + ['get_godambe']

def call_api(G, api, func, pts, boots, p0, data, eps, multinom, log=False, nested=None, full=None, thetas=None, variant=None):
    """`variant`: GIM_uncert/FIM_uncert: 'plain' = return_GIM/return_FIM False (the result is then completed with None entries);
    get_godambe: 'just_hess'.  The result always has the shape of the full variant."""
    if api == 'get_godambe':
        if variant == 'just_hess':
            return (None, G.get_godambe(func, pts, boots, p0, data, eps, log=log, just_hess=True, boot_theta_adjusts=thetas if thetas else []), None, None)
        return G.get_godambe(func, pts, boots, p0, data, eps, log=log, boot_theta_adjusts=thetas if thetas else [])
    if api == 'GIM_uncert':
        if variant == 'plain':
            return (G.GIM_uncert(func, pts, boots, p0, data, log=log, multinom=multinom, eps=eps, boot_theta_adjusts=thetas), None, None)
        return G.GIM_uncert(func, pts, boots, p0, data, log=log, multinom=multinom, eps=eps, return_GIM=True, boot_theta_adjusts=thetas)
    if api == 'FIM_uncert':
        if variant == 'plain':
            return (G.FIM_uncert(func, pts, p0, data, log=log, multinom=multinom, eps=eps), None)
        return G.FIM_uncert(func, pts, p0, data, log=log, multinom=multinom, eps=eps, return_FIM=True)
    if api == 'LRT_adjust':
        return G.LRT_adjust(func, pts, boots, p0, data, nested, multinom=multinom, eps=eps, boot_theta_adjusts=thetas)
    if api == 'Wald_stat':
        # `full_params` may be given for the nested parameters only (in the order of `nested_indices`) or as the complex model's whole
        # parameter list; half of the unambiguous cases use the second form (decided from the case's own numbers, so a replay repeats it)
        fp = full
        if (not multinom) and nested is not None and len(nested) < len(p0) and int(round(abs(float(full[0])) * 1e6)) % 2 == 0:
            fp = [float(v) for v in p0]
            for k_, i_ in enumerate(nested): fp[i_] = full[k_]
        return G.Wald_stat(func, pts, boots, p0, data, nested, fp, multinom=multinom, eps=eps, adj_and_org=True)
    if api == 'score_stat':
        return G.score_stat(func, pts, boots, p0, data, nested, multinom=multinom, eps=eps, adj_and_org=True)
    raise KeyError(api)

def flat_result(api, r):
    if api in ('GIM_uncert', 'FIM_uncert', 'get_godambe'):
        return np.concatenate([np.asarray(x, dtype=float).ravel() for x in r if x is not None])
    if api == 'LRT_adjust': return np.array([float(r)])
    return np.array([float(r[0]), float(r[1])])

def gen_pipeline_case(rng, dadi, api=None, **force):
    """force: nparam, multinom, log, thetas_mode, variant, mask_mode (None/'none' = model, data and bootstraps all mask exactly the
    corners; otherwise one of MASK_MODES), nested_size (number of nested indices; with multinom=True the index of theta may be among them)"""
    mask_mode = force.get('mask_mode') or 'none'
    mc = None
    shape = tuple(force['shape']) if force.get('shape') else None; fold = bool(force.get('fold'))
    ncell = None
    if mask_mode != 'none':
        # enough entries that 2-5 masked ones leave the information matrices well determined
        ncell = int(rng.integers(11, 17))
        mc = bool(mask_mode in ('corners', 'boot_corners'))
    if fold and shape is None: ncell = int(rng.integers(16, 23))           # folding halves the number of entries that enter
    if shape is not None: ncell = int(np.prod(shape)) - 1
    mdl = gen_model(rng, dadi, nparam=force.get('nparam'), ncell=ncell, corners=bool(mc))
    n = mdl['n']
    api = api or APIS[int(rng.integers(len(APIS)))]
    multinom = bool(rng.random() < 0.5) if 'multinom' not in force else force['multinom']
    if api == 'get_godambe': multinom = False           # get_godambe has no multinom option (the entry points wrap the model)
    log = bool(api in ('GIM_uncert', 'FIM_uncert', 'get_godambe') and rng.random() < 0.4) if 'log' not in force else force['log']
    # log-parameters: the stencils see log(p); keep log(p)*eps/2 above 1e-6 so that the central (second-order) stencils apply
    p = [coarse(rng.uniform(1.3, 3.0) if log else rng.uniform(0.4, 3.0)) for _ in range(n)]
    theta = coarse(rng.uniform(20, 200))
    nboot = int(rng.integers(max(4, n + 3), 12))
    eps = float(np.exp(rng.uniform(np.log(1e-4), np.log(1e-1)))) if rng.random() < 0.8 else float(rng.choice([1e-4, 1e-2, 1e-1]))
    nested = None; full = None
    if api in ('LRT_adjust', 'Wald_stat', 'score_stat'):
        if n == 1 and not multinom:
            nested = [0]
        else:
            k = int(rng.integers(1, n + 1)) if n > 1 else 1
            if force.get('nested_size'): k = int(force['nested_size'])
            pool = n + 1 if (multinom and (force.get('nested_size') or rng.random() < 0.3)) else n      # index n = theta (multinom only)
            nested = sorted(int(i) for i in rng.choice(pool, size=min(k, pool), replace=False))
            # Wald_stat reads a `full_params` of length len(p0) as the whole parameter list: keep the nested form unambiguous
            if api == 'Wald_stat' and multinom and n in nested and len(nested) == n:
                nested = sorted(int(i) for i in rng.choice(n, size=min(k, n), replace=False))
            # the caller lists the nested parameters in any order (not only ascending)
            # (Wald_stat reads a full_params as long as p0 as the whole parameter list in parameter order: with all n parameters nested the
            #  two readings coincide only for ascending indices, so that case keeps them ascending)
            if len(nested) >= 2 and not (api == 'Wald_stat' and len(nested) >= n) and rng.random() < 0.6:
                nested = [int(i) for i in rng.permutation(nested)]
        if force.get('nested_desc') and len(nested) >= 2 and not (api == 'Wald_stat' and len(nested) >= n):
            nested = sorted(nested, reverse=True)
        full = [coarse((p[i] if i < n else theta) * rng.uniform(0.7, 1.3)) for i in nested]
        if force.get('full_long') is not None:
            # call_api passes the whole parameter list for Wald_stat when round(|full[0]|*1e6) is even: steer that choice
            want_even = bool(force['full_long'])
            if (int(round(abs(float(full[0])) * 1e6)) % 2 == 0) != want_even: full[0] = full[0] + 1e-6
    tmode = force.get('thetas_mode')
    if tmode is None:
        tmode = 'none'
        if (not multinom) and api in ('GIM_uncert', 'LRT_adjust', 'get_godambe') and rng.random() < 0.5:
            tmode = 'varied' if rng.random() < 0.75 else 'ones'
    thetas = None if tmode == 'none' else ([1.0] * nboot if tmode == 'ones' else [coarse(rng.uniform(0.6, 1.5)) for _ in range(nboot)])
    variant = force.get('variant')
    if 'variant' not in force and api in ('GIM_uncert', 'FIM_uncert') and rng.random() < 0.3: variant = 'plain'
    case = dict(pipeline=True, api=api, B=mdl['B'], n=n, ns=mdl['ns'], p=p, theta=theta, nboot=nboot, eps=eps, multinom=multinom, log=log,
                nested=nested, full=full, thetas=thetas, thetas_mode=tmode, variant=variant, dseed=int(rng.integers(1 << 30)))
    if shape is not None: case['shape'] = list(shape)
    if fold: case['fold'] = True
    if mask_mode != 'none':
        case['masks'] = gen_masks(rng, mask_mode, mdl['ns'], nboot)
        if mask_mode == 'corners' and not case['masks']['model_corners']:
            case['B'] = np.array(case['B']); case['B'][:, 0] = 0.0; case['B'][:, -1] = 0.0      # a model that masks its corners has nothing there
    return case

def realise(dadi, case):
    r = np.random.default_rng(case['dseed'])
    B = np.asarray(case['B'], dtype=float) if not isinstance(case['B'], dict) else np.array(case['B']['data'], dtype=float).reshape(case['B']['shape'])
    mdl = dict(n=case['n'], ns=case['ns'], B=B)
    masks = case.get('masks')
    shape = tuple(case['shape']) if case.get('shape') else None
    data, boots = gen_dataset(r, dadi, mdl, case['p'], case['theta'], case['nboot'], masks=masks, shape=shape, fold=bool(case.get('fold')))
    if case.get('thetas') and (shape is not None or case.get('fold')):
        nb = []
        for b, t in zip(boots, case['thetas']):
            v = np.round(np.asarray(b.data) * t)
            nb.append(dadi.Spectrum(v, mask=np.array(np.ma.getmaskarray(b)), mask_corners=False, data_folded=bool(case.get('fold'))))
        boots = nb
    elif case.get('thetas') and masks is None:
        boots = [dadi.Spectrum(np.round(np.asarray(b) * t)) for b, t in zip(boots, case['thetas'])]
        for b in boots:
            if b[1:-1].sum() == 0: b[1] = 1.0
    elif case.get('thetas'):
        nb = []
        for b, t in zip(boots, case['thetas']):
            v = np.round(np.asarray(b.data) * t)
            if v[1:-1].sum() == 0: v[1] = 1.0
            nb.append(dadi.Spectrum(v, mask=np.array(np.ma.getmaskarray(b)), mask_corners=False))
        boots = nb
    return B, data, boots

def keep_sets(case, ncell, data, boots):
    """from the property statement: the entries that are masked in neither the model nor the data (-> H), and in neither the model nor
    bootstrap b (-> its score).  Model: its corners unless `model_corners`, plus masks['model']."""
    masks = case.get('masks') or {}
    mk = np.ones(ncell, dtype=bool)
    if not masks.get('model_corners'): mk[0] = False; mk[-1] = False
    for i in masks.get('model', []): mk[i] = False
    if case.get('fold'):
        # folded data: the likelihood is taken on the folded model, whose mask is the model's mask or its mirror image, the folded-out half, the corners
        shp = tuple(case['shape']) if case.get('shape') else (ncell,)
        mk = ~own_fold(np.zeros(shp), (~mk).reshape(shp))[1].ravel()
    return mk, mk & ~np.ma.getmaskarray(data).ravel(), [mk & ~np.ma.getmaskarray(b).ravel() for b in boots]

def bits(mask):
    return ''.join('1' if b else '0' for b in np.asarray(mask, dtype=bool).ravel())

def ll_k_case(chk, ctx, small, model, data, tag):
    """K: Inference.ll(model, data) and the number of entries it sums vs the Lean model (generated per-entry expression, generated
    mask analysis); log(model) and gammaln(data+1) are inputs"""
    dadi = ctx['dadi']; drv = ctx['driver']
    if np.ndim(model) != 1 or getattr(data, 'folded', False) or getattr(model, 'folded', False):
        return ll_nd_k_case(chk, ctx, small, model, data, tag)
    mm = np.ma.getmaskarray(model); dm = np.ma.getmaskarray(data)
    m = np.asarray(model.data, dtype=float).ravel(); d = np.asarray(data.data, dtype=float).ravel()
    if not (np.all(np.isfinite(m)) and np.all(np.isfinite(d)) and np.all(d >= 0)):
        chk.k_skipped += 1; return
    logm = [math.log(v) if v > 0 else 0.0 for v in m]
    lg = [math.lgamma(v + 1.0) for v in d]
    with quiet(), np.errstate(all='ignore'):
        got = float(dadi.Inference.ll(model, data)); cnt = int(dadi.Inference.ll_per_bin(model, data).count())
    out = drv.ask('c19.ll %s %s %s %s %s %s' % (bits(mm), bits(dm), fmt_list(m.tolist()), fmt_list(d.tolist()), fmt_list(logm), fmt_list(lg)))
    t = out.split(' ')
    sm = dict(small); sm['ll'] = dict(which=tag, model_mask=bits(mm), data_mask=bits(dm))
    if t[0] != 'ok':
        chk.k_bad('ll', sm, got, out, None); return
    want = float(Fraction(t[1])); wc = int(t[2])
    scale = float(np.sum(np.abs(m)) + np.sum(np.abs(d * np.array(logm))) + np.sum(np.abs(lg)))
    if cnt == wc and abs(got - want) <= 1e-10 * max(scale, 1e-300): chk.k_ok('ll')
    else: chk.k_bad('ll', sm, dict(ll=got, entries=cnt), dict(ll=want, entries=wc), abs(got - want))
    chk.stat('ll:model_mask%sdata_mask' % ('=' if np.array_equal(mm, dm) else ('<' if np.all(dm[mm]) else ('>' if np.all(mm[dm]) else '<>'))))

def ll_nd_k_case(chk, ctx, small, model, data, tag):
    """K for P-population and/or folded spectra: Inference.ll(model, data) -- which folds the model itself when the data is folded and
    the model is not -- vs the Lean model (generated folding switch, the pointwise programs generated from Spectrum.fold, generated
    per-entry expression and mask analysis).  The logarithms handed to the model are those of the harness's OWN fold of the model; the
    model's folded values and mask are compared with the real `model.fold()` as well."""
    dadi = ctx['dadi']; drv = ctx['driver']
    df = bool(getattr(data, 'folded', False)); mf = bool(getattr(model, 'folded', False))
    mm = np.ma.getmaskarray(model); dm = np.ma.getmaskarray(data)
    m = np.asarray(model.data, dtype=float); d = np.asarray(data.data, dtype=float)
    if not (np.all(np.isfinite(m)) and np.all(np.isfinite(d)) and np.all(d >= 0)) or (mf and not df):
        chk.k_skipped += 1; return
    seen_v, seen_m = own_fold(m, mm) if (df and not mf) else (m, mm)
    logm = [math.log(v) if v > 0 else 0.0 for v in seen_v.ravel()]
    lg = [math.lgamma(v + 1.0) for v in d.ravel()]
    with quiet(), np.errstate(all='ignore'):
        got = float(dadi.Inference.ll(model, data)); cnt = int(dadi.Inference.ll_per_bin(model, data).count())
        real_fold = model.fold() if (df and not mf) else model
    out = drv.ask('c19.llnd %s %d %d %s %s %s %s %s %s' % (','.join(str(n) for n in m.shape), df, mf, bits(mm), bits(dm), fmt_list(m.ravel().tolist()),
                                                        fmt_list(d.ravel().tolist()), fmt_list(logm), fmt_list(lg)))
    t = out.split(' ')
    sm = dict(small); sm['ll'] = dict(which=tag, shape=list(m.shape), data_folded=df, model_folded=mf, model_mask=bits(mm), data_mask=bits(dm))
    if t[0] != 'ok' or len(t) != 5:
        chk.k_bad('ll', sm, got, out, None); return
    want = float(Fraction(t[1])); wc = int(t[2])
    mv = np.array([float(v) for v in parse_list(t[3])]); mb = t[4]
    scale = float(np.sum(np.abs(seen_v)) + np.sum(np.abs(d.ravel() * np.array(logm))) + np.sum(np.abs(lg)))
    rm = np.ma.getmaskarray(real_fold).ravel(); rv = np.asarray(real_fold.data, dtype=float).ravel()
    fold_ok = (mb == bits(rm)) and np.all(np.abs(mv - rv)[~rm] <= 1e-12 * np.maximum(np.abs(rv[~rm]), 1e-300))
    if cnt == wc and abs(got - want) <= 1e-10 * max(scale, 1e-300) and fold_ok: chk.k_ok('ll')
    else: chk.k_bad('ll', sm, dict(ll=got, entries=cnt, model_mask_seen=bits(rm)), dict(ll=want, entries=wc, model_mask_seen=mb), abs(got - want))
    chk.stat('ll:%dD%s' % (m.ndim, ':folded_data' if df else ''))

def pipeline_case(chk, ctx, case):
    """one entry point on one linear Poisson model: K (assembly from the captured gradients/Hessian) and L3 (closed forms)"""
    dadi = ctx['dadi']; G = dadi.Godambe; drv = ctx['driver']
    B, data, boots = realise(dadi, case)
    api, n, eps, multinom, log = case['api'], case['n'], case['eps'], case['multinom'], case['log']
    small = dict(case); small['B'] = np.asarray(B)
    # multinom=False: theta is part of the model (all spectra scaled by it); multinom=True: theta is found by the code
    if not multinom: B = B * case['theta']
    masks = case.get('masks'); mmode = masks['mode'] if masks else 'none'
    shape = tuple(case['shape']) if case.get('shape') else None; fold = bool(case.get('fold'))
    func = model_func(dadi, B, masks=masks, shape=shape)
    p_in = list(case['p']); f_in = func
    nested, full, thetas = case['nested'], case['full'], case['thetas']
    variant = case.get('variant'); tmode = case.get('thetas_mode') or ('varied' if thetas else 'none')
    key0 = '%s:multinom=%s%s%s%s%s%s' % (api, multinom, ':log' if log else '', ':boot_theta_adjusts' if tmode == 'varied' else '', ':masks=' + mmode if masks else '',
                                      ':%dpop' % len(shape) if shape else '', ':folded' if fold else '')
    chk.l3((api, multinom, log, n, tmode, variant, tuple(nested) if nested else None, mmode, len(shape) if shape else 1, fold))
    chk.stat('masks:' + mmode); chk.stat('spectra:%dpop%s' % (len(shape) if shape else 1, ':folded' if fold else ''))
    if nested is not None: chk.stat('nested_indices:%d%s' % (len(nested), ':with_theta' if (multinom and n in nested) else ''))
    chk.stat('api:' + api); chk.stat('multinom:%s' % multinom);
    if log: chk.stat('log_params')
    if thetas: chk.stat('boot_theta_adjusts:' + tmode)
    chk.stat('options:%s:log=%s:multinom=%s:adjusts=%s:%s' % (api, log, multinom, tmode, variant or 'full'))
    G.cache.clear()
    with Spy(G) as spy:
        try:
            with np.errstate(all='ignore'), quiet(masks is not None):
                # the parameter vector is handed over as a list or (every other case, decided from the case's own numbers) as a float64 array
                p_arg = np.array(p_in, dtype=float) if int(round(abs(float(p_in[0])) * 1e7)) % 2 == 1 else p_in
                res = call_api(G, api, f_in, [10], boots, p_arg, data, eps, multinom, log=log, nested=nested, full=full, thetas=thetas, variant=variant)
        except Exception as e:
            chk.fail('%s:%s' % (key0, type(e).__name__), '%s on a linear Poisson model raises %r' % (api, e), small); return
    if isinstance(p_arg, np.ndarray):
        # "any sequence of calls": the same call once more, with the same objects, is the shortest sequence (outside the recorder)
        chk.stat('p0:ndarray')
        try:
            with np.errstate(all='ignore'), quiet(masks is not None):
                res2 = call_api(G, api, f_in, [10], boots, p_arg, data, eps, multinom, log=log, nested=nested, full=full, thetas=thetas, variant=variant)
        except Exception as e:
            chk.fail('%s:repeat:%s' % (key0, type(e).__name__), '%s raises %r when called a second time with the same objects' % (api, e), small); return
        f1, f2 = flat_result(api, res), flat_result(api, res2)
        if f1.shape != f2.shape or not np.allclose(f1, f2, rtol=1e-9, atol=0, equal_nan=True):
            chk.fail(key0 + ':repeat', '%s called twice in a row with the same objects (p0 a float64 array) gives %s then %s; p0 is now %s (was %s)'
                     % (api, f1[:4], f2[:4], list(p_arg), p_in), small); return
    if not spy.god or not spy.hess:
        chk.fail(key0 + ':no_godambe_call', '%s did not go through get_godambe/get_hess' % api, small); return
    god = spy.god[0]
    Hraw = spy.hess[0][1]; H = -Hraw
    N = H.shape[0]
    grads = [g for _, g, _ in spy.grads]
    # ---- glue (K): parameters handed on = augmentation / gather, the wrapped function = theta * model / scatter
    theta_opt = None
    if multinom:
        with quiet(masks is not None):
            theta_opt = float(dadi.Inference.optimal_sfs_scaling(func(p_in, None, None), data))
        out = drv.ask('c19.aug %s %s' % (fmt_list(p_in), rat(theta_opt)))
        p_aug = [float(v) for v in parse_list(out[3:])] if out.startswith('ok ') else None
    else:
        p_aug = list(p_in)
    if nested is not None:
        out = drv.ask('c19.gather %s %s' % (fmt_list(p_aug), ','.join(str(i) for i in nested)))
        p_expect = [float(v) for v in parse_list(out[3:])] if out.startswith('ok ') else None
    else:
        p_expect = p_aug
    if log and p_expect is not None: p_expect_seen = [math.log(v) for v in p_expect]
    else: p_expect_seen = p_expect
    if p_expect is not None and len(god['p0']) == len(p_expect) and np.allclose(god['p0'], p_expect, rtol=1e-12, atol=0) \
            and np.allclose(spy.hess[0][0], p_expect_seen, rtol=1e-12, atol=0):
        chk.k_ok('params_passed')
    else:
        chk.k_bad('params_passed', small, dict(godambe=god['p0'], hess=spy.hess[0][0]), p_expect, None)
    # the function handed to get_godambe, evaluated at a test point
    tp = [coarse(v * 1.1 + 0.05) for v in god['p0']]
    try:
        got = np.asarray(god['func_ex'](np.array(tp), (case['ns'],), [10]), dtype=float)
        if nested is not None:
            out = drv.ask('c19.scatter %s %s %s' % (fmt_list(p_aug), ','.join(str(i) for i in nested), fmt_list(tp)))
            fullp = [float(v) for v in parse_list(out[3:])]
        else: fullp = tp
        want = (fullp[-1] * np.asarray(func(fullp[:-1], None, None))) if multinom else np.asarray(func(fullp, None, None))
        if rel_close(got, np.asarray(want, dtype=float), 1e-12): chk.k_ok('wrapped_function')
        else: chk.k_bad('wrapped_function', small, got, want, None)
    except Exception as e:
        chk.k_bad('wrapped_function', small, repr(e), None, None)
    # ---- assembly (K): everything derived from H and the gradients, in exact rationals
    ret = flat_result(api, res)
    hess_only = api == 'FIM_uncert' or (api == 'get_godambe' and variant == 'just_hess')
    if not hess_only and not grads:
        chk.fail(key0 + ':no_gradients', '%s did not evaluate any bootstrap gradient' % api, small); return
    diff = None
    if api == 'Wald_stat':
        diff = np.asarray(full, dtype=float) - np.asarray(god['p0'], dtype=float)
    cH = cond(H)
    if hess_only:
        out = drv.ask('c19.stats %s %s -' % (fmt_mat(H), fmt_mat([[1.0] * N] * 1)))
    else:
        out = drv.ask('c19.stats %s %s %s' % (fmt_mat(H), fmt_mat(grads), fmt_list(diff.tolist()) if diff is not None else '-'))
    t = out.split(' ')
    if t[0] != 'ok' or len(t) != 11:
        chk.k_bad('assembly:' + api, small, ret, out, None)
    else:
        J = parse_mat(t[1]); cJ = cond(J) if not hess_only else 1.0
        amp = 1e-9 + 200 * U * (cH + cJ + cH * cJ if not hess_only else cH)
        if not math.isfinite(amp) or amp > 1e-3 or 'E' in [t[3]] and not hess_only:
            chk.k_skipped += 1; chk.stat('skipped_illconditioned')
        else:
            def f(i): return None if t[i] == 'E' else (parse_mat(t[i]) if ';' in t[i] or i in (1, 2, 3) else np.array([float(v) for v in parse_list(t[i])]))
            ok = True; worst = 0.0
            def cmp(a, b):
                nonlocal ok, worst
                if b is None: ok = False; return
                a = np.asarray(a, dtype=float).ravel(); b = np.asarray(b, dtype=float).ravel()
                if a.shape != b.shape or not np.all(np.isfinite(a)): ok = False; return
                s = max(float(np.max(np.abs(b))), 1e-300)
                e = float(np.max(np.abs(a - b))) / s; worst = max(worst, e)
                if e > amp: ok = False
            def cmp_unc(u, var):
                # numpy.sqrt of a negative variance (indefinite information away from the optimum) is nan
                nonlocal ok
                if var is None: ok = False; return
                u = np.asarray(u, dtype=float); neg = var < 0
                if u.shape != var.shape or not np.array_equal(np.isnan(u), neg): ok = False; return
                if np.any(~neg): cmp((u ** 2)[~neg], var[~neg])
            if api == 'GIM_uncert':
                cmp_unc(res[0], f(4))
                if res[1] is not None: cmp(res[1], f(3)); cmp(res[2], H)
            elif api == 'FIM_uncert':
                cmp_unc(res[0], f(5))
                if res[1] is not None: cmp(res[1], H)
            elif api == 'get_godambe':
                cmp(res[1], H)
                if res[0] is not None: cmp(res[0], f(3)); cmp(res[2], f(1)); cmp(np.asarray(res[3]).ravel(), np.asarray(f(2)).ravel())
            elif api == 'LRT_adjust':
                cmp([res], f(6))
            elif api == 'Wald_stat':
                cmp([res[0]], f(7)); cmp([res[1]], f(8))
            else:
                cmp([res[0]], f(10)); cmp([res[1]], f(9))
            if ok: chk.k_ok('assembly:' + api)
            else: chk.k_bad('assembly:' + api, small, ret, out[:400], worst)
    # ---- the spectra whose likelihood was differentiated: the data as given (args of get_hess), every bootstrap as get_grad received it
    seen = [a[0] for _, _, a in spy.grads if len(a) >= 1]
    remasked = {}
    if not hess_only and len(seen) == len(boots):
        for b, (given, got) in enumerate(zip(boots, seen)):
            gm, sm_ = np.ma.getmaskarray(given), np.ma.getmaskarray(got)
            if gm.ndim == 1:
                out = drv.ask('c19.bootmask %s' % bits(gm))
                want_out = 'ok ' + bits(sm_)
            else:
                # P populations: the mask on the flat array, and where the two corner entries [0,...,0] and [n1,...,nP] are in it
                out = drv.ask('c19.bootmasknd %s %s' % (','.join(str(v) for v in gm.shape), bits(gm)))
                want_out = 'ok %s %d %d' % (bits(sm_), int(np.ravel_multi_index(tuple(0 for _ in gm.shape), gm.shape)),
                                            int(np.ravel_multi_index(tuple(v - 1 for v in gm.shape), gm.shape)))
            if out == want_out: chk.k_ok('bootstrap_mask')
            else: chk.k_bad('bootstrap_mask', small, want_out, out, None)
            if not np.array_equal(gm, sm_): remasked[b] = bits(sm_)
    case = dict(case); case['_remasked'] = remasked
    # ---- the likelihood that was differentiated (K): Inference.ll on these spectra vs the generated expression / mask analysis
    try:
        mfs = func(p_in, None, None)
        ll_k_case(chk, ctx, small, mfs if not multinom else theta_opt * mfs, data, 'data')
        if seen: ll_k_case(chk, ctx, small, mfs if not multinom else theta_opt * mfs, seen[-1], 'bootstrap')
    except Exception as e:
        chk.k_bad('ll', small, repr(e), None, None)
    # ---- L3: closed forms of the linear Poisson model within O(eps^2)
    l3_closed_forms(chk, ctx, case, small, key0, B, data, boots, func, p_in, f_in, res, H, grads, god, theta_opt)

def l3_closed_forms(chk, ctx, case, small, key0, B, data, boots, func, p_in, f_in, res, H, grads, god, theta_opt):
    dadi = ctx['dadi']; G = dadi.Godambe
    api, n, eps, multinom, log = case['api'], case['n'], case['eps'], case['multinom'], case['log']
    nested, full, thetas = case['nested'], case['full'], case['thetas']
    variant = case.get('variant'); hess_only = api == 'FIM_uncert' or (api == 'get_godambe' and variant == 'just_hess')
    masks = case.get('masks')
    d = np.asarray(np.ma.getdata(data), dtype=float).ravel(); bs = [np.asarray(np.ma.getdata(b), dtype=float).ravel() for b in boots]
    mk, keep_d, keep_bs = keep_sets(case, B.shape[1], data, boots)
    if case.get('fold'):
        # folding is linear: the folded model is linear in the parameters with folded offset and basis spectra
        shp = tuple(case['shape']) if case.get('shape') else (B.shape[1],)
        B = np.array([own_fold(row.reshape(shp), np.zeros(shp, dtype=bool))[0].ravel() for row in B])
    mode = ('multinom' if multinom else 'plain') + ('_log' if log else '')
    if mode == 'plain_log': mode = 'log'
    if multinom:
        # the scaling of a multinomial fit, from its definition: sum of the data over the sum of the model, over the jointly unmasked entries
        M0 = B[0] + np.asarray(p_in, dtype=float) @ B[1:]
        theta_x = float(d[keep_d].sum() / M0[keep_d].sum())
        # what the entry point really appended (seen where theta is among the parameters handed to get_godambe)
        theta_used = theta_opt
        if nested is None: theta_used = float(god['p0'][-1])
        elif n in nested: theta_used = float(god['p0'][list(nested).index(n)])
        for tv in (theta_used, theta_opt):
            if not abs(tv - theta_x) <= 1e-9 * abs(theta_x):
                chk.fail(key0 + ':theta_opt', '%s: the theta appended for the multinomial fit is %r; sum(data)/sum(model) over the entries masked in neither is %r' % (api, tv, theta_x), small)
                return
    pfull = list(p_in) + ([theta_x] if multinom else [])
    ths = list(thetas) if thetas else [1.0] * len(bs)
    Hx, gx, L = closed_forms(B, pfull, d, bs, ths, mode, keep_d, keep_bs)
    if masks:
        chk.stat('entries_in_H:%d_of_%d' % (int(keep_d.sum()), B.shape[1]))
        chk.stat('bootstraps_with_own_mask', sum(1 for k in keep_bs if not np.array_equal(k, keep_d)))
    idx = list(nested) if nested is not None else list(range(len(pfull)))
    Hx = Hx[np.ix_(idx, idx)]; gx = [g[idx] for g in gx]
    N = len(idx)
    # second run at eps/2 for the Richardson criterion
    G.cache.clear()
    with Spy(G) as spy2:
        try:
            with np.errstate(all='ignore'), quiet(masks is not None):
                call_api(G, api, f_in, [10], boots, p_in, data, eps / 2, multinom, log=log, nested=nested, full=full, thetas=thetas, variant=variant)
        except Exception as e:
            chk.fail('%s:%s' % (key0, type(e).__name__), '%s raises %r at eps/2' % (api, e), small); return
    H2 = -spy2.hess[0][1]; grads2 = [g for _, g, _ in spy2.grads]
    pv = np.abs(np.asarray(god['p0'], dtype=float))          # the parameters the stencils see (logs if log)
    if log: steps = eps * np.abs(np.log(np.asarray(god['p0'], dtype=float)))
    else: steps = eps * pv
    # parameters for which eps*p < 1e-6 (or log-parameters that are negative / zero) use first-order stencils: the O(eps^2) clause does
    # not apply to them (the property restricts it to the central case)
    seen = np.log(np.asarray(god['p0'], dtype=float)) if log else np.asarray(god['p0'], dtype=float)
    central = np.array([prop_rule(float(v), eps / 2)[2] for v in seen])
    if not np.all(central):
        chk.stat('closed_form_skipped_one_sided'); return
    steps = np.array([float(prop_rule(float(v), eps)[0]) for v in seen])
    def crit(fd, fd2, exact, floor, what, key, fullkey=None, extra=''):
        """|fd - exact| <= 1.25 * (4/3)|fd - fd2| + 0.05 eps^2 |exact| + floor   (elementwise)"""
        fd = np.asarray(fd, dtype=float); fd2 = np.asarray(fd2, dtype=float); exact = np.asarray(exact, dtype=float)
        if fd.shape != exact.shape:
            chk.fail(key0 + ':' + key + ':shape', '%s: %s has shape %r, closed form %r' % (api, what, fd.shape, exact.shape), small); return False
        bound = 1.25 * (4.0 / 3.0) * np.abs(fd - fd2) + 0.05 * eps ** 2 * np.abs(exact) + floor + 1e-9 * np.abs(exact)
        err = np.abs(fd - exact)
        if not np.all(np.isfinite(fd)) or np.any(err > bound):
            k = int(np.argmax(err - bound))
            chk.fail(fullkey or (key0 + ':' + key), '%s, eps=%g: finite-difference %s differs from the closed form of the linear Poisson model beyond O(eps^2): entry %d is %r, closed form %r, '
                     'estimated truncation %r%s' % (api, eps, what, k, float(fd.ravel()[k]), float(exact.ravel()[k]), float((4.0 / 3.0) * np.abs(fd - fd2).ravel()[k]), extra), small)
            return False
        return True
    floorH = 256 * U * L / np.outer(steps / 2, steps / 2)
    okH = crit(H, H2, Hx, floorH, 'observed information H', 'H_closed_form')
    chk.stat('closed_form_H')
    okg = True
    if not hess_only:
        floorg = 256 * U * L / (steps / 2)
        rem = case.get('_remasked') or {}
        for b, (g, g2, ge) in enumerate(zip(grads, grads2, gx)):
            # a bootstrap whose own mask was replaced before its likelihood was taken: one stable key for that cause
            fk = 'get_godambe:bootstrap_corners_remasked:score_closed_form' if b in rem else None
            ex = ('; the bootstrap was given with mask %s but its likelihood was taken with mask %s (the closed form sums over the entries masked in neither the model nor the '
                  'bootstrap as given, as H does for the data)' % (bits(np.ma.getmaskarray(boots[b])), rem[b])) if b in rem else ''
            if not crit(g, g2, ge, floorg, 'score of bootstrap %d' % b, 'score_closed_form', fullkey=fk, extra=ex): okg = False; break
        chk.stat('closed_form_scores', len(grads))
    # ---- the PROVED explicit bounds (C19_get_hess_order, C19_get_grad_order: models linear in their parameters, central regime), evaluated
    # on the real code: |H_fd - H| <= C_ij eps^2 and |g_fd - g| <= C_i eps^2 with the constants of the theorems (+ the round-off floor)
    if mode == 'plain' and okH and okg:
        P = np.abs(np.asarray(god['p0'], dtype=float)); Bs = B[1:][idx]; Mx = B[0] + np.asarray(pfull, dtype=float) @ B[1:]
        def consts(dd, keep, t, a, b):
            Ba, Bb = t * Bs[a][keep], t * Bs[b][keep]; Mk = t * Mx[keep]; ad = np.abs(dd[keep])
            if a == b:
                mu = float(np.min(Mk - eps * P[a] * np.abs(Ba)))
                return mu, (float(np.sum(ad * Ba ** 4)) * P[a] ** 2 / mu ** 4 if mu > 0 else None), (float(np.sum(ad * np.abs(Ba) ** 3)) * P[a] ** 2 / mu ** 3 if mu > 0 else None)
            sab = P[a] * np.abs(Ba) + P[b] * np.abs(Bb)
            mu = float(np.min(Mk - eps * sab))
            return mu, (float(np.sum(ad * sab ** 4)) / (2 * P[a] * P[b] * mu ** 4) if mu > 0 else None), None
        bad = None
        for a in range(N):
            for b in range(a, N):
                mu, CH, _ = consts(d, keep_d, 1.0, a, b)
                if CH is None: chk.stat('proved_bound_skipped_model_not_positive_on_box'); continue
                chk.stat('proved_bound_H_entries')
                if not abs(H[a, b] - Hx[a, b]) <= CH * eps ** 2 * (1 + 1e-9) + floorH[a, b]:
                    bad = ('H_proved_bound', 'entry (%d,%d) of the finite-difference H is %r, closed form %r: the difference exceeds the proved bound C*eps^2 = %r (C = %r, mu = %r)'
                           % (a, b, float(H[a, b]), float(Hx[a, b]), CH * eps ** 2, CH, mu))
        if not hess_only and bad is None:
            for bi, (g, ge) in enumerate(zip(grads, gx)):
                for a in range(N):
                    mu, _, Cg = consts(bs[bi], keep_bs[bi], float(ths[bi]), a, a)
                    if Cg is None: chk.stat('proved_bound_skipped_model_not_positive_on_box'); continue
                    chk.stat('proved_bound_score_entries')
                    if not abs(g[a] - ge[a]) <= Cg * eps ** 2 * (1 + 1e-9) + floorg[a]:
                        bad = ('score_proved_bound', 'entry %d of the finite-difference score of bootstrap %d is %r, closed form %r: the difference exceeds the proved bound C*eps^2 = %r'
                               % (a, bi, float(g[a]), float(ge[a]), Cg * eps ** 2))
                        break
                if bad: break
        if bad:
            chk.fail(key0 + ':' + bad[0], '%s, eps=%g: %s' % (api, eps, bad[1]), small); return
    if not (okH and okg): return
    if api == 'get_godambe' and hess_only: return
    # ---- the statistic itself against the statistic computed from the closed forms: tolerance from the sensitivities
    if api == 'FIM_uncert':
        if np.any(np.diag(np.linalg.inv(Hx)) <= 0): chk.stat('closed_form_stat_indefinite_information'); return
        ex = np.sqrt(np.diag(np.linalg.inv(Hx))); got = np.asarray(res[0], dtype=float)
        dH = np.abs(H - Hx)
        Hi = np.abs(np.linalg.inv(Hx)); tol = 3 * np.diag(Hi @ dH @ Hi) / (2 * ex) + 1e-9 * ex
        if np.max(tol / ex) > 0.3: chk.stat('closed_form_stat_illconditioned'); return
        if np.any(np.abs(got - ex) > tol):
            chk.fail(key0 + ':uncert_closed_form', 'FIM_uncert is %r, the closed form sqrt(diag(H^-1)) is %r' % (got.tolist(), ex.tolist()), small)
        chk.stat('closed_form_stat'); return
    diff = (np.asarray(full, dtype=float) - np.asarray(god['p0'], dtype=float)) if api == 'Wald_stat' else None
    def stat_vec(Hm, gl):
        s = stats_from(Hm, gl, diff)
        if api == 'GIM_uncert': return np.sqrt(s['varGIM']) if res[1] is None else np.concatenate([np.sqrt(s['varGIM']), s['GIM'].ravel()])
        if api == 'get_godambe': return np.concatenate([s['GIM'].ravel(), s['J'].ravel(), s['cU'].ravel()])
        if api == 'LRT_adjust': return np.array([s['lrt']])
        if api == 'Wald_stat': return np.array([s['waldAdj'], s['waldOrg']])
        return np.array([s['scoreAdj'], s['scoreOrg']])
    with np.errstate(all='ignore'):
        ex = stat_vec(Hx, gx)
        if api == 'GIM_uncert': got = np.asarray(res[0], dtype=float) if res[1] is None else np.concatenate([np.asarray(res[0], dtype=float), np.asarray(res[1], dtype=float).ravel()])
        elif api == 'get_godambe': got = np.concatenate([np.asarray(res[0], dtype=float).ravel(), np.asarray(res[2], dtype=float).ravel(), np.asarray(res[3], dtype=float).ravel()])
        else: got = flat_result(api, res)[:len(ex)]
        # first-order sensitivity to every entry of H and of every score vector (numerical, on the closed form)
        tol = np.zeros_like(ex)
        dH = np.abs(H - Hx); dg = [np.abs(a - b) for a, b in zip(grads, gx)]
        for a in range(N):
            for b in range(N):
                E = np.zeros((N, N)); hh = 1e-6 * max(abs(Hx[a, b]), 1e-6); E[a, b] = hh
                tol += np.abs(stat_vec(Hx + E, gx) - ex) / hh * dH[a, b]
        for k in range(len(gx)):
            for a in range(N):
                gl = [g.copy() for g in gx]; hh = 1e-6 * max(abs(gx[k][a]), 1e-3); gl[k][a] += hh
                tol += np.abs(stat_vec(Hx, gl) - ex) / hh * dg[k][a]
    tol = 3 * tol + 1e-7 * np.abs(ex)
    if not np.all(np.isfinite(ex)) or not np.all(np.isfinite(tol)):
        chk.stat('closed_form_stat_illconditioned'); return
    # the tolerance is first order: it is only valid while the relative perturbations of H and J are small
    with np.errstate(all='ignore'):
        Jx = sum(np.outer(g, g) for g in gx) / len(gx)
        dJ = sum(np.outer(np.abs(g), e) + np.outer(e, np.abs(g)) + np.outer(e, e) for g, e in zip(gx, dg)) / len(gx)
        pertJ = float(np.max(np.sum(np.abs(np.linalg.inv(Jx)) @ dJ, axis=1))) if np.all(np.isfinite(Jx)) else float('inf')
        pertH = float(np.max(np.sum(np.abs(np.linalg.inv(Hx)) @ dH, axis=1)))
    if not (pertJ < 0.05 and pertH < 0.05):
        chk.stat('closed_form_stat_illconditioned'); return
    # entries of matrices are judged relative to the scale of the result, scalars and uncertainties relative to themselves
    nunc = N if api == 'GIM_uncert' else 0
    thr = 0.3 * np.abs(ex)
    if api == 'get_godambe' or (api == 'GIM_uncert' and res[1] is not None):
        thr[nunc:] = 0.1 * float(np.max(np.abs(ex[nunc:])))
    if np.any(tol > thr + 1e-300):
        chk.stat('closed_form_stat_illconditioned'); return
    judged = np.ones(ex.shape, dtype=bool)
    chk.stat('closed_form_stat')
    if got.shape != ex.shape:
        chk.fail(key0 + ':stat_closed_form:shape', '%s returns %d numbers, the closed form has %d' % (api, got.size, ex.size), small); return
    if np.any((np.abs(got - ex) > tol) & judged):
        chk.fail(key0 + ':stat_closed_form', '%s returns %r; the same statistic from the closed-form H and scores is %r (eps=%g)' % (api, got.tolist(), ex.tolist(), eps), small)

def refusal_cases(chk, ctx, rng):
    """documented: boot_theta_adjusts is only valid with multinom=False (GIM_uncert, LRT_adjust raise ValueError)"""
    dadi = ctx['dadi']; G = dadi.Godambe
    for api in ('GIM_uncert', 'LRT_adjust'):
        for tmode in ('ones', 'varied'):
            case = gen_pipeline_case(rng, dadi, api=api, multinom=True, log=False, thetas_mode='none', mask_mode='none')
            B, data, boots = realise(dadi, case)
            th = [1.0] * len(boots) if tmode == 'ones' else [coarse(rng.uniform(0.6, 1.5)) for _ in boots]
            small = dict(case); small['B'] = np.asarray(B); small['refusal'] = tmode
            chk.l3(('refusal', api, tmode))
            try:
                call_api(G, api, model_func(dadi, B), [10], boots, list(case['p']), data, 0.01, True, nested=case['nested'], full=case['full'], thetas=th)
                chk.fail('%s:multinom=True:boot_theta_adjusts:accepted' % api, '%s(multinom=True, boot_theta_adjusts=%r) is accepted; documented: only valid with multinom=False (ValueError)' % (api, th), small)
            except ValueError:
                chk.stat('refused_adjusts_with_multinom')
            except Exception as e:
                chk.fail('%s:multinom=True:boot_theta_adjusts:%s' % (api, type(e).__name__), '%s raises %r instead of ValueError' % (api, e), small)

def option_matrix(rng, dadi):
    """every combination of the options that an entry point has: log x multinom x boot_theta_adjusts {none, all 1, varied} x result variant"""
    cases = []
    for log in (False, True):
        for tmode in ('none', 'ones', 'varied'):
            for variant in (None, 'just_hess'):
                cases.append(gen_pipeline_case(rng, dadi, api='get_godambe', multinom=False, log=log, thetas_mode=tmode, variant=variant))
            for variant in (None, 'plain'):
                cases.append(gen_pipeline_case(rng, dadi, api='GIM_uncert', multinom=False, log=log, thetas_mode=tmode, variant=variant))
        for variant in (None, 'plain'):
            cases.append(gen_pipeline_case(rng, dadi, api='GIM_uncert', multinom=True, log=log, thetas_mode='none', variant=variant))
            for multinom in (False, True):
                cases.append(gen_pipeline_case(rng, dadi, api='FIM_uncert', multinom=multinom, log=log, thetas_mode='none', variant=variant))
    for tmode in ('none', 'ones', 'varied'):
        cases.append(gen_pipeline_case(rng, dadi, api='LRT_adjust', multinom=False, log=False, thetas_mode=tmode))
    cases.append(gen_pipeline_case(rng, dadi, api='LRT_adjust', multinom=True, log=False, thetas_mode='none'))
    for api in ('Wald_stat', 'score_stat'):
        for multinom in (False, True):
            cases.append(gen_pipeline_case(rng, dadi, api=api, multinom=multinom, log=False, thetas_mode='none'))
    return cases

def nested_matrix(rng, dadi):
    """the nested tests with 1, 2 and 3 nested indices out of 3 correlated parameters (overlapping basis spectra: H and J are far from
    diagonal), theta fixed by the model and free (multinom: its index may be nested too)"""
    cases = []
    for api in ('LRT_adjust', 'Wald_stat', 'score_stat'):
        for k in (1, 2, 3):
            for multinom in (False, True):
                cases.append(gen_pipeline_case(rng, dadi, api=api, nparam=3, multinom=multinom, log=False, thetas_mode='none', nested_size=k))
    # nested parameters listed in descending order; Wald_stat with full_params given as the whole parameter list and as the nested values
    for api in ('LRT_adjust', 'Wald_stat', 'score_stat'):
        for long in ((True, False) if api == 'Wald_stat' else (None,)):
            cases.append(gen_pipeline_case(rng, dadi, api=api, nparam=3, multinom=False, log=False, thetas_mode='none', nested_size=2,
                                           nested_desc=True, full_long=long))
            cases.append(gen_pipeline_case(rng, dadi, api=api, nparam=4, multinom=False, log=False, thetas_mode='none', nested_size=3,
                                           nested_desc=True, full_long=long))
    return cases

def mask_matrix(rng, dadi):
    """every entry point x every kind of mask pattern in which model, data and bootstraps differ (other options drawn at random)"""
    cases = []
    for api in APIS_ALL:
        for mode in MASK_MODES:
            cases.append(gen_pipeline_case(rng, dadi, api=api, mask_mode=mode))
    return cases

ND_SHAPES = [(4, 6), (5, 5), (6, 5), (3, 8), (4, 4, 3)]

def nd_matrix(rng, dadi):
    """every entry point x {two/three populations; folded data (one population); folded data (two populations)}, with and without mask
    patterns in which model, data and bootstraps differ (the model function returns an unfolded spectrum: ll folds it)"""
    cases = []
    for api in APIS_ALL:
        for kind in ('nd', 'fold1', 'foldnd'):
            shape = ND_SHAPES[int(rng.integers(len(ND_SHAPES)))] if kind != 'fold1' else None
            mm = ['none', 'data_only', 'model_only', 'boots_vary', 'data_boots_same'][int(rng.integers(5))]
            cases.append(gen_pipeline_case(rng, dadi, api=api, shape=shape, fold=kind != 'nd', mask_mode=mm, log=False))
    return cases

def perm_case(chk, ctx, case, rng):
    """L3: the order of the bootstrap list (and of boot_theta_adjusts with it) does not matter"""
    dadi = ctx['dadi']; G = dadi.Godambe
    api = case['api']
    if api == 'FIM_uncert' or case.get('variant') == 'just_hess': return
    B, data, boots = realise(dadi, case)
    multinom = case['multinom']
    small = dict(case); small['B'] = np.asarray(B); small['perm'] = True
    if not multinom: B = B * case['theta']
    func = model_func(dadi, B, masks=case.get('masks'), shape=tuple(case['shape']) if case.get('shape') else None)
    p_in = list(case['p'])
    full = case['full']
    try:
        G.cache.clear()
        with np.errstate(all='ignore'), quiet(case.get('masks') is not None):
            r0 = flat_result(api, call_api(G, api, func, [10], boots, p_in, data, case['eps'], multinom, log=case['log'], nested=case['nested'], full=full, thetas=case['thetas'], variant=case.get('variant')))
        for it in range(3):
            o = [int(i) for i in rng.permutation(len(boots))]
            if it == 2: o = list(reversed(range(len(boots))))
            chk.l3(('perm', api, multinom, it))
            G.cache.clear()
            with np.errstate(all='ignore'), quiet(case.get('masks') is not None):
                r1 = flat_result(api, call_api(G, api, func, [10], [boots[i] for i in o], p_in, data, case['eps'], multinom, log=case['log'], nested=case['nested'],
                                               full=full, thetas=[case['thetas'][i] for i in o] if case['thetas'] else None, variant=case.get('variant')))
            # float summation order changes J by ~u; the statistics amplify that by the conditioning of J and H
            if not (r0.shape == r1.shape and np.all(np.abs(r0 - r1) <= 1e-7 * np.maximum(np.abs(r0), 1e-300))):
                chk.fail('%s:boot_order' % api, '%s changes from %r to %r when the bootstrap list is given in the order %r' % (api, r0.tolist()[:6], r1.tolist()[:6], o), small)
                return
        chk.stat('boot_permutations', 3)
    except Exception as e:
        chk.fail('%s:boot_order:%s' % (api, type(e).__name__), '%s raises %r' % (api, e), small)

# ----------------------------------------------------------------------------------------------- the spectrum cache
class LogDict(dict):
    """the module-level cache, recording every lookup / store / read in order (behaviour unchanged)"""
    def __init__(self): super().__init__(); self.log = []; self.keep = []; self.snap = {}
    def __contains__(self, k):
        r = dict.__contains__(self, k); self.log.append(('in', k, r)); return r
    def __setitem__(self, k, v):
        self.keep.append(v); self.log.append(('set', k, id(v))); dict.__setitem__(self, k, v)
        # the values as they were when stored (= what func_ex returned for these parameters), whatever happens to the stored object later
        try: self.snap[k] = np.array(np.ma.getdata(v), dtype=float).ravel().copy()
        except Exception: pass
    def __getitem__(self, k):
        v = dict.__getitem__(self, k); self.log.append(('get', k, id(v))); return v

def gen_history(rng, dadi, directed=None):
    """a sequence of entry-point calls on linear models that share sample sizes, grid and (for the nested tests) the values of the
    nested parameters, as a user comparing several fits would make them"""
    ns = int(rng.integers(6, 10))
    n = 3
    mdls = [gen_model(rng, dadi, nparam=n, ncell=ns) for _ in range(2)]
    ops = []
    L = int(rng.integers(3, 7))
    for i in range(L):
        api = APIS[int(rng.integers(len(APIS)))] if directed is None else directed[0]
        multinom = bool(rng.random() < 0.5) if directed is None else directed[1]
        m = int(rng.integers(2))
        p = [coarse(rng.uniform(0.5, 3.0)) for _ in range(n)]
        nested = [n - 1]
        p[n - 1] = 0.0 if (directed is not None or rng.random() < 0.8) else p[n - 1]            # the nested parameter sits at its null value in every fit
        if api in ('GIM_uncert', 'FIM_uncert'): nested = None; p[n - 1] = coarse(rng.uniform(0.5, 3.0)) if rng.random() < 0.5 else p[n - 1] or 1.0
        ops.append(dict(api=api, multinom=multinom, model=m, p=p, nested=nested, theta=coarse(rng.uniform(30, 120)), dseed=int(rng.integers(1 << 30)),
                        nboot=int(rng.integers(6, 9)), full=[coarse(rng.uniform(0.1, 0.5))] if nested else None))
    return dict(history=True, ns=ns, n=n, B=[np.asarray(m['B']) for m in mdls], ops=ops, eps=0.01)

def run_history(dadi, hist, fresh, cache_obj=None, on_call=None):
    G = dadi.Godambe
    Bs = [np.array(b['data'], dtype=float).reshape(b['shape']) if isinstance(b, dict) else np.asarray(b, dtype=float) for b in hist['B']]
    outs = []
    funcs = {}
    if cache_obj is not None: G.cache = cache_obj
    G.cache.clear()
    for i, op in enumerate(hist['ops']):
        if fresh: G.cache.clear()
        r = np.random.default_rng(op['dseed'])
        mdl = dict(n=hist['n'], ns=hist['ns'], B=Bs[op['model']])
        ptrue = [v if v > 0 else 0.05 for v in op['p']]
        data, boots = gen_dataset(r, dadi, mdl, ptrue, op['theta'], op['nboot'])
        p_in = list(op['p']); full = op['full']
        # one model function per (model, theta scaling): the user's function object is the same for repeated multinom=True calls
        fkey = (op['model'], None if op['multinom'] else op['theta'])
        if fkey not in funcs: funcs[fkey] = model_func(dadi, Bs[op['model']] if op['multinom'] else Bs[op['model']] * op['theta'])
        if on_call: on_call(i, fkey)
        try:
            with np.errstate(all='ignore'):
                res = flat_result(op['api'], call_api(G, op['api'], funcs[fkey], [10], boots, p_in, data, hist['eps'], op['multinom'], nested=op['nested'], full=full))
        except Exception as e:
            res = repr(e)
        outs.append(res)
    return outs

def history_case(chk, ctx, hist):
    """L3: any sequence of calls sharing the module-level cache gives what the same calls give on an empty cache"""
    dadi = ctx['dadi']; G = dadi.Godambe
    saved = G.cache
    small = dict(hist); small['B'] = [np.asarray(b) if not isinstance(b, dict) else b for b in hist['B']]
    try:
        fresh = run_history(dadi, hist, True)
        seq = run_history(dadi, hist, False)
    finally:
        G.cache = saved; G.cache.clear()
    for i, (a, b, op) in enumerate(zip(fresh, seq, hist['ops'])):
        chk.l3(('history', op['api'], op['multinom'], i > 0)); chk.stat('history_calls')
        if isinstance(a, str) or isinstance(b, str):
            if isinstance(a, str) != isinstance(b, str):
                chk.fail('cache:stale_spectrum', 'call %d (%s, multinom=%s) of a sequence sharing Godambe.cache gives %r; on an empty cache %r' % (i, op['api'], op['multinom'], b, a), small)
                return False
            continue
        okk = a.shape == b.shape and (np.array_equal(np.isnan(a), np.isnan(b))) and np.all(np.abs(a - b)[~np.isnan(a)] <= 1e-9 * np.maximum(np.abs(a), 1e-300)[~np.isnan(a)])
        if not okk:
            prev = [(o['api'], o['multinom']) for o in hist['ops'][:i]]
            chk.fail('cache:stale_spectrum',
                     'history dependence through Godambe.cache: call %d = %s(p0=%r, nested_indices=%r, multinom=%s) returns %r after the calls %r, but %r on an empty cache '
                     '(spectra of an earlier, already freed function object are reused: the key holds only func_ex.__hash__())'
                     % (i, op['api'], op['p'], op['nested'], op['multinom'], b.tolist()[:4], prev, a.tolist()[:4]), small)
            return False
    return True

def cache_k_case(chk, ctx, hist):
    """K: the lookups/stores the real code performs (logging dictionary, real object identities) vs the memo-table model"""
    dadi = ctx['dadi']; G = dadi.Godambe; drv = ctx['driver']
    saved = G.cache
    ld = LogDict()
    marks = []
    try:
        run_history(dadi, hist, False, cache_obj=ld, on_call=lambda i, fkey: marks.append((i, len(ld.log), fkey)))
    finally:
        G.cache = saved; G.cache.clear()
    # object index = (call index, identity component): a new function object per call unless the user's function is passed through
    small = dict(cache_k=True, n_ops=len(hist['ops']), apis=[(o['api'], o['multinom']) for o in hist['ops']])
    bounds = [m[1] for m in marks] + [len(ld.log)]
    ktab = {}; objs = {}; ops = []; impl_tokens = []; stored = {}
    for ci in range(len(marks)):
        for ev in ld.log[bounds[ci]:bounds[ci + 1]]:
            kind, key = ev[0], ev[1]
            ident = key[0] if isinstance(key[0], int) else id(key[0])
            user_fn = not (hist['ops'][ci]['multinom'] or hist['ops'][ci]['nested'] is not None)
            okey = ('user', marks[ci][2]) if user_fn else ('call', ci)
            o = objs.setdefault(okey, len(objs))
            k = ktab.setdefault(key[1:], len(ktab))
            if kind == 'in':
                ops.append((o, ident % (1 << 62), k))
            elif kind == 'set':
                stored[ev[2]] = (o, k)
            elif kind == 'get':
                impl_tokens.append(stored.get(ev[2]))
    if not ops:
        return
    out = drv.ask('c19.cache impl %s' % ';'.join('%d:%d:%d' % t for t in ops))
    t = out.split(' ')
    if t[0] == 'ok':
        model_tokens = [tuple(int(x) for x in s.split('.')) for s in t[1].split(',')] if t[1] != '-' else []
        if model_tokens == impl_tokens and int(t[2]) == len(ld):
            chk.k_ok('cache')
        else:
            bad = [i for i, (a, b) in enumerate(zip(model_tokens, impl_tokens)) if a != b][:3]
            chk.k_bad('cache', small, dict(size=len(ld), first_diff=bad, impl=[impl_tokens[i] for i in bad]), dict(size=t[2], model=[model_tokens[i] for i in bad]), None)
        stale = sum(1 for (o, i, k), tok in zip(ops, impl_tokens) if tok is not None and tok[0] != o)
        chk.stat('cache_lookups', len(ops)); chk.stat('cache_stale_reads_observed', stale)
    else:
        chk.k_bad('cache', small, len(ld), out, None)

def cacheadj_case(chk, ctx, case, rng):
    """boot_theta_adjusts and the module-level cache.  One history on ONE user function and cache: an entry point with varied adjustments
    (multinom=False), then FIM_uncert on the same function / parameters / eps (it reads the spectra the first call stored), then the first
    call again with the (bootstrap, adjustment) pairs permuted together.
    L3 (from the statement): every spectrum the cache holds afterwards is what the model function returns for those parameters (the cached
    spectrum is never rescaled); each call of the history returns what it returns on an empty cache; permuting the pairs together changes
    nothing.  Recorded, not judged: permuting only the bootstraps (adjustments left in place) does change the result.
    K: for every evaluation of the cached likelihood (logging dictionary + spied Inference.ll) the factor between the spectrum whose
    likelihood was taken and the model function's spectrum, and the factor of every stored spectrum at the end, vs the Lean memo model with
    the generated effect flags (op c19.cacheadj)."""
    dadi = ctx['dadi']; G = dadi.Godambe; drv = ctx['driver']
    api = case['api']
    B, data, boots = realise(dadi, case)
    small = dict(case); small['B'] = np.asarray(B); small['cacheadj'] = True
    B = B * case['theta']
    shape = tuple(case['shape']) if case.get('shape') else None
    func = model_func(dadi, B, masks=case.get('masks'), shape=shape)
    p_in = list(case['p']); eps = case['eps']; thetas = list(case['thetas'])
    o = [int(i) for i in rng.permutation(len(boots))]
    if o == list(range(len(boots))): o = o[1:] + o[:1]
    def calls():
        yield 'first', lambda: call_api(G, api, func, [10], boots, p_in, data, eps, False, log=case['log'], nested=case['nested'], full=case['full'], thetas=thetas, variant=case.get('variant'))
        yield 'FIM_uncert', lambda: call_api(G, 'FIM_uncert', func, [10], boots, p_in, data, eps, False, log=case['log'])
        yield 'pairs_permuted', lambda: call_api(G, api, func, [10], [boots[i] for i in o], p_in, data, eps, False, log=case['log'], nested=case['nested'], full=case['full'],
                                                 thetas=[thetas[i] for i in o], variant=case.get('variant'))
    def run_all(fresh, cache_obj=None, spy_ll=None):
        saved = G.cache
        if cache_obj is not None: G.cache = cache_obj
        G.cache.clear()
        outs = []
        o_ll = dadi.Inference.ll; o_gg = G.get_grad; cur = [1.0]
        def gg(f, p0, e, args=()):
            cur[0] = float(args[1]) if len(args) >= 2 else 1.0
            try: return o_gg(f, p0, e, args=args)
            finally: cur[0] = 1.0
        def ll(fs, dat):
            spy_ll(fs, cur[0]); return o_ll(fs, dat)
        try:
            if spy_ll is not None: dadi.Inference.ll = ll; G.get_grad = gg
            for nm, f in calls():
                if fresh: G.cache.clear()
                with np.errstate(all='ignore'), quiet(case.get('masks') is not None):
                    outs.append(flat_result(api if nm != 'FIM_uncert' else 'FIM_uncert', f()))
            held = list(dict.items(G.cache))
        finally:
            dadi.Inference.ll = o_ll; G.get_grad = o_gg
            G.cache = saved; G.cache.clear()
        return outs, held
    chk.l3(('cacheadj', api, case['log'], len(boots)))
    try:
        fresh, _ = run_all(True)
        ld = LogDict(); used = []
        seq, held = run_all(False, cache_obj=ld, spy_ll=lambda fs, a: used.append((np.array(np.ma.getdata(fs), dtype=float).ravel().copy(), a)))
    except Exception as e:
        chk.fail('%s:boot_theta_adjusts:%s' % (api, type(e).__name__), '%s with boot_theta_adjusts raises %r' % (api, e), small); return
    # ---- L3 (1): the cache holds unscaled model spectra
    def fresh_fs(key):
        # what the model function returned for these parameters when the entry was stored (snapshot taken by the logging dictionary)
        return ld.snap[key]
    for key, val in held:
        w = fresh_fs(key); v = np.asarray(np.ma.getdata(val), dtype=float).ravel()
        if not (v.shape == w.shape and np.all(np.abs(v - w) <= 1e-12 * np.maximum(np.abs(w), 1e-300))):
            j = int(np.argmax(np.abs(v - w)))
            chk.fail('cache:value_mutated', 'after %s(boot_theta_adjusts=%r) Godambe.cache holds, for the parameters %r, a spectrum that is not the one the model function returns '
                     '(entry %d: %r vs %r): the cached spectrum was rescaled in place' % (api, thetas, list(key[1]), j, float(v[j]), float(w[j])), small)
            break
    # ---- L3 (2): history independence and invariance under permuting the pairs together
    names = ['first', 'FIM_uncert', 'pairs_permuted']
    for nm, a, b in zip(names, fresh, seq):
        if not (a.shape == b.shape and np.array_equal(np.isnan(a), np.isnan(b)) and np.all(np.abs(a - b)[~np.isnan(a)] <= 1e-9 * np.maximum(np.abs(a), 1e-300)[~np.isnan(a)])):
            chk.fail('cache:value_mutated:history', 'call %r of the history [%s(boot_theta_adjusts), FIM_uncert, %s(pairs permuted)] on one function and cache returns %r; on an empty cache %r'
                     % (nm, api, api, b.tolist()[:4], a.tolist()[:4]), small)
            break
    if not (fresh[0].shape == fresh[2].shape and np.all(np.abs(fresh[0] - fresh[2])[~np.isnan(fresh[0])] <= 1e-7 * np.maximum(np.abs(fresh[0]), 1e-300)[~np.isnan(fresh[0])])):
        chk.fail('%s:boot_order:pairs' % api, '%s changes from %r to %r when the (bootstrap, boot_theta_adjusts) pairs are permuted together (order %r)'
                 % (api, fresh[0].tolist()[:4], fresh[2].tolist()[:4], o), small)
    # recorded: permuting the bootstraps alone is a different problem (the statement does not claim invariance; C19_boot_perm_separate_counterexample)
    try:
        G.cache.clear()
        with np.errstate(all='ignore'), quiet(case.get('masks') is not None):
            r_sep = flat_result(api, call_api(G, api, func, [10], [boots[i] for i in o], p_in, data, eps, False, log=case['log'], nested=case['nested'], full=case['full'],
                                              thetas=thetas, variant=case.get('variant')))
        chk.stat('separate_permutation:' + ('changes_result' if not np.allclose(r_sep, fresh[0], rtol=1e-6, atol=0, equal_nan=True) else 'same_result'))
    except Exception:
        chk.stat('separate_permutation:raises')
    finally:
        G.cache.clear()
    # ---- K: the factor of every spectrum used / stored vs the memo model with the generated effect flags
    ktab = {}; otab = {}; ops = []; ins = [e for e in ld.log if e[0] == 'in']
    if len(ins) != len(used):
        chk.k_bad('cache_adjust', small, dict(lookups=len(ins), likelihoods=len(used)), None, None); return
    impl_scale = []
    for (kind, key, _), (fsv, a) in zip(ins, used):
        k = ktab.setdefault(key[1:], len(ktab))
        ob = otab.setdefault(id(key[0]) if callable(key[0]) else key[0], len(otab))        # the log keeps every key alive: identities are distinct
        ops.append('%d:%d:%d:%s' % (ob, ob, k, rat(a)))
        w = fresh_fs(key); good = np.abs(w) > 0
        impl_scale.append((ob, k, float(np.median(fsv[good] / w[good]))))
    out = drv.ask('c19.cacheadj impl %s' % ';'.join(ops))
    t = out.split(' ')
    if t[0] != 'ok' or len(t) != 3:
        chk.k_bad('cache_adjust', small, None, out, None); return
    def toks(x):
        r = []
        for q in (x.split(',') if x != '-' else []):
            ok_, sc = q.split('*'); r.append((int(ok_.split('.')[0]), int(ok_.split('.')[1]), float(Fraction(sc))))
        return r
    mu, mt = toks(t[1]), toks(t[2])
    held_scale = []
    for key, val in held:
        w = fresh_fs(key); good = np.abs(w) > 0
        held_scale.append((otab.get(id(key[0]) if callable(key[0]) else key[0], -1), ktab.get(key[1:], -1),
                           float(np.median(np.asarray(np.ma.getdata(val), dtype=float).ravel()[good] / w[good]))))
    def same(x, y):
        return len(x) == len(y) and all(a[:2] == b[:2] and abs(a[2] - b[2]) <= 1e-9 * max(abs(b[2]), 1e-300) for a, b in zip(x, y))
    if same(impl_scale, mu) and same(held_scale, mt): chk.k_ok('cache_adjust')
    else:
        bad = [i for i, (a, b) in enumerate(zip(impl_scale, mu)) if not same([a], [b])][:3]
        chk.k_bad('cache_adjust', small, dict(first_diff=bad, used=[impl_scale[i] for i in bad], held=held_scale[:4]), dict(used=[mu[i] for i in bad], held=mt[:4]), None)
    chk.stat('cache_adjust_evaluations', len(ops))

# ----------------------------------------------------------------------------------------------- sum_chi2_ppf
def chi2_cases(chk, ctx, rng, count):
    dadi = ctx['dadi']; G = dadi.Godambe; drv = ctx['driver']
    import scipy.stats as st
    for it in range(count):
        nw = int(rng.integers(2, 5))
        w = rng.dirichlet(np.ones(nw)); w = np.array([coarse(v, 16) for v in w]); w[-1] = 1.0 - float(np.sum(w[:-1]))
        directed = [(0, 0, 1), (0, 0, 0, 1), (0.5, 0, 0.5), (0, 0.5, 0, 0.5), (0.25, 0, 0.25, 0, 0.5), (0, 0.5, 0.5, 0), (1, 0, 0)]
        if it < len(directed):
            # exact zeros at interior positions, every run: the components after a zero keep THEIR degrees of freedom
            w = np.array(directed[it], dtype=float); chk.stat('chi2:interior_zero_weights')
        elif it % 5 == 0: w = np.array([0.0, 1.0]) if it % 10 == 0 else np.array([0.5, 0.5])
        elif it % 4 == 1:
            # exact zeros at arbitrary positions (components that are absent): the remaining components keep THEIR degrees of freedom
            nw = int(rng.integers(3, 6))
            keep = rng.random(nw) < 0.5
            if not keep.any(): keep[int(rng.integers(nw))] = True
            if keep.all(): keep[int(rng.integers(nw - 1))] = False
            v = rng.dirichlet(np.ones(int(keep.sum()))); v = [coarse(x, 16) for x in v]; v[-1] = 1.0 - float(np.sum(v[:-1]))
            w = np.zeros(nw); w[np.flatnonzero(keep)] = v
        nw = len(w)
        bad_w = bool(it % 9 == 4 and it >= 7)
        if bad_w: w = w * 1.01
        m = int(rng.integers(1, 6))
        xs = [coarse(v) for v in rng.uniform(0, 12, m)]
        if rng.random() < 0.3: xs[int(rng.integers(m))] = 0.0
        forms = ['scalar', 'list', 'ndarray', 'tuple', '0d']
        form = forms[it % len(forms)]
        if form == 'scalar': arg = xs[0]; xs = xs[:1]
        elif form == 'list': arg = list(xs)
        elif form == 'ndarray': arg = np.array(xs)
        elif form == 'tuple': arg = tuple(xs)
        else: arg = np.array(xs[0]); xs = xs[:1]
        small = dict(chi2=True, weights=w.tolist(), x=xs, form=form)
        is_scalar = form == 'scalar'
        chk.l3(('chi2', form, nw, bad_w, 0.0 in xs)); chk.stat('chi2:' + form)
        # closed form from the statement: sum_{d>=1} w_d P(chi2_d > x) + w_0 [x <= 0]
        want = np.array([sum(w[d] * st.chi2.sf(x, d) for d in range(1, nw)) + (w[0] if not x > 0 else 0.0) for x in xs])
        impl = None; err = None
        try:
            impl = G.sum_chi2_ppf(arg, tuple(w.tolist()))
        except Exception as e:
            err = e
        if bad_w:
            if not isinstance(err, ValueError):
                chk.fail('sum_chi2_ppf:weights_not_normalised', 'weights summing to %r are %s' % (float(w.sum()), 'accepted' if err is None else 'answered with %r' % err), small)
        elif err is not None:
            chk.fail('sum_chi2_ppf:%s:%s' % ('scalar' if is_scalar else 'array', type(err).__name__),
                     'sum_chi2_ppf(%r, weights=%r) raises %r; the mixture tail probability is %r' % (arg, tuple(w.tolist()), err, want.tolist()), small)
        else:
            got = np.atleast_1d(np.asarray(impl, dtype=float))
            if is_scalar and np.ndim(impl) != 0:
                chk.fail('sum_chi2_ppf:scalar:returns_array', 'scalar argument answered with %r' % (impl,), small)
            elif (not is_scalar) and np.ndim(impl) != 1:
                chk.fail('sum_chi2_ppf:array:returns_scalar', 'array argument %r answered with %r' % (arg, impl), small)
            elif got.shape != want.shape or not np.all(np.abs(got - want) <= 1e-9 + 1e-9 * np.abs(want)):
                chk.fail('sum_chi2_ppf:value', 'sum_chi2_ppf(%r, %r) = %r, mixture tail probability %r' % (arg, w.tolist(), got.tolist(), want.tolist()), small)
        # K
        cdfs = [[float(st.chi2.cdf(x, d)) for d in range(1, nw)] for x in xs]
        out = drv.ask('c19.chi2 %s %d %s %s' % (fmt_list(w.tolist()), 1 if is_scalar else 0, fmt_list(xs), ';'.join(fmt_list(r) for r in cdfs)))
        if abs(float(sum(Fraction(v) for v in w.tolist())) - 1) > 0.9e-6 and abs(float(sum(Fraction(v) for v in w.tolist())) - 1) < 1.1e-6:
            chk.k_skipped += 1; continue
        if err is not None:
            kind = type(err).__name__
            if out.startswith('err ') and out[4:].split(':')[0] == kind: chk.k_ok('sum_chi2_ppf'); chk.stat('chi2_error:' + out[4:])
            else: chk.k_bad('sum_chi2_ppf', small, repr(err), out, None)
        else:
            t = out.split(' ')
            if t[0] == 'ok' and ((t[1] == 's') == (np.ndim(impl) == 0)):
                mv = np.array([float(Fraction(t[2]))]) if t[1] == 's' else np.array([float(v) for v in parse_list(t[2])])
                g = np.atleast_1d(np.asarray(impl, dtype=float))
                if g.shape == mv.shape and np.all(np.abs(g - mv) <= 1e-12 + 1e-9 * np.abs(mv)): chk.k_ok('sum_chi2_ppf')
                else: chk.k_bad('sum_chi2_ppf', small, g, mv, None)
            else: chk.k_bad('sum_chi2_ppf', small, impl, out, None)

# ----------------------------------------------------------------------------------------------- entry points
def check_cfg(chk, ctx):
    out = ctx['driver'].ask('c19.cfg')
    chk.notes.append('generated configuration: ' + out[3:])
    for kv in out[3:].split(' '):
        k, v = kv.split('=')
        chk.stats['cfg:' + k] = v

def run(chk, ctx):
    tier = ctx['tier']; dadi = ctx['dadi']
    rng = common.Rng(ctx['seed'], 'C19'); ctx['_rng'] = rng
    chk.rule = ('stencils: polynomial test functions of total degree 1-4 in 1-5 parameters (exact rational coefficients), eps log-uniform in [1e-4, 1e-1] plus the '
                'end points and powers of two, every parameter drawn from {normal, 0, tiny (eps*p < 1e-6), negative, dyadic, just above/below the 1e-6 threshold}, '
                'with and without extra `args`; hessian_elem with explicit step vectors (both signs) and one-sided patterns / the None default; step rule observed '
                'from the evaluation points of one-parameter functions. pipeline: linear Poisson models with 1-3 positive basis spectra on 6-12 samples, Poisson data and '
                '4-11 bootstraps; first the FULL CROSS PRODUCT of the options each entry point has -- get_godambe: log x boot_theta_adjusts {none, all 1, varied} x just_hess; '
                'GIM_uncert: log x multinom x adjusts {none, all 1, varied (multinom=False only; with multinom=True the documented ValueError is checked)} x return_GIM; '
                'FIM_uncert: log x multinom x return_FIM; LRT_adjust: multinom x adjusts; Wald_stat/score_stat: multinom -- each compared with the closed-form H, scores, J, cU, '
                'GIM and uncertainties (once per run in quick, 8 times in thorough); then LRT_adjust/Wald_stat/score_stat with 1, 2 and 3 nested indices out of 3 correlated '
                'parameters x multinom (the index of theta may be nested), and every entry point x every kind of MASK PATTERN in which model, data and bootstraps differ '
                '(data masks low-frequency/arbitrary entries that model and bootstraps do not; data and bootstraps alike; every bootstrap its own set; the model masks entries the '
                'data does not; both, overlapping; corners unmasked in the model or in the data; corners unmasked in the model and in the bootstraps) on 11-16 samples, the closed forms summed over the entries masked in neither the '
                'model nor the data (H) / the bootstrap (score), theta of a multinomial fit from the same entries; then random draws of the same options with nested index sets; eps log-uniform in [1e-4, 1e-1], each run also at '
                'eps/2; bootstrap lists permuted; histories of 3-6 entry-point calls on two models sharing ns/pts and the null value of the nested parameter, each compared with '
                'the same call on an empty cache; every entry point x {2-3 populations, folded one-population data, folded P-population data} (the model function returns unfolded spectra); for every '
                'case with varied boot_theta_adjusts a history [entry point, FIM_uncert, entry point with the (bootstrap, adjustment) pairs permuted together] on one function and one cache, '
                'the cached spectra compared with fresh ones; sum_chi2_ppf with 2-5 weights incl. exact zeros at interior positions (directed list every run), scalar / list / tuple / ndarray / 0-d arguments, zeros, unnormalised weights. '
                'non-trivial/distinct = distinct (kind of check, n, degree, parameter kinds, entry point, options)')
    chk.unproved = [
        'O(eps^2) for the quantities that need a matrix inverse (GIM = H J^-1 H, GIM/FIM uncertainties, LRT adjustment, adjusted Wald, score statistics) and for multinom=True / log=True '
        '(the wrapped model theta*M(p) is bilinear, exp(logp) is not linear): numerical (L3: Richardson criterion at eps and eps/2 against the closed forms). PROVED since round 5, over the '
        'reals with explicit constants, for every Poisson log-likelihood with means affine in the parameters: |get_hess - H| <= C eps^2, |get_grad - score| <= C eps^2 in the central regime '
        '(C19_get_hess_order, C19_get_grad_order, stencil level C19_central_order / C19_central_mixed_order), first order for the one-sided stencils (C19_one_sided_order), hence J and cU '
        '(C19_J_cU_order via the Lipschitz bound C19_J_cU_lipschitz); the proved constants are evaluated on the real code by L3 (keys ...:H_proved_bound, ...:score_proved_bound)',
        'round-off: theorems are about exact field arithmetic; the float code agrees with the exact model within 1e-9 plus the amplification u*|f|/(h_i h_j) inherent to differences',
        'numpy.linalg.inv / dot vs exact Gauss-Jordan: numerical (K), ill-conditioned J/H skipped on the model side',
        'Inference.ll inside get_godambe: its per-entry expression and its mask (which of model.mask / data.mask / non-positive model entries the summed array carries) are '
        'generated from dadi/Inference.py and compared with the real ll on every pipeline case (K); log and gammaln values are inputs to the model. Folded data (the model is folded by '
        'll_per_bin: generated switch llFoldsModel + the pointwise programs generated from Spectrum.fold) and P-population spectra are modelled since round 5 (op c19.llnd); the '
        'folded_ancestral / folded_major prologues are accepted by the translator, not modelled',
        'log=True: the exp/log change of variables is checked by L3 closed forms only',
        'chi-square cdf values are scipy inputs to the model; only the mixture/flag logic of sum_chi2_ppf is modelled',
        'object identities (id reuse after a function object is freed) are interpreter facts: modelled by an explicit identity assignment, realised on the implementation by L3']
    chk.assumptions += ['tools/gen_Godambe.py (symbolic execution of the stencil blocks of hessian_elem/get_grad, step-rule if-tree, cache key, matrix expressions, definite-assignment '
                        'analysis of sum_chi2_ppf -> polymorphic Lean definitions)',
                        'a dictionary keyed by a tuple containing a function object compares that component by identity of live objects (modelled as the object itself)']
    check_cfg(chk, ctx)
    quick = tier == 'quick'
    # ---- stencils
    cases = []
    for n in range(1, 6):
        for deg in (1, 2, 3, 4):
            cases.append(gen_stencil_case(rng, n=n, deg=deg))
    for eps in (1e-4, 1e-1):
        for p0, kinds in (([0.0, 0.0], ['zero', 'zero']), ([1e-7, 2.0], ['tiny', 'normal']), ([0.0, 1e-7, -1.0], ['zero', 'tiny', 'negative'])):
            cases.append(gen_stencil_case(rng, n=len(p0), deg=2, eps=eps, p0=p0, kinds=kinds))
    for _ in range(250 if quick else 4000):
        cases.append(gen_stencil_case(rng))
    for c in cases:
        if len(chk.samples) < 3 and c['n'] >= 2: chk.sample(dict(kind='stencil', n=c['n'], p0=c['p0'], eps=c['eps'], poly=c['poly'][:4], parameter_kinds=c['kinds']))
        stencil_case(chk, ctx, c)
    step_rule_cases(chk, ctx, rng, 80 if quick else 1000)
    # ---- pipeline on linear Poisson models
    pcs = []
    for _ in range(1 if quick else 8):
        pcs += option_matrix(rng, dadi)
    refusal_cases(chk, ctx, rng)
    for _ in range(1 if quick else 6):
        pcs += nested_matrix(rng, dadi)
        pcs += mask_matrix(rng, dadi)
        pcs += nd_matrix(rng, dadi)
    for _ in range(30 if quick else 500):
        mm = MASK_MODES[int(rng.integers(len(MASK_MODES)))] if rng.random() < 0.4 else 'none'
        pcs.append(gen_pipeline_case(rng, dadi, api=APIS_ALL[int(rng.integers(len(APIS_ALL)))], mask_mode=mm))
    nadj = 0
    for i, c in enumerate(pcs):
        if i < 2: chk.sample(dict(kind='pipeline', api=c['api'], multinom=c['multinom'], log=c['log'], params=c['p'], theta=c['theta'], eps=c['eps'], nested=c['nested'],
                                  bootstraps=c['nboot'], samples=c['ns']))
        pipeline_case(chk, ctx, c)
        if i % (3 if quick else 2) == 0: perm_case(chk, ctx, c, rng)
        if c.get('thetas_mode') == 'varied' and not c['multinom'] and c.get('variant') != 'just_hess':
            nadj += 1
            if quick or nadj % 3 == 0: cacheadj_case(chk, ctx, c, rng)
    # ---- cache: directed scenarios (the nested tests with multinom False/True), then random histories
    hs = [gen_history(rng, dadi, directed=(api, m)) for api in ('LRT_adjust', 'Wald_stat', 'score_stat') for m in (False, True)]
    hs += [gen_history(rng, dadi) for _ in range(8 if quick else 150)]
    failed = False
    for i, h in enumerate(hs):
        if i == 0: chk.sample(dict(kind='history', calls=[(o['api'], o['multinom'], o['p']) for o in h['ops']]))
        if not failed:
            failed = not history_case(chk, ctx, h)
        else:
            chk.stat('histories_not_run_after_first_failure')
        cache_k_case(chk, ctx, h)
    # ---- sum_chi2_ppf
    chi2_cases(chk, ctx, rng, 60 if quick else 800)

def replay(chk, ctx, data):
    rng = common.Rng(ctx['seed'], 'C19'); ctx['_rng'] = rng
    inp = data.get('input', {}) or {}
    def arr(d):
        return np.array(d['data'], dtype=float).reshape(d['shape']) if isinstance(d, dict) else np.asarray(d, dtype=float)
    if inp.get('stencil'):
        c = dict(inp); c['poly'] = [(m[0], tuple(m[1])) for m in inp['poly']]
        stencil_case(chk, ctx, c)
    elif inp.get('step_rule'):
        step_rule_cases(chk, ctx, rng, 40)
    elif inp.get('pipeline'):
        c = dict(inp); c['B'] = arr(inp['B'])
        if inp.get('perm'): perm_case(chk, ctx, c, rng)
        elif inp.get('cacheadj'): cacheadj_case(chk, ctx, c, rng)
        else: pipeline_case(chk, ctx, c)
    elif inp.get('history'):
        h = dict(inp); h['B'] = [arr(b) for b in inp['B']]
        history_case(chk, ctx, h); cache_k_case(chk, ctx, h)
    elif inp.get('chi2'):
        G = ctx['dadi'].Godambe
        form = inp['form']; xs = inp['x']; w = tuple(inp['weights'])
        arg = xs[0] if form == 'scalar' else (list(xs) if form == 'list' else (np.array(xs) if form == 'ndarray' else (tuple(xs) if form == 'tuple' else np.array(xs[0]))))
        chk.l3(('chi2', form))
        try:
            G.sum_chi2_ppf(arg, w)
        except Exception as e:
            chk.fail('sum_chi2_ppf:%s:%s' % ('scalar' if form == 'scalar' else 'array', type(e).__name__), 'sum_chi2_ppf(%r, weights=%r) raises %r' % (arg, w, e), inp)
        chi2_cases(chk, ctx, rng, 10)
    else:
        run(chk, ctx)
