"""Helpers shared by C01/C03/C04: calling the public integrators generically in d populations,
talking to the Lean model's sweep/integ ops."""
import numpy as np, itertools
from . import common, gen
from .common import rat, fmt_list, fmt_nd, fmt_grids, parse_nd, close

NAMES = {1: 'one_pop', 2: 'two_pops', 3: 'three_pops', 4: 'four_pops', 5: 'five_pops'}

def kwargs_for(d, nus, ms, gammas, hs, theta0, frozen=None, nomut=None, beta=None):
    """ms: dict (i,j)->rate into i from j (0-based)"""
    kw = {}
    if d == 1:
        kw = dict(nu=nus[0], gamma=gammas[0], h=hs[0], theta0=theta0)
        if beta is not None: kw['beta'] = beta
        if frozen and frozen[0]: kw['frozen'] = True
        return kw
    for i in range(d):
        kw['nu%d' % (i+1)] = nus[i]; kw['gamma%d' % (i+1)] = gammas[i]; kw['h%d' % (i+1)] = hs[i]
        for j in range(d):
            if i != j: kw['m%d%d' % (i+1, j+1)] = ms.get((i, j), 0.0)
        if frozen is not None: kw['frozen%d' % (i+1)] = bool(frozen[i])
    if d == 2 and nomut is not None:
        kw['nomut1'] = bool(nomut[0]); kw['nomut2'] = bool(nomut[1])
    kw['theta0'] = theta0
    return kw

def integrate(dadi, d, phi, xx, T, **kw):
    return getattr(dadi.Integration, NAMES[d])(phi, xx, T, **kw)

def random_model(rng, d, sel=True, mig=True, frozen_ok=True, nu_range=(0.1, 10), m_max=5, g_max=10):
    nus = [gen.loguniform(rng, *nu_range) for _ in range(d)]
    gammas = [float(rng.uniform(-g_max, g_max)) if (sel and rng.random() < 0.7) else 0.0 for _ in range(d)]
    hs = [float(rng.uniform(0, 1)) if rng.random() < 0.6 else 0.5 for _ in range(d)]
    frozen = [bool(frozen_ok and d > 1 and rng.random() < 0.2) for _ in range(d)]
    if all(frozen): frozen[0] = False
    ms = {}
    for i in range(d):
        for j in range(d):
            if i != j:
                v = float(rng.uniform(0, m_max)) if (mig and rng.random() < 0.8) else 0.0
                if frozen[i] or frozen[j]: v = 0.0
                ms[(i, j)] = v
    nomut = [bool(d == 2 and rng.random() < 0.2) for _ in range(d)]
    theta0 = float(rng.uniform(0.3, 3))
    return nus, ms, gammas, hs, theta0, frozen, nomut

def pops_str(d, nus, ms, gammas, hs):
    parts = []
    for i in range(d):
        parts.append(','.join([rat(nus[i]), rat(gammas[i]), rat(hs[i])] + [rat(ms.get((i, j), 0.0)) for j in range(d) if j != i]))
    return ';'.join(parts)

def bools_str(bs):
    return ','.join('1' if b else '0' for b in bs) if bs else '-'

def trapz_mass(phi, xx):
    d = phi.ndim
    out = phi
    for _ in range(d):
        out = np.trapezoid(out, xx, axis=-1) if hasattr(np, 'trapezoid') else np.trapz(out, xx, axis=-1)
    return float(out)

def trap_w(xx):
    w = np.zeros(len(xx)); dx = np.diff(xx)
    w[:-1] += dx / 2; w[1:] += dx / 2
    return w
