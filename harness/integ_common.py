"""Helpers shared by C01/C03/C04: calling the public integrators generically in d populations,
talking to the Lean model's sweep/integ ops."""
import numpy as np, itertools, os
from . import common, gen
from .common import rat, fmt_list, fmt_nd, fmt_grids, parse_nd, close

NAMES = {1: 'one_pop', 2: 'two_pops', 3: 'three_pops', 4: 'four_pops', 5: 'five_pops'}

def kwargs_for(d, nus, ms, gammas, hs, theta0, frozen=None, nomut=None, beta=None):
    """ms: dict (i,j)->rate into i from j (0-based)"""
    kw = {}
    if d == 1:
        kw = dict(nu=nus[0], gamma=gammas[0], h=hs[0], theta0=theta0)
        if beta is not None: kw['beta'] = beta
        if frozen and frozen[0]: kw['frozen'] = True
        return kw
    for i in range(d):
        kw['nu%d' % (i+1)] = nus[i]; kw['gamma%d' % (i+1)] = gammas[i]; kw['h%d' % (i+1)] = hs[i]
        for j in range(d):
            if i != j: kw['m%d%d' % (i+1, j+1)] = ms.get((i, j), 0.0)
        if frozen is not None: kw['frozen%d' % (i+1)] = bool(frozen[i])
    if d == 2 and nomut is not None:
        kw['nomut1'] = bool(nomut[0]); kw['nomut2'] = bool(nomut[1])
    kw['theta0'] = theta0
    return kw

def integrate(dadi, d, phi, xx, T, **kw):
    return getattr(dadi.Integration, NAMES[d])(phi, xx, T, **kw)

def random_model(rng, d, sel=True, mig=True, frozen_ok=True, nu_range=(0.1, 10), m_max=5, g_max=10):
    nus = [gen.loguniform(rng, *nu_range) for _ in range(d)]
    gammas = [float(rng.uniform(-g_max, g_max)) if (sel and rng.random() < 0.7) else 0.0 for _ in range(d)]
    hs = [float(rng.uniform(0, 1)) if rng.random() < 0.6 else 0.5 for _ in range(d)]
    frozen = [bool(frozen_ok and d > 1 and rng.random() < 0.2) for _ in range(d)]
    if all(frozen): frozen[0] = False
    ms = {}
    for i in range(d):
        for j in range(d):
            if i != j:
                v = float(rng.uniform(0, m_max)) if (mig and rng.random() < 0.8) else 0.0
                if frozen[i] or frozen[j]: v = 0.0
                ms[(i, j)] = v
    nomut = [bool(d == 2 and rng.random() < 0.2) for _ in range(d)]
    theta0 = float(rng.uniform(0.3, 3))
    return nus, ms, gammas, hs, theta0, frozen, nomut

def pops_str(d, nus, ms, gammas, hs):
    parts = []
    for i in range(d):
        parts.append(','.join([rat(nus[i]), rat(gammas[i]), rat(hs[i])] + [rat(ms.get((i, j), 0.0)) for j in range(d) if j != i]))
    return ';'.join(parts)

def bools_str(bs):
    return ','.join('1' if b else '0' for b in bs) if bs else '-'

def trapz_mass(phi, xx):
    d = phi.ndim
    out = phi
    for _ in range(d):
        out = np.trapezoid(out, xx, axis=-1) if hasattr(np, 'trapezoid') else np.trapz(out, xx, axis=-1)
    return float(out)

def trap_w(xx):
    w = np.zeros(len(xx)); dx = np.diff(xx)
    w[:-1] += dx / 2; w[1:] += dx / 2
    return w

# ------------------------------------------------------------------ K: translated driver programs, all-varying parameters, delj
def _r(v, bits=7):
    return gen.round_sig(float(v), bits)

def affine_fn(a, b):
    return (lambda t, a=a, b=b: a + b * t)

def k_program(chk, ctx, rng, rounds, tier, modes=('vary', 'const', 'delj', 'delj-one')):
    """Correspondence for the schedule itself (1-5 populations, 2-3 steps, exact small rationals, small grids):
      'vary'     EVERY population's size, selection, dominance and migration rates, theta0 (and beta in 1-D) are affine functions of
                 time: implementation vs model `integ fn` (integrateFn of the sweep) AND vs `integ prog fn` — the TRANSLATED time loop
                 of the driver (Generated/Coeffs.lean `driverPrograms`) run by the statement semantics of Model/Integrate.lean;
      'const'    constant parameters (1-3 populations: the pre-computed-coefficient drivers) vs `integ const` and `integ prog const`;
      'delj'     Integration.use_delj_trick = True through the C kernels (theta0 passed as a function), several steps: the exp values
                 of Chang-Cooper's delta_j are supplied to the model per axis (as in harness/c02.py), everything else exact;
      'delj-one' one step with the option on and every parameter time-dependent (the kernels see the values at next_t = T)."""
    from .c02 import eps_array
    dadi = ctx['dadi']; I = dadi.Integration; drv = ctx['driver']
    if drv is None or drv.p is None:
        return
    SZ = {1: (5, 8), 2: (4, 5), 3: (3, 4 if tier == 'thorough' else 3), 4: (3, 3), 5: (3, 3)}
    # the default timescale_factor 1e-3 is a 53-bit binary fraction: every dt, every next_t and every parameter value a + b*next_t would
    # carry it.  A power of two next to it keeps the exact rationals of the model short (the schedule is the same function of it).
    tf_saved = I.timescale_factor
    I.timescale_factor = 2.0 ** -10
    try:
        _k_program_cases(chk, ctx, rng, rounds, tier, modes, SZ, eps_array)
    finally:
        I.timescale_factor = tf_saved

def _k_program_cases(chk, ctx, rng, rounds, tier, modes, SZ, eps_array):
    dadi = ctx['dadi']; I = dadi.Integration; drv = ctx['driver']
    # one round = every (mode, d) the mode supports: 'vary' and 'delj-one' in 1-5 populations, 'const' in 1-3 (the drivers with
    # pre-computed coefficients), 'delj' over several steps in 1-3 (exact exp values make 4-D/5-D multi-step runs take minutes)
    DIMS = {'vary': (1, 2, 3, 4, 5), 'const': (1, 2, 3), 'delj': (1, 2, 3), 'delj-one': (1, 2, 3, 4, 5)}
    cases = [(m, d) for _ in range(rounds) for m in modes for d in DIMS[m]]
    for it, (mode, d) in enumerate(cases):
        lo, hi = SZ[d]
        pts = int(rng.integers(lo, hi + 1))
        xx, kind = gen.grid(rng, pts)
        B = {1: 7, 2: 7, 3: 7, 4: 6, 5: 5}[d]       # significant bits of every input (arbitrary values otherwise): the exact model multiplies them up
        _r = lambda v, bits=B: gen.round_sig(float(v), min(bits, B + 2))
        xx = gen.coarse(xx, B + 1); xx[0] = 0.0; xx[-1] = 1.0
        if not np.all(np.diff(xx) > 0): xx = np.linspace(0, 1, pts)
        phi = gen.coarse(gen.density(rng, [pts] * d), B)
        nus, ms, gammas, hs, th, fr, nm = random_model(rng, d, g_max=6, m_max=3, nu_range=(0.3, 4))
        nus = [_r(v) for v in nus]; gammas = [_r(v) for v in gammas]; hs = [_r(v) for v in hs]; th = _r(th)
        ms = {k: _r(v) for k, v in ms.items()}
        beta = _r(gen.loguniform(rng, 0.4, 3)) if d == 1 else None
        dts = [I._compute_dt(np.diff(xx), nus[i], [ms[(i, j)] for j in range(d) if j != i] or [0], gammas[i], hs[i]) for i in range(d)]
        dt0 = min(dts)
        nsteps = int(rng.integers(2, 4)) if (mode != 'delj' and d <= 3) else 2
        T = _r(dt0 * (nsteps - 1 + float(rng.uniform(0.3, 0.7))) * (0.75 if mode == 'vary' else 1.0), 9)
        if mode == 'delj-one': T = _r(dt0 * float(rng.uniform(0.3, 0.8)), 9)
        vary = mode in ('vary', 'delj-one')
        # slopes: the value changes by up to +-40 % over [0, T] (sizes stay positive, migration rates non-negative)
        def slope(v, pos=True):
            if not vary: return 0.0
            s = float(rng.uniform(-0.4, 0.4)) * (abs(v) if v != 0 else (0.0 if pos else 1.0)) / T
            return _r(s, 6)
        nus1 = [slope(v) for v in nus]; gam1 = [slope(v, False) for v in gammas]; hs1 = [slope(v, False) * 0.5 for v in hs]
        hs1 = [_r(v, 6) for v in hs1]
        ms1 = {k: slope(v) for k, v in ms.items()}
        th1 = slope(th); beta1 = slope(beta) if beta is not None else None
        kw = kwargs_for(d, nus, ms, gammas, hs, th, fr, nm, beta)
        if vary:
            for i in range(d):
                sfx = '' if d == 1 else str(i + 1)
                kw['nu' + sfx] = affine_fn(nus[i], nus1[i]); kw['gamma' + sfx] = affine_fn(gammas[i], gam1[i]); kw['h' + sfx] = affine_fn(hs[i], hs1[i])
                for j in range(d):
                    if i != j and not (fr[i] or fr[j]):      # a frozen population takes the constant 0 (a function there is rejected on entry)
                        kw['m%d%d' % (i + 1, j + 1)] = affine_fn(ms[(i, j)], ms1[(i, j)])
                    elif i != j:
                        ms1[(i, j)] = 0.0
            if beta is not None: kw['beta'] = affine_fn(beta, beta1)
        if mode != 'const':
            kw['theta0'] = affine_fn(th, th1)
        use = mode.startswith('delj')
        eps_tok = '-'
        rtol = 1e-9
        inp = dict(mode=mode, d=d, pts=pts, grid=kind, xx=xx, T=T, nus=nus, nus1=nus1, gammas=gammas, gammas1=gam1, hs=hs, hs1=hs1,
                   ms={'%d%d' % (a + 1, b + 1): v for (a, b), v in ms.items()}, ms1={'%d%d' % (a + 1, b + 1): v for (a, b), v in ms1.items()},
                   theta0=th, theta1=th1, beta=beta, beta1=beta1, frozen=fr, nomut=nm, phi=phi)
        if use:
            # parameters the kernels see: the constants ('delj') / the values at next_t = T ('delj-one')
            at = (lambda a, b: a + b * T) if mode == 'delj-one' else (lambda a, b: a)
            eps_l = []; bad = False
            for ax in range(d):
                msx = [at(ms[(ax, j)], ms1[(ax, j)]) for j in range(d) if j != ax]
                E, tmin, tmax = eps_array(phi, [xx] * d, ax, at(nus[ax], nus1[ax]), msx, at(gammas[ax], gam1[ax]), at(hs[ax], hs1[ax]),
                                          at(beta, beta1) if beta is not None else None)
                bad = bad or tmax > 300 or tmin < 1e-2
                eps_l.append(E)
            if bad:
                chk.k_skipped += 1; chk.stat('K-program:skipped_delj_illconditioned'); continue
            eps_tok = '|'.join(fmt_nd(E) for E in eps_l)
            rtol = 1e-6
        old = I.use_delj_trick
        I.use_delj_trick = use
        try:
            impl = integrate(dadi, d, phi.copy(), xx, T, **kw)
        except Exception as e:
            chk.k_bad('program:%s:%dD' % (mode, d), inp, None, 'implementation raises %r' % (e,), None); continue
        finally:
            I.use_delj_trick = old
        zero = [0.0] * d
        p0 = pops_str(d, nus, ms, gammas, hs); p1 = pops_str(d, nus1, ms1, gam1, hs1)
        bt0 = rat(beta) if beta is not None else '-'; bt1 = rat(beta1) if beta is not None else '-'
        tail = [rat(I.timescale_factor), rat(T), '0', bools_str(fr), bools_str(nm), rat(th), rat(th1), bt0, bt1, p0, p1, fmt_grids([xx] * d), fmt_nd(phi), eps_tok]
        asks = []
        if mode == 'delj-one' and d >= 4:
            asks = []      # filled below with the independent model only: exact exp values make a 4-D/5-D step cost seconds, once is enough
        if mode == 'delj-one':
            pT = pops_str(d, [a + b * T for a, b in zip(nus, nus1)], {k: ms[k] + ms1[k] * T for k in ms}, [a + b * T for a, b in zip(gammas, gam1)],
                          [a + b * T for a, b in zip(hs, hs1)])
            asks.append(('sweep', ' '.join(['sweep', rat(T), bools_str(fr), bools_str(nm), rat(th + th1 * T),
                                            rat(beta + beta1 * T) if beta is not None else '-', pT, fmt_grids([xx] * d), fmt_nd(phi), eps_tok])))
        elif mode == 'const':
            asks.append(('integ_const', ' '.join(['integ', 'const', rat(I.timescale_factor), rat(T), '0', bools_str(fr), bools_str(nm), rat(th), bt0, p0,
                                                   fmt_grids([xx] * d), fmt_nd(phi)])))
        else:
            asks.append(('integ_fn', ' '.join(['integ', 'fn'] + tail)))
        if not (mode == 'delj-one' and d >= 4):
            asks.append(('prog_const' if mode == 'const' else 'prog_fn', ' '.join(['integ', 'prog', 'const' if mode == 'const' else 'fn'] + tail)))
        for opn, line in asks:
            op = 'program:%s:%s:%dD' % (mode, opn, d)
            import time as _t
            t_ask = _t.time()
            out = drv.ask(line)
            chk.stats.setdefault('K_seconds', {}); chk.stats['K_seconds'][op] = round(chk.stats['K_seconds'].get(op, 0) + (_t.time() - t_ask), 2)
            if os.environ.get('KP_DEBUG'): print('KP', op, pts, nsteps, round(_t.time() - t_ask, 2), flush=True)
            if out.startswith('ok ') and opn == 'integ_const': out = 'ok ' + out[3:].split(' ', 1)[1]
            if not out.startswith('ok '):
                chk.k_bad(op, inp, None, out, None); continue
            model, _ = parse_nd(out[3:])
            ok, err, scale = close(impl, model, rtol=rtol)
            if ok: chk.k_ok(op)
            else: chk.k_bad(op, inp, impl, model, err)
        chk.stat('K-program:' + mode); chk.stat('K-program:%dD' % d)

# ------------------------------------------------------------------ L3: the schedule, observed on the real drivers
def _dt_rule(tf, nu, ms, gamma, h):
    """time step of one population, written from the documentation: timescale_factor / max(V, M) with the maxima of V = x(1-x)/nu (1/(4 nu)),
    of the migration terms (sum of the rates) and of the selection term 2|gamma| |h + (1-2h)x| x(1-x) taken at x = 1/2 and x = 1/4"""
    sel = abs(gamma) * 2 * max(abs(h + (1 - 2 * h) * 0.5) * 0.25, abs(h + (1 - 2 * h) * 0.25) * 0.1875)
    mx = max(0.25 / nu, sum(ms), sel)
    return tf / mx if mx > 0 else float('inf')

def l3_schedule(chk, ctx, rng, n):
    """'as the time-step rule promises' / 'with the same time steps', on the real code: every driver (1-5 populations; time-dependent with
    EVERY parameter a function of time; constant, i.e. the pre-computed-coefficient drivers in 1-3 populations and constant functions
    in 4-5) must take the steps  t_0 = 0, dt_i = rule(parameters at t_i), this_dt_i = min(dt_i, T - t_i), t_{i+1} = t_i + this_dt_i  until
    t reaches T (no early exit, no equalised steps), inject dt_i * theta0(t_{i+1}) of new mutations into exactly the populations that
    are neither frozen nor nomut, and sweep every non-frozen axis k, in order, with this_dt_i and the values nu_k, m_kl, gamma_k, h_k
    (beta) of time t_{i+1}.  Observed by recording the kernel calls and the change made by each injection."""
    import math
    from .c02_precalc import Recorder
    dadi = ctx['dadi']; I = dadi.Integration
    AX = 'xyzab'
    for it in range(n):
        d = 1 + it % 5
        varying = (it // 5) % 3 != 2
        pts = {1: 12, 2: 8, 3: 6, 4: 5, 5: 4}[d] + int(rng.integers(0, 2))
        xx = dadi.Numerics.default_grid(pts)
        w = trap_w(xx)
        phi = gen.density(rng, [pts] * d)
        nus, ms, gammas, hs, th, fr, nm = random_model(rng, d, g_max=6, m_max=3, nu_range=(0.3, 4))
        if d == 1: fr = [False]
        beta = gen.loguniform(rng, 0.5, 2) if (d == 1 and rng.random() < 0.5) else None
        tf = I.timescale_factor
        dt0 = min(_dt_rule(tf, nus[i], [ms[(i, j)] for j in range(d) if j != i], gammas[i], hs[i]) for i in range(d))
        T = dt0 * float(rng.uniform(2.2, 3.8))
        def wave(v, amp):
            a = float(rng.uniform(0.3, 1.0)) * amp; om = float(rng.uniform(1.0, 4.0)) / T; ph = float(rng.uniform(0, 6.28))
            return (lambda t, v=v, a=a, om=om, ph=ph: v * (1 + a * math.sin(om * t + ph))) if varying else (lambda t, v=v: v)
        f_nu = [wave(v, 0.4) for v in nus]; f_g = [wave(v, 0.4) for v in gammas]; f_h = [wave(v, 0.3) for v in hs]
        f_m = {k: (wave(v, 0.4) if not (fr[k[0]] or fr[k[1]]) else (lambda t: 0.0)) for k, v in ms.items()}
        f_th = wave(th, 0.3); f_b = wave(beta, 0.3) if beta is not None else None
        kw = kwargs_for(d, nus, ms, gammas, hs, th, fr, nm, beta)
        if varying:
            for i in range(d):
                sfx = '' if d == 1 else str(i + 1)
                kw['nu' + sfx] = f_nu[i]; kw['gamma' + sfx] = f_g[i]; kw['h' + sfx] = f_h[i]
                for j in range(d):
                    if i != j and not (fr[i] or fr[j]): kw['m%d%d' % (i + 1, j + 1)] = f_m[(i, j)]
            kw['theta0'] = f_th
            if beta is not None: kw['beta'] = f_b
        # the schedule, from the statement
        steps = []; t = 0.0
        while t < T and len(steps) < 50:
            dt = min(_dt_rule(tf, f_nu[i](t), [f_m[(i, j)](t) for j in range(d) if j != i], f_g[i](t), f_h[i](t)) for i in range(d))
            this = min(dt, T - t); steps.append((t, this, t + this)); t = t + this
        key = 'schedule:%dD:%s' % (d, 'varying' if varying else 'constant')
        chk.l3((key, tuple(fr), tuple(nm), beta is not None))
        inp = dict(d=d, pts=pts, T=T, varying=varying, nus=nus, ms={'%d%d' % (a + 1, b + 1): v for (a, b), v in ms.items()}, gammas=gammas, hs=hs,
                   theta0=th, beta=beta, frozen=fr, nomut=nm, expected_steps=[s[1] for s in steps])
        if d == 1 and not varying:
            # start from the density the scheme itself converges to under these constants: a step then changes nothing visible, and
            # the driver still has to take every step up to T
            try:
                phi = integrate(dadi, 1, phi, xx, 25.0 * nus[0] / max(1.0, abs(gammas[0]) * nus[0]) + 10.0 * nus[0], **kw)
                inp['start'] = 'stationary density of the scheme'
            except Exception as e:
                chk.fail(key + ':raises:' + type(e).__name__, 'integrator raises %r' % (e,), inp); continue
        injected = []
        iname = '_inject_mutations_%dD' % d
        real_inj = getattr(I, iname)
        def rec_inj(phi_, *a, **k):
            before = phi_.copy(); out = real_inj(phi_, *a, **k); injected.append(out - before); return out
        setattr(I, iname, rec_inj)
        try:
            with Recorder(dadi) as rec:
                integrate(dadi, d, phi.copy(), xx, T, **kw)
        except Exception as e:
            chk.fail(key + ':raises:' + type(e).__name__, 'integrator raises %r' % (e,), inp); continue
        finally:
            setattr(I, iname, real_inj)
        same = lambda a, b: abs(a - b) <= 1e-11 * max(abs(b), 1e-300) if b != 0 else abs(a) <= 1e-300
        if len(injected) != len(steps):
            chk.fail(key + ':number-of-steps', 'the driver took %d steps, the time-step rule gives %d (steps %s up to T = %.6g)' % (
                len(injected), len(steps), ['%.6g' % s[1] for s in steps], T), inp); continue
        bad = False
        # injection: dt_i * theta0(t_{i+1}) / (2 x_1) of trapezoid mass at e_k of every receiving population, nothing elsewhere
        for (t0_, this, nt), diff in zip(steps, injected):
            for k in range(d):
                on = (not fr[k]) and not (d == 2 and nm[k])
                e = tuple(1 if l == k else 0 for l in range(d))
                got = diff[e] * np.prod([w[i] for i in e]); want = this * f_th(nt) / (2 * xx[1]) if on else 0.0
                if not (abs(got - want) <= 1e-10 * max(abs(want), 1e-300) if want else got == 0):
                    chk.fail(key + ':inject:pop%d' % (k + 1), 'step from t=%.6g: injection adds trapezoid mass %.12g at e_%d (frozen=%s, nomut=%s), expected this_dt*theta0(next_t)/(2 x_1) = %.12g'
                             % (t0_, got, k + 1, fr[k], nm[k] if d == 2 else None, want), inp); bad = True; break
            if bad: break
            rest = diff.copy()
            for k in range(d): rest[tuple(1 if l == k else 0 for l in range(d))] = 0
            if np.any(rest != 0):
                chk.fail(key + ':inject:elsewhere', 'injection changed entries other than the unit multi-indices', inp); bad = True; break
        if bad: continue
        # kernel calls: per step every non-frozen axis in order
        axes = [k for k in range(d) if not fr[k]]
        calls = rec.calls
        if len(calls) != len(steps) * len(axes):
            chk.fail(key + ':number-of-sweeps', '%d kernel calls for %d steps x %d non-frozen axes' % (len(calls), len(steps), len(axes)), inp); continue
        ci = 0
        for (t0_, this, nt) in steps:
            for k in axes:
                name, pin, args, kwc, out = calls[ci]; ci += 1
                if name == 'tridiag':
                    a_, b_, c_, r_ = args
                    with np.errstate(all='ignore'):
                        q = r_ / pin if False else None
                    continue        # 1-D constant driver: the step enters as r = phi/this_dt and b + 1/this_dt (checked through the injection above and the result in K)
                pre = name.startswith('implicit_precalc_')
                want_name = ('implicit_precalc_%dD%s' if pre else 'implicit_%dD%s') % (d, AX[k])
                if name != want_name:
                    chk.fail(key + ':sweep-order', 'step from t=%.6g: kernel %s called where the sweep along axis %d (%s) is due (frozen=%s)' % (t0_, name, k + 1, want_name, fr), inp); bad = True; break
                if pre:
                    got_dt = float(args[3])
                else:
                    sc = [float(x) for x in args[d:] if not isinstance(x, np.ndarray)]
                    want = [f_nu[k](nt)] + [f_m[(k, l)](nt) for l in range(d) if l != k] + [f_g[k](nt), f_h[k](nt)] + ([f_b(nt) if f_b else 1.0] if d == 1 else [])
                    got_dt = sc[len(want)]
                    names = ['nu'] + ['m%d%d' % (k + 1, l + 1) for l in range(d) if l != k] + ['gamma', 'h'] + (['beta'] if d == 1 else [])
                    for nm_, g_, w_ in zip(names, sc, want):
                        if not same(g_, w_):
                            chk.fail(key + ':kernel-arg:%s' % nm_, 'step from t=%.6g to %.6g: the sweep along axis %d got %s = %.12g, the value at the next time is %.12g (at the current time %.12g)'
                                     % (t0_, nt, k + 1, nm_, g_, w_, dict(zip(names, [f_nu[k](t0_)] + [f_m[(k, l)](t0_) for l in range(d) if l != k] + [f_g[k](t0_), f_h[k](t0_)] + ([f_b(t0_) if f_b else 1.0] if d == 1 else [])))[nm_]), inp)
                            bad = True; break
                    if bad: break
                if not same(got_dt, this):
                    chk.fail(key + ':kernel-dt', 'step from t=%.6g: the sweep along axis %d got dt = %.12g, this_dt = min(dt, T - t) = %.12g' % (t0_, k + 1, got_dt, this), inp); bad = True; break
            if bad: break

# ------------------------------------------------------------------ round 6: the C kernels called directly (ctypes)
# The Cython wrappers of the 2-D/3-D kernels pass the extent of the SOLVED axis as the end of the outermost loop (known finding
# F-02, harmless in the public API where all axes share one grid).  The C functions themselves take that end as a parameter, so
# on NON-cubic arrays — where a wrong stride or a swapped coordinate inside a kernel body cannot hide — they are called through
# ctypes, every argument bound by the NAME of the C parameter (read from the current source; an unknown name: no call).
AXL = 'xyzab'
GRIDNAMES = ['xx', 'yy', 'zz', 'aa', 'bb']
DIMNAMES = ['L', 'M', 'N', 'O', 'P']

class CKernels:
    def __init__(self, ctx):
        import ctypes, re, sys
        self.ct = ctypes
        self.ok = False; self.why = ''
        self.sigs = {}
        try:
            dadi = ctx['dadi']
            self.lib = ctypes.CDLL(dadi.integration_c.__file__)
            here = os.path.dirname(os.path.dirname(os.path.abspath(__file__)))
            sys.path.insert(0, os.path.join(here, 'tools'))
            import translate
            srcdir = os.path.dirname(dadi.integration_c.__file__)
            for d in range(1, 6):
                cf = translate.c_functions(os.path.join(srcdir, 'integration%dD.c' % d))
                for name, (args, body) in cf.items():
                    if name.startswith('implicit_'): self.sigs[name] = args
            self.ok = True
        except Exception as e:            # no shared object / no source next to it: the direct calls are skipped, nothing else
            self.why = repr(e)

    def bind(self, name, d, ax, phi, grids=None, nu=None, ms=None, gamma=None, h=None, beta=None, dt=None, use=False, coef=None):
        """argument list for C function `name` by parameter name; None if a parameter is not understood"""
        import re
        ct = self.ct
        sig = self.sigs.get(name)
        if sig is None or not hasattr(self.lib, name): return None
        others = [l for l in range(d) if l != ax]
        out = []; keep = []
        for pname, isptr, ctype in sig:
            if isptr:
                if pname == 'phi': arr = phi
                elif grids is not None and pname in GRIDNAMES[:d]: arr = np.ascontiguousarray(grids[GRIDNAMES.index(pname)], dtype=float)
                elif coef is not None and re.match(r'^[abc][%s]$' % AXL[ax], pname): arr = coef['abc'.index(pname[0])]
                else: return None
                if not (arr.flags['C_CONTIGUOUS'] and arr.dtype == np.float64): return None
                keep.append(arr); out.append(arr.ctypes.data_as(ct.POINTER(ct.c_double)))
            elif ctype == 'double':
                mm = re.match(r'^m(\d)(\d)$', pname)
                if pname == 'dt': v = dt
                elif pname == 'beta': v = beta
                elif re.match(r'^nu\d?$', pname) and pname in ('nu', 'nu%d' % (ax + 1)): v = nu
                elif re.match(r'^gamma\d?$', pname) and pname in ('gamma', 'gamma%d' % (ax + 1)): v = gamma
                elif re.match(r'^h\d?$', pname) and pname in ('h', 'h%d' % (ax + 1)): v = h
                elif mm and int(mm.group(1)) == ax + 1 and (int(mm.group(2)) - 1) in others: v = ms[others.index(int(mm.group(2)) - 1)]
                else: return None
                if v is None: return None
                out.append(ct.c_double(float(v)))
            elif ctype == 'int':
                if pname in DIMNAMES[:d]: v = phi.shape[DIMNAMES.index(pname)]
                elif pname == 'use_delj_trick': v = int(bool(use))
                elif pname.endswith('start'): v = 0
                elif pname.endswith('end') and others: v = phi.shape[others[0]]
                else: return None
                out.append(ct.c_int(int(v)))
            else:
                return None
        return out, keep

    def call(self, name, d, ax, phi, **kw):
        """run the C function in place on a C-contiguous copy of phi; None if it cannot be called"""
        if not self.ok: return None
        work = np.ascontiguousarray(np.array(phi, dtype=float, copy=True))
        b = self.bind(name, d, ax, work, **kw)
        if b is None: return None
        args, keep = b
        f = getattr(self.lib, name); f.restype = None
        f(*args)
        return work
