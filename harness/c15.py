"""C15 — library models are well-formed and reduce exactly to their nested special cases.

T : tools/gen_Models.py regenerates Generated/Models.lean (one DSL program per function exposing `__param_names__` in the
    six model files + the signatures of the primitives) from the current source; Props/C15.lean proves well-formedness
    (arity, names, dimensions), the nesting pairs and the label-swap symmetry about those definitions for every lawful
    interpretation of the primitives.
K : (a) the generated table vs run-time introspection of the model modules (names, `__param_names__`, signatures) and the
    generated primitive signatures vs `inspect.signature`; (b) for every model at random parameters: the calls the *real*
    model function makes to PhiManip / Integration / Spectrum.from_phi (recorded by wrapping them: function, every bound
    argument incl. defaults, size functions sampled in time, identity of the density and grid objects) vs the trace the
    Lean executor produces for the same parameter values (op c15.trace); (c) wrong-arity vectors: `err arity` vs exception;
    (d) the hand table of nesting pairs / symmetric models is accepted by the model (ops c15.pairs / c15.symmetric / c15.permsym);
    (e) units: the expected unit of every keyword of every generated signature (op c15.kwunits) vs the harness's own classification
    by keyword name; per model the verdict of the units checker (op c15.units: every ill-united argument is reported with model,
    primitive, keyword, expression, unit found and unit expected); the reference-size sites the Lean model lists for a model vs
    the sites at which the *real* calls do not scale like a size (see L3).
L3: the property statement evaluated on the real code, independent of the Lean model: every model at random parameters in
    the documented bounds, pts = 16, 20, 24 -> Spectrum of the requested sample sizes, finite, non-negative, extrap_x set;
    vectors of a wrong length are refused; zero-duration integration returns the density unchanged (the law the nesting
    theorems assume); each nesting pair agrees numerically at the nesting point (1e-8); label swap of the symmetric models:
    the difference is an operator-splitting error (ratio per decade of Integration.timescale_factor in [5, 20] when the last
    epoch has migration; decreasing otherwise); the same for every three-population entry of Pairs.permSymmetric (any permutation
    of the labels: model(permuted params, permuted ns) vs numpy.transpose of model(params, ns)); units / multi-family homogeneity:
    every model function is run three times with the integrators stubbed (they return the density unchanged — only the arithmetic of
    the model function is observed): at p, at p with times × cT, rates × cR, selection × cG (sizes fixed: the reference-size convention)
    and additionally sizes × cS; every numeric keyword of every recorded call must scale by the factor of the family its name
    expects (nu*: cS, T: cT, m<ij>: cR, gamma*: cG, h*/f*/beta: 1; a size function f: f'(cT t) = cS f(t)).
    Round 5, value-dependent branches: every model ON the boundaries where a comparison between parameters can flip and just
    off them — for every pair of parameters of one family (nuX0/nuX, nu1/nu2, m12/m21, T1/T2, T/Ts, …) one pair at a time
    (b := a exactly vs b := a(1 ± 1e-9)), and every time / rate / selection parameter at 0 vs 1e-9: (i) the arguments the real
    function passes to the primitives (integrators stubbed) must not jump across the equality (a constant size vs the samples of
    a size function), (ii) where the calls change shape across the equality (another call sequence, a constant instead of a
    function: a value-dependent branch — found by observation, not from the source) and on a sample of the other pairs the
    spectrum itself must be continuous (<= 1e-5 of the largest entry, far below the splitting error, far above the 1e-9 step);
    (iii) the label-permutation oracle and the nesting pairs are evaluated at such points as well (all branch boundaries and their
    images under the permutation, a sample of the others); K: the comparisons of the Lean trace of a model (op c15.boundary) vs the
    pairs at which the real calls change shape.
"""
import inspect, importlib, json, math, re, time
import numpy as np
from . import common
from .common import rat

PROP = 'C15'
GENERATED = ['Models']
NEEDS_BUILD = True
NEEDS_DRIVER = True
DRIVER_MODULES = ['Models']
EXTRA_MODULES = ()

MODULES = [('Demographics1D', 'dadi.Demographics1D'), ('Demographics2D', 'dadi.Demographics2D'),
           ('Demographics3D', 'dadi.Demographics3D'), ('portik_models_2d', 'dadi.PortikModels.portik_models_2d'),
           ('portik_models_3d', 'dadi.PortikModels.portik_models_3d'), ('DemogSelModels', 'dadi.DFE.DemogSelModels')]
PTS = (16, 20, 24)
BOUNDS = dict(size=(1e-2, 100.0), time=(0.0, 3.0), mig=(0.0, 10.0), frac=(0.02, 0.98))
SEL_MAX = 3.0
# entries whose exact value is ~0 (a population that has lost its variation: small nu, long T) come out as -1e-5..-1e-4 of the
# largest entry on every grid, shrinking slowly with pts: solver noise, not judged.  A wrong model is off by O(1).
NEG_TOL = 1e-3
MIG_RESOLVED = 8.0      # m * max(1, largest size) up to which the grids 16..24 resolve migration (no oscillation)
TF_DEFAULT = 1e-3
PERM_FLOOR = 5e-5       # label-permutation differences not larger than this at timescale_factor 1e-4: "decreasing" is not judged
# seconds per implicit step, (dimension, pts) -> (constant parameters, time-dependent parameters); measured in this sandbox
STEP_COST = {1: {16: (2e-5, 4e-5), 20: (2e-5, 4e-5), 24: (3e-5, 5e-5)},
             2: {16: (4e-5, 1.4e-4), 20: (7e-5, 2.0e-4), 24: (7e-5, 2.3e-4)},
             3: {16: (6.5e-4, 1.4e-3), 20: (1.6e-3, 2.6e-3), 24: (2.8e-3, 4.4e-3)}}
RUN_BUDGET = {'quick': {1: 0.1, 2: 0.5, 3: 1.5}, 'thorough': {1: 0.5, 2: 2.0, 3: 6.0}}     # seconds per draw (three grids)

# ----------------------------------------------------------------------------------------------- discovery (run time)
def discover(dadi):
    """every function defined in the six modules that exposes `__param_names__` (aliases collapse on the function object)"""
    out = []; seen = set()
    for label, modname in MODULES:
        mod = importlib.import_module(modname)
        for n, f in vars(mod).items():
            if not inspect.isfunction(f) or not hasattr(f, '__param_names__'): continue
            if f.__module__ != modname or id(f) in seen: continue
            seen.add(id(f))
            out.append(dict(name=label + '.' + f.__name__, f=f, pn=list(f.__param_names__),
                            argn=list(inspect.signature(f).parameters), label=label))
    return out

def kind(p):
    if p.startswith('nu'): return 'size'
    if p.startswith('T'): return 'time'
    if p.startswith('gamma'): return 'sel'
    if p.startswith('m'): return 'mig'
    if p in ('s', 'f', 'F') or p.startswith('f'): return 'frac'
    return 'other'

def coarse(x, bits=30):
    """floats with a short mantissa keep the exact rationals on the wire short"""
    if x == 0: return 0.0
    m, e = math.frexp(float(x))
    return math.ldexp(round(m * (1 << bits)) / (1 << bits), e)

def resolved(p):
    """the regime in which the grids 16..24 resolve the dynamics: effective migration m*nu and selection |gamma|*nu of a few
    units.  Beyond it the central-difference scheme oscillates on these coarse grids and from_phi returns small negative
    entries (e.g. sym_mig(96, 10.3, m=4.84, T=0.57), pts=16: -0.018, gone at pts=20) — a resolution limit, not judged."""
    big = max([1.0] + [v for n, v in p.items() if kind(n) == 'size'])
    ms = [v for n, v in p.items() if kind(n) == 'mig'] + [0.0]
    gs = [abs(v) for n, v in p.items() if kind(n) == 'sel'] + [0.0]
    return max(ms) * big <= MIG_RESOLVED * (1 + 1e-9) and max(gs) * big <= SEL_MAX * (1 + 1e-9)

def draw(rng, names, edge=True):
    p = {}
    want_resolved = rng.random() < 0.5
    for n in names:
        k = kind(n); u = rng.random()
        if k == 'size':
            lo, hi = BOUNDS['size']
            v = math.exp(rng.uniform(math.log(lo), math.log(hi))) if (u < 0.8 or not edge) else [lo, hi, 1.0][int(rng.integers(3))]
        elif k == 'time':
            lo, hi = BOUNDS['time']
            v = rng.uniform(lo, hi) if (u < 0.85 or not edge) else [0.0, hi][int(rng.integers(2))]
        elif k == 'mig':
            lo, hi = BOUNDS['mig']
            if not edge: v = rng.uniform(lo, hi)
            elif u < 0.15: v = 0.0
            elif u < 0.40: v = rng.uniform(0, 0.5)
            elif u < 0.90: v = rng.uniform(lo, hi)
            else: v = hi
        elif k == 'sel':
            v = 0.0                      # drawn below, relative to the sizes
        elif k == 'frac':
            v = rng.uniform(*BOUNDS['frac'])
        else:
            v = rng.uniform(0.1, 1.0)
        p[n] = coarse(v)
    # selection: the grids 16..24 resolve |gamma| * nu up to a few units only (beyond that from_phi returns negative entries
    # on these coarse grids -- a resolution limit, not a property of the models): |gamma| * max(1, largest size) <= SEL_MAX
    big = max([1.0] + [v for n, v in p.items() if kind(n) == 'size'])
    for n in names:
        if kind(n) == 'sel':
            p[n] = 0.0 if (edge and rng.random() < 0.12) else coarse(rng.uniform(-SEL_MAX, SEL_MAX) / big)
        elif kind(n) == 'mig' and want_resolved and p[n] * big > MIG_RESOLVED:
            p[n] = coarse(rng.uniform(0, MIG_RESOLVED / big))
    return p

def has_branches(ctx, m):
    """does the body of the model function contain an `if` (directly, or in the model it delegates to)"""
    if 'ifs' not in m:
        try:
            import ast as _ast, textwrap
            tree = _ast.parse(textwrap.dedent(inspect.getsource(m['f'])))
            m['ifs'] = any(isinstance(n, (_ast.If, _ast.IfExp)) for n in _ast.walk(tree))
        except Exception:
            m['ifs'] = False
    return m['ifs'] or ctx.get('_branches', {}).get(m['name'], 1) > 1

def model_dim(m):
    """number of populations: run at zero-length epochs (nothing is integrated)"""
    if 'dim' in m: return m['dim']
    p = [0.0 if kind(n) in ('time', 'mig', 'sel') else 0.5 for n in m['pn']]
    err = None
    for d in (1, 2, 3, 4, 5):
        try:
            fs = m['f'](p if m['pn'] else None, (2,) * d, 6)
            if getattr(fs, 'ndim', None) == d:
                m['dim'] = d; return d
        except Exception as e:
            err = e
    m['dim'] = None; m['dim_err'] = repr(err)
    return None

def has_sizefunc(m):
    if 'fn' not in m:
        try:
            src = inspect.getsource(m['f'])
        except Exception:
            src = 'lambda'
        m['fn'] = ('lambda' in src) or (src.count('def ') > 1)
    return m['fn']

def est_steps(m, p, d):
    """upper estimate of the number of implicit steps: sum of the epochs times the largest rate / timescale_factor"""
    T = sum(v for n, v in p.items() if kind(n) == 'time')
    nus = [v for n, v in p.items() if kind(n) == 'size'] + [1.0] + [v for n, v in p.items() if kind(n) == 'frac'] \
        + [1 - v for n, v in p.items() if kind(n) == 'frac']
    ms = [v for n, v in p.items() if kind(n) == 'mig'] + [0.0]
    gs = [abs(v) for n, v in p.items() if kind(n) == 'sel'] + [0.0]
    maxVM = max(0.25 / max(min(nus), 1e-3), (d - 1) * max(ms), 0.5 * max(gs))
    return T * maxVM / TF_DEFAULT

def fit_budget(m, p, d, tier, scale=1.0):
    """shrink the epoch lengths (they stay inside [0, 3]) until the three runs fit the time budget"""
    fn = 1 if has_sizefunc(m) else 0
    per_step = sum(STEP_COST[min(d, 3)][pts][fn] for pts in PTS) * (40 if d > 3 else 1)
    budget = RUN_BUDGET[tier][min(d, 3)] * scale
    steps = est_steps(m, p, d)
    lam = 1.0 if steps * per_step <= budget else budget / (steps * per_step)
    q = dict(p)
    if lam < 1.0:
        for n in q:
            if kind(n) == 'time': q[n] = coarse(q[n] * lam)
    return q, lam

def vec(m, p):
    return [p[n] for n in m['pn']] if m['pn'] else None

def ns_for(rng, d, m=None):
    ns = tuple(int(rng.integers(2, 7)) for _ in range(d))
    if m is not None and ploidy_even(m): ns = tuple(n + n % 2 for n in ns)     # from_phi_inbreeding: ns divisible by the ploidy
    return ns

def ploidy_even(m):
    if 'inb' not in m:
        try: m['inb'] = 'from_phi_inbreeding' in inspect.getsource(m['f'])
        except Exception: m['inb'] = False
    return m['inb']

# ----------------------------------------------------------------------------------------------- evaluation of closed Exprs
class Stuck(Exception):
    pass

def ev(e, t=None, env=None):
    """float value of a closed expression of the Lean model, with Python's own arithmetic"""
    h = e[0]
    if h == 'lit': return e[1] / e[2]
    if h == 'p':
        if env is not None and e[1] in env: return env[e[1]]
        raise Stuck('free parameter ' + e[1])
    if h == 't':
        if t is None: raise Stuck('time variable outside a size function')
        return t
    if h == 'neg': return -ev(e[1], t, env)
    if h in ('add', 'sub', 'mul', 'div', 'pow'):
        a = ev(e[1], t, env); b = ev(e[2], t, env)
        if h == 'add': return a + b
        if h == 'sub': return a - b
        if h == 'mul': return a * b
        if h == 'div': return a / b
        return a ** b
    if h == 'call':
        a = ev(e[2], t, env)
        if e[1] == 'numpy.exp': return float(np.exp(a))
        if e[1] == 'numpy.log': return float(np.log(a))
        raise Stuck('call ' + e[1])
    raise Stuck('node ' + h)

def show_expr(e):
    """readable form of a Lean Expr (json)"""
    h = e[0]
    if h == 'p': return e[1]
    if h == 't': return 't'
    if h == 'lit': return '%d' % e[1] if e[2] == 1 else '%d/%d' % (e[1], e[2])
    if h == 'sym': return e[1]
    if h == 'neg': return '-(%s)' % show_expr(e[1])
    ops = {'add': '+', 'sub': '-', 'mul': '*', 'div': '/', 'pow': '**'}
    if h in ops: return '(%s%s%s)' % (show_expr(e[1]), ops[h], show_expr(e[2]))
    if h == 'call': return '%s(%s)' % (e[1], show_expr(e[2]))
    if h == 'lam': return 'lambda t: ' + show_expr(e[1])
    if h == 'tup': return '(' + ', '.join(show_expr(x) for x in e[1:]) + ')'
    return repr(e)

def pick_branch(tr):
    while 'if' in tr:
        op, l, r = tr['if']
        a, b = ev(l), ev(r)
        c = {'>=': a >= b, '>': a > b, '<=': a <= b, '<': a < b, '==': a == b, '!=': a != b}[op]
        tr = tr['then'] if c else tr['else']
    return tr

def wire_args(m, v):
    if not m['pn'] or v is None: return '-'
    out = []
    for x in v:
        out.append('#' + rat(x))
    return ','.join(out) if out else '-'

# ----------------------------------------------------------------------------------------------- recording the real calls
class Recorder:
    """wraps the primitives (module attributes, looked up by the model functions at call time) and records the outermost
    calls with every bound argument"""
    def __init__(self, dadi, prim_names, stub=False):
        self.dadi = dadi; self.calls = []; self.depth = 0; self.saved = []; self.grids = []
        self.stub = stub              # integrators are not executed: they return their density argument
        self.targets = []
        for q in prim_names:
            modn, fn = q.split('.')
            if modn == 'Spectrum':
                owner = dadi.Spectrum_mod.Spectrum
            else:
                owner = getattr(dadi, modn)
            if hasattr(owner, fn):
                self.targets.append((q, owner, fn))
    def __enter__(self):
        for q, owner, fn in self.targets:
            raw = owner.__dict__[fn] if fn in getattr(owner, '__dict__', {}) else getattr(owner, fn)
            orig = getattr(owner, fn)
            self.saved.append((owner, fn, raw))
            wrapped = self._wrap(q, orig)
            setattr(owner, fn, staticmethod(wrapped) if isinstance(raw, staticmethod) else wrapped)
        g = self.dadi.Numerics.default_grid
        self.saved.append((self.dadi.Numerics, 'default_grid', g))
        def grid(*a, **k):
            xx = g(*a, **k)
            if self.depth == 0: self.grids.append((a, k, xx))
            return xx
        self.dadi.Numerics.default_grid = grid
        return self
    def __exit__(self, *exc):
        for owner, fn, raw in reversed(self.saved):
            setattr(owner, fn, raw)
        self.saved = []
    def _wrap(self, q, orig):
        sig = inspect.signature(orig)
        rec = self
        def w(*a, **k):
            top = rec.depth == 0
            entry = None
            if top:
                try:
                    b = sig.bind(*a, **k); b.apply_defaults()
                    args = dict(b.arguments)
                except TypeError as e:
                    args = {'__bind_error__': repr(e)}
                entry = dict(fn=q, args=args, sampled={})
                T = args.get('T')
                for kk, vv in args.items():
                    if callable(vv):
                        ts = []
                        if isinstance(T, (int, float)) and T > 0:
                            ts = [0.0, 0.37 * T, float(T)]
                        vals = []
                        for t in ts:
                            try: vals.append(float(vv(t)))
                            except Exception as e: vals.append(repr(e))
                        entry['sampled'][kk] = (ts, vals)
                rec.calls.append(entry)
            rec.depth += 1
            try:
                if rec.stub and top and q.startswith('Integration.') and isinstance(entry['args'].get('phi'), np.ndarray):
                    out = entry['args']['phi']
                else:
                    out = orig(*a, **k)
            finally:
                rec.depth -= 1
            if top: entry['out'] = out
            return out
        return w

def compare_trace(run, rec, ns, pts):
    """None if the recorded calls of the real model function are the run of the Lean executor; else a description"""
    calls = [run['start']] + run['steps'] + [run['fin']]
    if len(calls) != len(rec.calls):
        return 'model: %d calls %r; implementation: %d calls %r' % (len(calls), [c['fn'] for c in calls], len(rec.calls), [c['fn'] for c in rec.calls])
    prev = None
    for i, (c, r) in enumerate(zip(calls, rec.calls)):
        if c['fn'] != r['fn']:
            return 'call %d: model %s, implementation %s' % (i, c['fn'], r['fn'])
        if '__bind_error__' in r['args']:
            return 'call %d (%s): %s' % (i, c['fn'], r['args']['__bind_error__'])
        mk = [k for k, _ in c['args']]; rk = list(r['args'].keys())
        if mk != rk:
            return 'call %d (%s): parameters %r vs %r' % (i, c['fn'], mk, rk)
        Tval = r['args'].get('T')
        for k, e in c['args']:
            v = r['args'][k]
            why = cmp_arg(e, v, r, k, prev, rec, ns, pts)
            if why: return 'call %d (%s) argument %s: %s' % (i, c['fn'], k, why)
        prev = r.get('out')
    return None

def num_close(a, b):
    if isinstance(b, bool) or isinstance(a, bool): return False
    try:
        a = float(a); b = float(b)
    except Exception:
        return False
    if a == b: return True
    return abs(a - b) <= 1e-9 * max(abs(a), abs(b))

def cmp_arg(e, v, r, k, prev, rec, ns, pts):
    h = e[0]
    if h == 'sym':
        s = e[1]
        if s == 'None': return None if v is None else 'model None, implementation %r' % (v,)
        if s == 'True': return None if v is True else 'model True, implementation %r' % (v,)
        if s == 'False': return None if v is False else 'model False, implementation %r' % (v,)
        if s == 'phi': return None if (prev is not None and v is prev) else 'the density passed is not the result of the previous call'
        if s == 'ns': return None if tuple(v) == tuple(ns) else 'model: the requested ns, implementation %r' % (v,)
        if s == 'pts': return None if v == pts else 'model: pts, implementation %r' % (v,)
        return 'unknown symbol ' + s
    if h == 'call' and e[1] == 'Numerics.default_grid':
        ok = isinstance(v, np.ndarray) and any(v is g[2] for g in rec.grids) and all(g[0] == (pts,) and not g[1] for g in rec.grids)
        return None if ok else 'model: Numerics.default_grid(pts), implementation %s' % (type(v).__name__,)
    if h == 'tup':
        if not isinstance(v, (tuple, list)) or len(v) != len(e) - 1:
            return 'model: tuple of %d, implementation %r' % (len(e) - 1, type(v).__name__)
        for ee, vv in zip(e[1:], v):
            w = cmp_arg(ee, vv, r, k, prev, rec, ns, pts)
            if w: return w
        return None
    if h == 'lam':
        if not callable(v): return 'model: a function of time, implementation %r' % (v,)
        ts, vals = r['sampled'].get(k, ([], []))
        for t, val in zip(ts, vals):
            try:
                mv = ev(e[1], t)
            except (Stuck, ZeroDivisionError, OverflowError, ValueError) as ex:
                mv = repr(ex)
            if not num_close(mv, val):
                return 'size function at t=%r: model %r, implementation %r' % (t, mv, val)
        return None
    if callable(v): return 'model: a number, implementation: a function'
    try:
        mv = ev(e)
    except (Stuck, ZeroDivisionError, OverflowError, ValueError) as ex:
        return 'model expression not evaluable: %r' % (ex,)
    return None if num_close(mv, v) else 'model %r, implementation %r' % (mv, v)

# ----------------------------------------------------------------------------------------------- the checks
def ask_json(driver, line):
    r = driver.ask(line)
    if not r.startswith('ok '): raise common.Infra('driver: %s -> %s' % (line, r[:200]))
    return json.loads(r[3:])

def k_tables(chk, ctx, models):
    """generated table / signatures vs run-time introspection"""
    driver = ctx['driver']; dadi = ctx['dadi']
    tbl = ask_json(driver, 'c15.table'); ms = ask_json(driver, 'c15.ms'); sigs = ask_json(driver, 'c15.sigs')
    impl = {m['name']: (m['pn'], m['argn']) for m in models}
    model = {n: (pn, an) for n, pn, an in tbl}
    model.update({n: (pn, an) for n, pn, an, un, ok in ms})
    if impl == model: chk.k_ok('c15.table')
    else:
        diff = sorted(set(impl) ^ set(model)) or [n for n in impl if impl[n] != model.get(n)]
        chk.k_bad('c15.table', dict(differ=diff[:10]), {n: impl.get(n) for n in diff[:5]}, {n: model.get(n) for n in diff[:5]}, 'table')
    for n, pn, an, un, ok in ms:
        if not ok: chk.broken.append('model: ms-command builder %s does not unpack its named parameters' % n)
    # primitive signatures
    bad = []
    for fn, knd, din, dout, zero, params in sigs:
        modn, name = fn.split('.')
        owner = dadi.Spectrum_mod.Spectrum if modn == 'Spectrum' else getattr(dadi, modn)
        if not hasattr(owner, name): bad.append((fn, 'missing')); continue
        sg = inspect.signature(getattr(owner, name))
        got = [(pname, prm.default is not inspect.Parameter.empty, prm.default) for pname, prm in sg.parameters.items()]
        if [g[0] for g in got] != [p[0] for p in params]: bad.append((fn, 'names')); continue
        for (pname, has, dflt), (_, e) in zip(got, params):
            if e is None:
                if has: bad.append((fn, pname))
            elif not has:
                bad.append((fn, pname))
            elif e[0] == 'sym':
                want = {'None': None, 'True': True, 'False': False}.get(e[1], '?')
                if not (dflt is want): bad.append((fn, pname))
            else:
                try:
                    if isinstance(dflt, bool) or not num_close(ev(e), dflt): bad.append((fn, pname))
                except Exception:
                    bad.append((fn, pname))
    if bad: chk.k_bad('c15.sigs', dict(), 'inspect.signature', bad[:8], 'signatures')
    else: chk.k_ok('c15.sigs')
    ctx['_sigs'] = sigs
    ctx['_prims'] = [s[0] for s in sigs]
    ctx['_integrators'] = [s[0] for s in sigs if s[4] == 1]
    ctx['_wf'] = {}; ctx['_branches'] = {}; ctx['_wiring'] = {}; ctx['_units'] = {}
    for n, pn, an in tbl:
        r = driver.ask('c15.wf ' + n)
        ctx['_wf'][n] = (r == 'ok 1')
        r = driver.ask('c15.wiring ' + n).split()
        if r and r[0] == 'ok':
            ctx['_wiring'][n] = (r[1] == '1'); ctx['_branches'][n] = int(r[2])
        r = driver.ask('c15.units ' + n)
        if r.startswith('ok '):
            ctx['_units'][n] = json.loads(r[3:])
    # expected unit of every keyword of every primitive: Lean's kwExpected vs the harness's own reading of the keyword names
    bad = []
    for fn, kws in ask_json(driver, 'c15.kwunits'):
        for k, u in kws:
            want = {'size': 'Size', 'time': 'Time', 'mig': 'Rate', 'sel': 'Sel', 'theta': 'Theta', 'one': 'dimensionless',
                    'tuple': 'tuple of dimensionless numbers', None: 'not a number (density, grid, flag, id)'}[kw_family(k)]
            if u != want: bad.append((fn, k, u, want))
    if bad: chk.k_bad('c15.kwunits', dict(), [b[3] for b in bad[:8]], [b[:3] for b in bad[:8]], 'expected units of the keywords')
    else: chk.k_ok('c15.kwunits')
    return tbl

def kw_family(k):
    """the family of quantity a primitive keyword expects, from its name (the harness's own table, independent of the Lean one)"""
    if k in ('T', 'initial_t'): return 'time'
    if k == 'theta0': return 'theta'
    if re.match(r'^nu[0-9]*$', k): return 'size'
    if re.match(r'^gamma[0-9]*$', k): return 'sel'
    if re.match(r'^m[0-9][0-9]$', k): return 'mig'
    if re.match(r'^(h[0-9]*|beta|f[0-9]*)$', k): return 'one'
    if k in ('Fs', 'ploidys'): return 'tuple'
    return None

def spectrum_checks(dadi, fs, ns, pts, judge_sign=True):
    """the clauses of the property about one returned spectrum; list of (key, description)"""
    out = []
    if not isinstance(fs, dadi.Spectrum): return [('type', 'returns %s, not a Spectrum' % type(fs).__name__)]
    if tuple(fs.shape) != tuple(n + 1 for n in ns):
        out.append(('shape', 'shape %r for requested sample sizes %r' % (tuple(fs.shape), tuple(ns))))
        return out
    data = np.asarray(fs.data, dtype=float); mask = np.ma.getmaskarray(fs)
    vals = data[~mask]
    if not np.all(np.isfinite(vals)): out.append(('nonfinite', '%d non-finite entries' % int(np.sum(~np.isfinite(vals)))))
    elif judge_sign and vals.size and vals.min() < -NEG_TOL * float(np.abs(vals).max()):
        out.append(('negative', 'entry %r < 0 (largest entry %r)' % (float(vals.min()), float(vals.max()))))
    xx1 = float(dadi.Numerics.default_grid(pts)[1])
    ex = getattr(fs, 'extrap_x', None)
    if ex is None or not num_close(ex, xx1): out.append(('extrap_x', 'extrap_x = %r, grid spacing at 0 is %r' % (ex, xx1)))
    return out

def case_input(kind_, m, p, ns, pts, **extra):
    d = dict(kind=kind_, model=m['name'], params=p, ns=list(ns) if ns is not None else None, pts=pts)
    d.update(extra); return d

def run_model(chk, ctx, m, p, ns, record=True):
    """L3 + K for one model at one parameter vector: three grids; the calls of the pts = PTS[0] run are recorded"""
    dadi = ctx['dadi']; driver = ctx['driver']
    v = vec(m, p); name = m['name']
    ok = True
    for pts in PTS:
        rec = Recorder(dadi, ctx['_prims'] or DEFAULT_PRIMS) if (record and pts == PTS[0]) else None
        t0 = time.time()
        try:
            with np.errstate(all='ignore'):
                if rec is not None:
                    with rec: fs = m['f'](v, ns, pts)
                else:
                    fs = m['f'](v, ns, pts)
        except Exception as e:
            chk.fail('%s:run:%s' % (name, type(e).__name__), '%s(%r, %r, %d) raises %r' % (name, v, ns, pts, e),
                     case_input('run', m, p, ns, pts))
            return False
        ctx['_t_models'] = ctx.get('_t_models', 0.0) + time.time() - t0
        chk.l3((name, pts))
        judge = resolved(p)
        if pts == PTS[0]: chk.stat('sign_judged' if judge else 'sign_not_judged(unresolved regime)')
        for key, what in spectrum_checks(dadi, fs, ns, pts, judge):
            chk.fail('%s:%s' % (name, key), '%s(%r, %r, %d): %s' % (name, v, ns, pts, what), case_input('run', m, p, ns, pts))
            ok = False
        if rec is not None:
            # which branch of the model body ran (read off the calls the real function made) and the wiring of its arguments
            bid = '>'.join(c['fn'].split('.')[1] for c in rec.calls)
            m.setdefault('branches_hit', {}); m['branches_hit'][bid] = m['branches_hit'].get(bid, 0) + 1
            wiring_values(chk, m, p, rec, ns, pts)
        if rec is not None and driver is not None and driver.ok():
            r = driver.ask('c15.trace %s %s' % (name, wire_args(m, v)))
            if not r.startswith('ok '):
                chk.k_bad('c15.trace', case_input('run', m, p, ns, pts), 'runs (%d calls)' % len(rec.calls), r, 'model refuses')
            else:
                try:
                    why = compare_trace(pick_branch(json.loads(r[3:])), rec, ns, pts)
                except Stuck as ex:
                    why = 'model trace not closed: %s' % ex
                if why: chk.k_bad('c15.trace', case_input('run', m, p, ns, pts), [c['fn'] for c in rec.calls], r[:300], why)
                else: chk.k_ok('c15.trace')
    return ok

DEFAULT_PRIMS = ['PhiManip.phi_1D', 'PhiManip.phi_1D_to_2D', 'PhiManip.phi_2D_to_3D_split_1', 'PhiManip.phi_2D_to_3D_split_2',
                 'PhiManip.phi_2D_to_3D_admix', 'PhiManip.phi_2D_admix_1_into_2', 'PhiManip.phi_2D_admix_2_into_1',
                 'Integration.one_pop', 'Integration.two_pops', 'Integration.three_pops', 'Integration.four_pops',
                 'Integration.five_pops', 'Spectrum.from_phi', 'Spectrum.from_phi_inbreeding']

def family_index(name):
    mm = re.match(r'^([^0-9]*)([0-9]*)', name)
    return mm.group(1), mm.group(2)

def wiring_values(chk, m, p, rec, ns, pts):
    """L3, argument wiring on the real calls: the parameter values of a draw are distinct, so a keyword with a population index
    (`gamma2`, `nu1`, `m21`) that receives *exactly* the value of a model parameter of the same family with another index
    (`gamma1`) — while the parameter with its own index exists and has a different value — was wired to the wrong parameter"""
    fams = {}
    for n, v in p.items():
        f, i = family_index(n)
        if i: fams.setdefault((f, len(i)), []).append((i, n, v))
    for c in rec.calls:
        if not c['fn'].startswith('Integration.'): continue
        for k, v in c['args'].items():
            if callable(v) or isinstance(v, bool) or not isinstance(v, (int, float)) or v == 0: continue
            f, i = family_index(k)
            if not i or (f, len(i)) not in fams: continue
            cands = fams[(f, len(i))]
            right = [x for x in cands if x[0] == i]
            if not right or any(x[2] == v for x in right): continue
            wrong = [x for x in cands if x[0] != i and x[2] == v]
            owners = [n for n, pv in p.items() if pv == v]            # edge values (1, the bounds) may be shared by several parameters
            chk.l3((m['name'], 'wiring', c['fn'], k))
            if wrong and set(owners) == set(x[1] for x in wrong):
                chk.fail('%s:wiring:%s:%s' % (m['name'], c['fn'], k),
                         '%s%r: %s is called with %s=%r, the value of parameter %s (parameter %s is %r)'
                         % (m['name'], vec(m, p), c['fn'], k, v, wrong[0][1], right[0][1], right[0][2]), case_input('run', m, p, ns, pts))

def first_bindings(f, k):
    """names bound by the first tuple unpacking in the byte code of `f` (or the first k stores when there is none)"""
    import dis
    ins = list(dis.get_instructions(f))
    start = next((i + 1 for i, x in enumerate(ins) if x.opname == 'UNPACK_SEQUENCE'), 0)
    names = []
    for x in ins[start:]:
        if x.opname.startswith('STORE_'):
            names += list(x.argval) if isinstance(x.argval, tuple) else [x.argval]
        elif start and names: break
        if len(names) >= k: break
    return names[:k]

def arity_checks(chk, ctx, m, rng):
    """vectors of a wrong length must be refused (models with named parameters)"""
    dadi = ctx['dadi']; driver = ctx['driver']; name = m['name']
    k = len(m['pn'])
    # the names: the first local variables the function binds (tuple unpacking of the vector) are the named parameters, in order
    locs = first_bindings(m['f'], k)
    chk.l3((name, 'names'))
    if locs != m['pn']:
        chk.fail('%s:names' % name, '%s.__param_names__ = %r but the function unpacks its vector into %r' % (name, m['pn'], locs),
                 case_input('arity', m, None, None, 6))
    if k == 0:
        chk.stat('arity:unnamed(argument documented unused)'); return
    d = model_dim(m) if len(m['argn']) == 3 else None
    for kk in sorted({k - 1, k + 1, k + 2, 0} - {k}):
        if kk < 0: continue
        v = [0.5] * kk
        chk.l3((name, 'arity', kk - k))
        try:
            with np.errstate(all='ignore'):
                if len(m['argn']) == 1: m['f'](v)
                else: m['f'](v, (2,) * (d or 1), 6)
            refused = False; exc = None
        except (ValueError, IndexError, TypeError) as e:
            refused = True; exc = e
        except Exception as e:
            refused = True; exc = e
        if not refused:
            chk.fail('%s:arity:accepted' % name,
                     '%s names %d parameter(s) %r but accepts a vector of length %d without complaint' % (name, k, m['pn'], kk),
                     case_input('arity', m, None, (2,) * (d or 1), 6, length=kk))
        if driver is not None and driver.ok() and len(m['argn']) == 3:
            r = driver.ask('c15.trace %s %s' % (name, ','.join('#1/2' for _ in range(kk)) or '-'))
            model_refuses = r.startswith('err')
            if model_refuses == refused: chk.k_ok('c15.arity')
            else: chk.k_bad('c15.arity', dict(model=name, length=kk), 'refused' if refused else 'accepted', r[:80], 'arity')

def zero_duration_checks(chk, ctx, rng, reps):
    """the law behind the nesting theorems, on the real integrators: T = 0 returns the density unchanged, whatever the
    other arguments are"""
    dadi = ctx['dadi']
    names = {1: 'one_pop', 2: 'two_pops', 3: 'three_pops', 4: 'four_pops', 5: 'five_pops'}
    for d, fn in names.items():
        f = getattr(dadi.Integration, fn, None)
        if f is None: continue
        for _ in range(reps):
            pts = int(rng.integers(5, 9))
            xx = dadi.Numerics.default_grid(pts)
            phi = rng.uniform(0.1, 2.0, (pts,) * d)
            kw = {}
            if d == 1:
                kw = dict(nu=coarse(rng.uniform(0.1, 3)), gamma=coarse(rng.uniform(-3, 3)))
                if rng.random() < 0.5: kw['nu'] = (lambda c: (lambda t: c))(kw['nu'])
            else:
                for i in range(1, d + 1):
                    kw['nu%d' % i] = coarse(rng.uniform(0.1, 3)); kw['gamma%d' % i] = coarse(rng.uniform(-3, 3))
                    for j in range(1, d + 1):
                        if i != j: kw['m%d%d' % (i, j)] = coarse(rng.uniform(0, 3))
                if rng.random() < 0.5: kw['nu1'] = (lambda c: (lambda t: c * math.exp(t)))(kw['nu1'])
            chk.l3(('zero_duration', fn))
            before = phi.copy()
            try:
                out = f(phi, xx, 0, **kw)
            except Exception as e:
                chk.fail('Integration.%s:zero_duration:%s' % (fn, type(e).__name__), 'Integration.%s(phi, xx, 0, ...) raises %r' % (fn, e),
                         dict(kind='zero_duration', fn=fn, pts=pts, d=d)); continue
            if not (isinstance(out, np.ndarray) and out.shape == before.shape and np.array_equal(out, before)):
                chk.fail('Integration.%s:zero_duration' % fn, 'Integration.%s(phi, xx, 0, ...) does not return phi unchanged' % fn,
                         dict(kind='zero_duration', fn=fn, pts=pts, d=d))

def pair_args(args, pb):
    """argument expressions of a nesting pair -> values, given the parameter values `pb` of the simpler model"""
    return [coarse(ev(e, None, pb)) if e[0] != 'p' else pb[e[1]] for e in args]

def free_params(exprs):
    out = []
    def walk(e):
        if isinstance(e, list):
            if e and e[0] == 'p' and e[1] not in out: out.append(e[1])
            for x in e[1:]: walk(x)
    for e in exprs: walk(e)
    return out

def conds_hold(conds, env):
    for op, l, r, want in conds:
        a, b = ev(l, None, env), ev(r, None, env)
        got = {'>=': a >= b, '>': a > b, '<=': a <= b, '<': a < b, '==': a == b, '!=': a != b}[op]
        if got != bool(int(want)): return False
    return True

def compare_pair(chk, ctx, ma, mb, a, b, va, vb, ns, pts, group, inp):
    chk.l3(('nest', a, b))
    try:
        with np.errstate(all='ignore'):
            fa = ma['f'](va, ns, pts); fb = mb['f'](vb, ns, pts)
    except Exception as e:
        chk.fail('%s->%s:nesting:%s' % (a, b, type(e).__name__), 'nesting pair %s%r vs %s%r raises %r' % (a, va, b, vb, e), inp)
        return
    da = np.asarray(fa.data, dtype=float); db = np.asarray(fb.data, dtype=float); mk = ~np.ma.getmaskarray(fb)
    if da.shape != db.shape:
        chk.fail('%s->%s:nesting:shape' % (a, b), 'shapes %r vs %r' % (da.shape, db.shape), inp); return
    scale = float(np.max(np.abs(db[mk]))) if mk.any() else 0.0
    err = float(np.max(np.abs(da[mk] - db[mk]))) if mk.any() else 0.0
    if not (err <= 1e-8 * max(scale, 1e-300)):
        chk.fail('%s->%s:nesting' % (a, b),
                 '%s%r and %s%r differ by %.3e (scale %.3e) at the nesting point (%s)' % (a, va, b, vb, err, scale, group), inp)

def env_boundaries(ma, mb, args, args_b, names):
    """pairs of free parameters of a nesting pair to be made equal: first those that put model `a` or `b` on one of its branch
    boundaries (found by boundary_scan), then the other pairs of one family"""
    first = []
    for mm, aa in ((ma, args), (mb, args_b)):
        pos = {n: (e[1] if e[0] == 'p' else None) for n, e in zip(mm['pn'], aa)}
        for (u, v) in mm.get('bflag', {}):
            if u is None: continue
            x, y = pos.get(u), pos.get(v)
            if x and y and x != y and (x, y) not in first and (y, x) not in first: first.append((x, y))
    rest = [(x, y) for i, x in enumerate(names) for y in names[i + 1:]
            if kind(x) == kind(y) and kind(x) != 'other' and (x, y) not in first and (y, x) not in first]
    return first, rest

def nesting_check(chk, ctx, byname, group, a, b, args, rng, reps=1, args_b=None, conds=(), boundary=0):
    """model `a` at the argument expressions `args` vs model `b` at `args_b` (default: b's own parameters), the free parameters
    drawn in the documented bounds (distinct, non-zero: two selection coefficients are different) such that `conds` hold;
    `boundary` further draws (plus one per branch boundary of either model) with two free parameters of one family made equal"""
    ma, mb = byname.get(a), byname.get(b)
    if ma is None or mb is None:
        chk.broken.append('model: nesting pair %s -> %s names a model that does not exist' % (a, b)); return
    d = model_dim(mb)
    if d is None or model_dim(ma) is None:
        chk.stat('nesting:skipped(model does not run)'); return           # reported by the per-model run
    if args_b is None: args_b = [['p', n] for n in mb['pn']]
    names = free_params(list(args) + list(args_b))
    first, rest = env_boundaries(ma, mb, args, args_b, names) if boundary else ([], [])
    equalise = [None] * reps + first + [rest[int(i)] for i in list(rng.permutation(len(rest)))[:boundary]]
    for eq in equalise:
        env = None
        for _try in range(20):
            cand = draw(rng, names, edge=False)
            if eq is not None: cand[eq[1]] = cand[eq[0]]
            try:
                if conds_hold(conds, cand): env = cand; break
            except Stuck as e:
                chk.broken.append('model: nesting pair %s -> %s: %s' % (a, b, e)); return
        if env is None:
            if eq is not None: chk.stat('nesting:boundary_outside_branch'); continue
            chk.broken.append('model: nesting pair %s -> %s: the branch conditions were not met in 20 draws' % (a, b)); return
        try:
            pb = dict(zip(mb['pn'], pair_args(args_b, env)))
            pb2, lam = fit_budget(mb, pb, d, ctx['tier'], scale=0.35)
            if lam < 1:
                for n in env:
                    if kind(n) == 'time': env[n] = coarse(env[n] * lam)
                if eq is not None: env[eq[1]] = env[eq[0]]
                if not conds_hold(conds, env): continue
            va = pair_args(args, env); vb = pair_args(args_b, env)
        except Stuck as e:
            chk.broken.append('model: nesting pair %s -> %s: %s' % (a, b, e)); return
        ns = ns_for(rng, d, mb); pts = int(PTS[int(rng.integers(2))])
        inp = dict(kind='nesting', group=group, a=a, b=b, args=args, args_b=args_b, env=env, ns=list(ns), pts=pts)
        if eq is not None: inp['equal'] = list(eq)
        compare_pair(chk, ctx, ma, mb, a, b, va, vb, ns, pts, group, inp)
        chk.stat('nesting:' + group + (':on_boundary' if eq is not None else ''))

def swap_err(dadi, m, v, vs, ns, pts, tf):
    I = dadi.Integration; old = I.timescale_factor
    try:
        I.timescale_factor = tf
        with np.errstate(all='ignore'):
            a = m['f'](v, ns, pts); b = m['f'](vs, tuple(reversed(ns)), pts)
    finally:
        I.timescale_factor = old
    da = np.asarray(a.data, dtype=float); db = np.asarray(b.data, dtype=float).T; mk = ~np.ma.getmaskarray(a)
    return float(np.max(np.abs(da - db)[mk]) / np.max(np.abs(da[mk])))

def swap_regime(rng, m):
    """moderate sizes, migration-dominated time step, total duration 0.5..1 (the regime in which the order of the x and y
    sweeps is the dominant asymmetry and the error is in its asymptotic first-order range)"""
    nT = max(1, sum(1 for n in m['pn'] if kind(n) == 'time'))
    p = {}
    for n in m['pn']:
        k = kind(n)
        if k == 'size': p[n] = coarse(math.exp(rng.uniform(math.log(0.5), math.log(2.0))))
        elif k == 'time': p[n] = coarse(rng.uniform(0.5, 1.0) / nT)
        elif k == 'mig': p[n] = coarse(rng.uniform(1.5, 3.0))
        elif k == 'sel': p[n] = coarse(rng.uniform(-2.0, 1.0))
        else: p[n] = coarse(rng.uniform(0.2, 0.8))
    if 'Ts' in p and 'T' in p: p['T'] = coarse(2 * p['Ts'])
    return p

def last_epoch_migration(ctx, m, v):
    """does the last two-population integration of the run have migration in both directions (read off the real calls)"""
    rec = Recorder(ctx['dadi'], ctx['_prims'])
    with rec, np.errstate(all='ignore'):
        m['f'](v, (2, 2), 6)
    ints = [c for c in rec.calls if c['fn'] == 'Integration.two_pops' and (c['args'].get('T') or 0) != 0]
    if not ints: return False
    a = ints[-1]['args']
    def pos(x):
        try: return (x(0.0) if callable(x) else x) > 0
        except Exception: return False
    return pos(a.get('m12', 0)) and pos(a.get('m21', 0))

def swap_check(chk, ctx, byname, name, args, rng, draws=3):
    if ctx['tier'] == 'thorough': draws = 5
    dadi = ctx['dadi']; m = byname.get(name)
    if m is None:
        chk.broken.append('model: symmetric model %s does not exist' % name); return
    if model_dim(m) != 2:
        chk.stat('swap:skipped(model does not run as a two-population model)'); return
    ratios = []; inputs = []
    cls = None
    for _ in range(draws):
        p = swap_regime(rng, m)
        v = vec(m, p); vs = pair_args(args, p) if m['pn'] else None
        ns = (int(rng.integers(3, 6)), int(rng.integers(2, 5)))
        if ns[0] == ns[1]: ns = (ns[0] + 1, ns[1])
        inp = dict(kind='swap', model=name, args=args, params=p, ns=list(ns), pts=16)
        try:
            if cls is None: cls = 'M' if last_epoch_migration(ctx, m, v) else 'other'
            e1 = swap_err(dadi, m, v, vs, ns, 16, TF_DEFAULT)
            e2 = swap_err(dadi, m, v, vs, ns, 16, TF_DEFAULT / 10)
        except Exception as e:
            chk.fail('%s:swap:%s' % (name, type(e).__name__), 'label swap of %s raises %r' % (name, e), inp); return
        chk.l3(('swap', name, cls))
        inputs.append((inp, e1, e2))
        if e1 > 2e-2:
            chk.fail('%s:swap:large' % name, '%s%r vs transposed %s%r (ns reversed): relative difference %.3e at the default time step — '
                     'not an operator-splitting error' % (name, v, name, vs, e1), inp); return
        if e1 < 1e-10 and e2 < 1e-10:
            chk.stat('swap:exact'); ratios.append(None); continue
        if not e2 < e1:
            chk.fail('%s:swap:not_decreasing' % name, 'label-swap difference of %s does not shrink with the time step: %.3e at timescale_factor=1e-3, '
                     '%.3e at 1e-4' % (name, e1, e2), inp); return
        ratios.append(e1 / e2)
        if cls != 'M': break
    rs = sorted(r for r in ratios if r is not None)
    if cls == 'M' and rs:
        med = rs[len(rs) // 2]
        chk.stat('swap:ratio_median_%d' % int(round(med)))
        if not (5.0 <= med <= 20.0):
            inp, e1, e2 = inputs[len(inputs) // 2]
            chk.fail('%s:swap:ratio' % name, 'label-swap difference of %s: median ratio per decade of timescale_factor %.2f (draws %r) is outside [5, 20]'
                     % (name, med, [round(r, 2) for r in rs]), inp)
    elif rs:
        chk.stat('swap:decreasing(no migration in the last epoch)')

# ----------------------------------------------------------------------------------------------- label permutation, three populations
def perm_regime(rng, m):
    """moderate sizes and rates, short epochs (three-population integrations at pts = 12 stay well below a second)"""
    nT = max(1, sum(1 for n in m['pn'] if kind(n) == 'time'))
    p = {}
    for n in m['pn']:
        k = kind(n)
        if k == 'size': p[n] = coarse(math.exp(rng.uniform(math.log(0.5), math.log(2.0))))
        elif k == 'time': p[n] = coarse(rng.uniform(0.15, 0.3) / nT)
        elif k == 'mig': p[n] = coarse(rng.uniform(0.8, 2.5))
        elif k == 'sel': p[n] = coarse(rng.uniform(-1.0, 1.0))
        else: p[n] = coarse(rng.uniform(0.2, 0.8))
    return p

def perm_err(dadi, m, v, vs, ns, perm, pts, tf):
    """relative difference between the model at the permuted parameters (sample sizes permuted) and the relabelled spectrum of the
    model at its own parameters: new population i = old population perm[i]"""
    I = dadi.Integration; old = I.timescale_factor
    ns_new = tuple(ns[perm[i]] for i in range(len(perm)))
    try:
        I.timescale_factor = tf
        with np.errstate(all='ignore'):
            a = m['f'](v, ns, pts); b = m['f'](vs, ns_new, pts)
    finally:
        I.timescale_factor = old
    da = np.transpose(np.asarray(a.data, dtype=float), perm); mk = ~np.transpose(np.ma.getmaskarray(a), perm)
    db = np.asarray(b.data, dtype=float)
    if da.shape != db.shape: return float('inf')
    return float(np.max(np.abs(da - db)[mk]) / np.max(np.abs(da[mk])))

def perm_check(chk, ctx, byname, name, perm, args, rng, draws=1):
    """L3 for one three-population entry of Pairs.permSymmetric"""
    dadi = ctx['dadi']; m = byname.get(name)
    if m is None:
        chk.broken.append('model: symmetric model %s does not exist' % name); return
    d = len(perm)
    if model_dim(m) != d:
        chk.stat('perm:skipped(model does not run with %d populations)' % d); return
    for _ in range(draws):
        p = perm_regime(rng, m)
        v = vec(m, p); vs = pair_args(args, p) if m['pn'] else None
        ns = tuple(int(x) for x in rng.permutation([3, 4, 5, 6])[:d])            # distinct: a transposed axis shows
        inp = dict(kind='perm', model=name, perm=list(perm), args=args, params=p, ns=list(ns), pts=12)
        try:
            e1 = perm_err(dadi, m, v, vs, ns, perm, 12, TF_DEFAULT)
            e2 = perm_err(dadi, m, v, vs, ns, perm, 12, TF_DEFAULT / 10)
        except Exception as e:
            chk.fail('%s:perm:%s' % (name, type(e).__name__), 'label permutation %r of %s raises %r' % (perm, name, e), inp); return
        chk.l3(('perm', name, tuple(perm)))
        if not e1 <= 2e-2:
            chk.fail('%s:perm:large' % name, '%s%r (ns %r) vs %s%r relabelled by %r (new population i = old population perm[i]; ns permuted): relative '
                     'difference %.3e at the default time step — not an operator-splitting error' % (name, v, list(ns), name, vs, list(perm), e1), inp); return
        if e1 < 1e-10 and e2 < 1e-10:
            chk.stat('perm:exact'); continue
        if not e2 < e1:
            # a difference below PERM_FLOOR at both steps is far inside the splitting-error scale (1e-4 .. 1e-2 at the default step); two
            # steps cannot show convergence there (error terms of opposite sign: 4.7e-6 -> 1.1e-5 seen on sim_split_no_mig_size) -- not judged
            if e2 <= PERM_FLOOR:
                chk.stat('perm:below_floor_not_judged'); continue
            chk.fail('%s:perm:not_decreasing' % name, 'label-permutation difference of %s under %r does not shrink with the time step: %.3e at '
                     'timescale_factor=1e-3, %.3e at 1e-4' % (name, list(perm), e1, e2), inp); return
        chk.stat('perm:ratio_%d' % int(round(min(e1 / e2, 99))))

# ----------------------------------------------------------------------------------------------- value-dependent branches
BOUNDARY_EPS = 1e-9          # relative (absolute at 0) step off a boundary
BOUNDARY_ARG_TOL = 1e-6      # arguments of the primitives across a boundary: |difference| <= tol * max(1, |value|)
BOUNDARY_FS_TOL = 1e-5       # spectrum across a boundary, relative to its largest entry (splitting error: 1e-4 .. 1e-2)

def boundaries_of(m):
    """the places where a comparison between parameters can flip: (a, b) = two parameters of one family made equal (b := a),
    (None, b) = a time, rate or selection parameter at 0"""
    pn = m['pn']; out = []
    for i, a in enumerate(pn):
        for b in pn[i + 1:]:
            if kind(a) == kind(b) and kind(a) != 'other': out.append((a, b))
    for b in pn:
        if kind(b) in ('time', 'mig', 'sel'): out.append((None, b))
    return out

def bkey(a, b):
    return '%s==%s' % (a if a is not None else '0', b)

def boundary_regime(rng, m, d):
    """a generic point: moderate, distinct, non-zero values; short epochs for three populations"""
    nT = max(1, sum(1 for n in m['pn'] if kind(n) == 'time'))
    tot = (0.15, 0.3) if d >= 3 else (0.3, 0.8)
    p = {}
    for n in m['pn']:
        k = kind(n)
        if k == 'size': p[n] = coarse(math.exp(rng.uniform(math.log(0.5), math.log(2.0))))
        elif k == 'time': p[n] = coarse(rng.uniform(*tot) / nT)
        elif k == 'mig': p[n] = coarse(rng.uniform(0.5, 2.5))
        elif k == 'sel': p[n] = coarse(rng.uniform(0.3, 1.0) * (1 if rng.random() < 0.5 else -1))
        else: p[n] = coarse(rng.uniform(0.2, 0.8))
    return p

def on_boundary(p, a, b):
    q = dict(p); q[b] = p[a] if a is not None else 0.0
    return q

def off_boundary(p, a, b, sign):
    q = dict(p)
    q[b] = p[a] * (1.0 + sign * BOUNDARY_EPS) if a is not None else sign * BOUNDARY_EPS
    return q

def off_signs(a, b):
    """both sides of an equality; a time or a rate at 0 has one side inside the documented bounds"""
    return (1, -1) if (a is not None or kind(b) == 'sel') else (1,)

def call_shape(calls):
    def tp(v):
        if callable(v): return 'function'
        if isinstance(v, bool) or v is None: return repr(v)
        if isinstance(v, (int, float)): return 'number'
        return type(v).__name__
    return [(c['fn'], tuple((k, tp(v)) for k, v in c['args'].items())) for c in calls]

def args_jump(c0, c1):
    """keywords of one call whose values differ across the boundary: [(keyword, description at the boundary, description off it)]"""
    out = []
    for k, v in c0['args'].items():
        w = c1['args'].get(k)
        if isinstance(v, bool) or isinstance(w, bool): continue
        fv, fw = callable(v), callable(w)
        sv = c0['sampled'].get(k, ([], []))[1]; sw = c1['sampled'].get(k, ([], []))[1]
        def close(x, y):
            try: x = float(x); y = float(y)
            except Exception: return False
            return abs(x - y) <= BOUNDARY_ARG_TOL * max(1.0, abs(x), abs(y))
        if fv and fw:
            if sv and sw and len(sv) == len(sw) and not all(close(x, y) for x, y in zip(sv, sw)):
                out.append((k, 'a function of time with values %r' % (sv,), 'a function of time with values %r' % (sw,)))
        elif fv != fw:
            num, vals = (w, sv) if fv else (v, sw)
            if isinstance(num, (int, float)) and vals and not all(close(num, x) for x in vals):
                out.append((k, ('a function of time with values %r' % (sv,)) if fv else 'the constant %r' % (v,),
                            ('a function of time with values %r' % (sw,)) if fw else 'the constant %r' % (w,)))
        elif isinstance(v, (int, float)) and isinstance(w, (int, float)):
            if not close(v, w): out.append((k, repr(v), repr(w)))
    return out

def boundary_args_check(chk, ctx, m, p, a, b, ns):
    """L3 (i) on the calls the real function makes (integrators stubbed): at the boundary vs just off it, each side.
    Returns the kind of shape change across the boundary (None: the same calls with arguments of the same type)"""
    name = m['name']; peq = on_boundary(p, a, b)
    inp = dict(kind='boundary', model=name, params=peq, pair=[a, b], ns=list(ns), pts=12)
    try:
        base = stub_calls(ctx, m, peq, ns)
    except Exception as e:
        chk.fail('%s:boundary:%s' % (name, type(e).__name__), '%s%r (on the boundary %s, integrators stubbed) raises %r' % (name, vec(m, peq), bkey(a, b), e), inp)
        return None
    shape = None
    for sg in off_signs(a, b):
        q = off_boundary(p, a, b, sg)
        try:
            off = stub_calls(ctx, m, q, ns)
        except Exception as e:
            chk.fail('%s:boundary:%s' % (name, type(e).__name__), '%s%r (just off the boundary %s) raises %r' % (name, vec(m, q), bkey(a, b), e), inp)
            continue
        chk.l3((name, 'boundary_args', a, b))
        if [c['fn'] for c in base] != [c['fn'] for c in off]:
            shape = 'sequence'; continue
        if call_shape(base) != call_shape(off): shape = shape or 'type'
        for i, (c0, c1) in enumerate(zip(base, off)):
            if '__bind_error__' in c0['args'] or '__bind_error__' in c1['args']: continue
            for k, v0, v1 in args_jump(c0, c1):
                chk.fail('%s:boundary:%s:%s' % (name, c0['fn'], k),
                         '%s%r, on the boundary %s: call %d, %s keyword %s receives %s; at %s = %r (a relative step of %g off the boundary) it '
                         'receives %s — the argument jumps across the equality, the model is not continuous there'
                         % (name, vec(m, peq), bkey(a, b), i, c0['fn'], k, v0, b, q[b], BOUNDARY_EPS, v1), inp)
    return shape

def rel_diff(fa, fb):
    da = np.asarray(fa.data, dtype=float); db = np.asarray(fb.data, dtype=float); mk = ~np.ma.getmaskarray(fa)
    if da.shape != db.shape: return float('inf')
    sc = float(np.max(np.abs(da[mk]))) if mk.any() else 0.0
    return float(np.max(np.abs(da - db)[mk]) / max(sc, 1e-300)) if mk.any() else 0.0

def boundary_spectrum_check(chk, ctx, m, p, a, b, ns, pts=12, signs=None):
    """L3 (ii): the spectrum on the boundary vs just off it"""
    dadi = ctx['dadi']; name = m['name']; peq = on_boundary(p, a, b)
    inp = dict(kind='boundary', model=name, params=peq, pair=[a, b], ns=list(ns), pts=pts)
    try:
        with np.errstate(all='ignore'):
            f0 = m['f'](vec(m, peq), ns, pts)
            offs = [(sg, off_boundary(p, a, b, sg)) for sg in (signs or off_signs(a, b))]
            fs = [(sg, q, m['f'](vec(m, q), ns, pts)) for sg, q in offs]
    except Exception as e:
        chk.fail('%s:boundary:%s' % (name, type(e).__name__), '%s at / next to the boundary %s raises %r' % (name, bkey(a, b), e), inp); return
    chk.l3((name, 'boundary', a, b))
    for key, what in spectrum_checks(dadi, f0, ns, pts, resolved(peq)):
        chk.fail('%s:%s' % (name, key), '%s(%r, %r, %d) (on the boundary %s): %s' % (name, vec(m, peq), ns, pts, bkey(a, b), what), inp)
    for sg, q, f1 in fs:
        e = rel_diff(f0, f1)
        ctx['_bmax'] = max(ctx.get('_bmax', 0.0), e if e == e and e != float('inf') else 0.0)
        if not e <= BOUNDARY_FS_TOL:
            chk.fail('%s:boundary:continuity' % name,
                     '%s%r (ns %r, pts %d) on the boundary %s vs %s = %r (a step of %g off it): the spectra differ by %.3e of the largest entry — '
                     'a jump, not the effect of the step (the splitting error itself is 1e-4 .. 1e-2)'
                     % (name, vec(m, peq), list(ns), pts, bkey(a, b), b, q[b], BOUNDARY_EPS, e), inp)

def boundary_scan(chk, ctx, m, rng, d):
    """every boundary of one model: arguments (all), spectrum (the boundaries at which the calls change shape, and a sample)"""
    name = m['name']; tier = ctx['tier']
    bs = boundaries_of(m)
    m['bflag'] = {}
    if not bs: return
    ns_stub = (4,) * d if ploidy_even(m) else (3,) * d
    ns = tuple(int(x) for x in rng.permutation([3, 4, 5, 6])[:d]) if not ploidy_even(m) else (4,) * d
    p = boundary_regime(rng, m, d)
    plain = []
    for a, b in bs:
        chk.stat('boundaries')
        shape = boundary_args_check(chk, ctx, m, p, a, b, ns_stub)
        if shape is not None:
            m['bflag'][(a, b)] = shape
            chk.stat('boundary_branch:%s:%s:%s' % (name, bkey(a, b), shape))
        else:
            plain.append((a, b))
    todo = [(a, b, None) for (a, b) in m['bflag']]
    if plain:
        if tier == 'quick': k = 1
        else: k = len(plain) if d <= 2 else 8
        for i in list(rng.permutation(len(plain)))[:k]:
            a, b = plain[int(i)]
            todo.append((a, b, (1 if rng.random() < 0.5 else -1,) if (tier == 'quick' and len(off_signs(a, b)) == 2) else None))
    for a, b, signs in todo:
        boundary_spectrum_check(chk, ctx, m, p, a, b, ns, 12, signs)
        chk.stat('boundary_spectra')
    # the clauses about a returned spectrum and the correspondence with the executor, at every boundary where the calls change shape:
    # on it and on one side of it (three grids, as for every other draw)
    for j, (a, b) in enumerate(m['bflag']):
        q, lam = fit_budget(m, p, d, tier)
        run_model(chk, ctx, m, on_boundary(q, a, b), ns)
        sg = off_signs(a, b)[j % len(off_signs(a, b))]
        run_model(chk, ctx, m, off_boundary(q, a, b, sg), ns)
        chk.stat('boundary_runs', 2)

def k_boundaries(chk, ctx, m):
    """K: the comparisons in the Lean trace of the model vs the boundaries at which the real calls change shape.  A comparison with a
    literal 0 on one side and a time or a rate on the other is one-sided inside the documented bounds (never observed to flip)."""
    driver = ctx['driver']
    if driver is None or not driver.ok() or 'bflag' not in m: return
    r = driver.ask('c15.boundary ' + m['name'])
    if not r.startswith('ok '): return
    info = json.loads(r[3:])
    lean = set(); onesided = set()
    for op, l, rr, ok, n in info['nodes']:
        if l[0] == 'p' and rr[0] == 'p': lean.add(frozenset([l[1], rr[1]]))
        elif l[0] == 'p' and rr[0] == 'lit' and rr[1] == 0:
            (onesided if kind(l[1]) in ('time', 'mig') else lean).add(frozenset([l[1]]))
        elif rr[0] == 'p' and l[0] == 'lit' and l[1] == 0:
            (onesided if kind(rr[1]) in ('time', 'mig') else lean).add(frozenset([rr[1]]))
        else: lean.add(frozenset(['?' + show_expr(l), '?' + show_expr(rr)]))
    seen = set(frozenset([x for x in ab if x is not None]) for ab in m['bflag'])
    if lean <= seen and seen <= (lean | onesided): chk.k_ok('c15.boundaries')
    else:
        chk.k_bad('c15.boundaries', dict(model=m['name']), sorted(sorted(x) for x in seen), sorted(sorted(x) for x in lean | onesided),
                  'boundaries at which the real calls change shape vs comparisons of the Lean trace')
    if not info['ok']:
        bad = ['%s %s %s' % (show_expr(l), op, show_expr(rr)) for op, l, rr, ok, n in info['nodes'] if not ok]
        chk.broken.append('model: %s: the two branches of `%s` do not have the same boundary normal form (C15_branch_boundary cannot hold)'
                          % (m['name'], '`, `'.join(bad[:3])))

def perm_at(chk, ctx, m, perm, args, p, ns, where, pts=12):
    """L3 (iii): the label-permutation oracle at a given point (a branch boundary): not larger than a splitting error, decreasing
    with the time step"""
    dadi = ctx['dadi']; name = m['name']
    v = vec(m, p); vs = pair_args(args, p) if m['pn'] else None
    inp = dict(kind='perm_at', model=name, perm=list(perm), args=args, params=p, ns=list(ns), pts=pts, where=where)
    try:
        e1 = perm_err(dadi, m, v, vs, ns, perm, pts, TF_DEFAULT)
        e2 = perm_err(dadi, m, v, vs, ns, perm, pts, TF_DEFAULT / 10) if e1 > 1e-8 else 0.0
    except Exception as e:
        chk.fail('%s:perm:%s' % (name, type(e).__name__), 'label permutation %r of %s (%s) raises %r' % (perm, name, where, e), inp); return
    chk.l3(('perm_at', name, tuple(perm), where))
    if not e1 <= 2e-2:
        chk.fail('%s:perm:large' % name, '%s%r (ns %r) vs %s%r relabelled by %r (new population i = old population perm[i]; ns permuted), %s: '
                 'relative difference %.3e at the default time step — not an operator-splitting error'
                 % (name, v, list(ns), name, vs, list(perm), where, e1), inp); return
    if e1 > 1e-8 and not e2 < e1 and e2 > PERM_FLOOR:
        chk.fail('%s:perm:not_decreasing' % name, 'label-permutation difference of %s under %r, %s, does not shrink with the time step: %.3e at '
                 'timescale_factor=1e-3, %.3e at 1e-4' % (name, list(perm), where, e1, e2), inp)

def perm_boundary_check(chk, ctx, byname, name, perm, args, rng):
    """the permutation oracle on the branch boundaries of the model (and on their images under the induced renaming of the
    parameters), and on a sample of the other equalities"""
    m = byname.get(name)
    if m is None or model_dim(m) != len(perm) or not m['pn'] or ploidy_even(m): return
    d = len(perm); tier = ctx['tier']
    sigma = {n: (e[1] if e[0] == 'p' else None) for n, e in zip(m['pn'], args)}       # parameter -> the parameter whose value it receives
    flagged = []
    for (a, b) in m.get('bflag', {}):
        if a is None: continue
        for pr in ((a, b), (sigma.get(a), sigma.get(b))):
            if pr[0] and pr[1] and pr[0] != pr[1] and pr not in flagged and (pr[1], pr[0]) not in flagged: flagged.append(pr)
    plain = [ab for ab in boundaries_of(m) if ab[0] is not None and ab not in flagged and (ab[1], ab[0]) not in flagged]
    k = 1 if tier == 'quick' else (len(plain) if d == 2 else 4)
    todo = flagged + [plain[int(i)] for i in list(rng.permutation(len(plain)))[:k]]
    for a, b in todo:
        p = on_boundary(boundary_regime(rng, m, max(d, 3)), a, b)
        ns = tuple(int(x) for x in rng.permutation([3, 4, 5, 6])[:d])
        perm_at(chk, ctx, m, perm, args, p, ns, 'on the boundary %s' % bkey(a, b))
        chk.stat('perm_at_boundary' + (':branch' if (a, b) in flagged else ''))

# ----------------------------------------------------------------------------------------------- units on the real calls
def units_params(rng, m, order=None):
    """generic parameters: distinct, non-zero, moderate; `order`: epoch lengths increasing / decreasing along the parameter list"""
    p = {}
    for n in m['pn']:
        k = kind(n)
        if k == 'size': v = math.exp(rng.uniform(math.log(0.3), math.log(3.0)))
        elif k == 'time': v = rng.uniform(0.1, 1.0)
        elif k == 'mig': v = rng.uniform(0.2, 3.0)
        elif k == 'sel': v = rng.uniform(0.2, 2.0) * (1 if rng.random() < 0.5 else -1)
        else: v = rng.uniform(0.1, 0.9)
        p[n] = coarse(v)
    times = [n for n in m['pn'] if kind(n) == 'time']
    if order is not None and len(times) >= 2:
        for n, v in zip(times, sorted((p[n] for n in times), reverse=(order == 'decreasing'))): p[n] = v
    return p

def stub_calls(ctx, m, p, ns, pts=7):
    rec = Recorder(ctx['dadi'], ctx['_prims'] or DEFAULT_PRIMS, stub=True)
    with rec, np.errstate(all='ignore'):
        m['f'](vec(m, p), ns, pts)
    return rec.calls

def scale_params(p, c):
    return {n: coarse(v * c.get(kind(n), 1.0)) for n, v in p.items()}

def unscaled_sites(base, scaled, c):
    """(call index, primitive, keyword, value, rescaled value, expected factor) of every numeric keyword whose value does not scale by
    the factor of the family the keyword expects; None if the two runs made different calls"""
    if [x['fn'] for x in base] != [x['fn'] for x in scaled]: return None
    bad = []
    for i, (a, b) in enumerate(zip(base, scaled)):
        if '__bind_error__' in a['args'] or '__bind_error__' in b['args']: continue
        for k, v in a['args'].items():
            fam = kw_family(k)
            if fam is None: continue
            w = b['args'].get(k); f = c.get(fam, 1.0)
            if fam == 'tuple':
                ok = isinstance(v, (tuple, list)) and isinstance(w, (tuple, list)) and len(v) == len(w) and all(num_close(x, y) for x, y in zip(v, w))
                vv, ww = repr(v), repr(w)
            elif callable(v) or callable(w):
                if not (callable(v) and callable(w)):
                    ok = False; vv, ww = repr(v), repr(w)
                else:
                    ts, vals = a['sampled'].get(k, ([], [])); ts2, vals2 = b['sampled'].get(k, ([], []))
                    ok = len(vals) == len(vals2) and all(isinstance(x, float) and isinstance(y, float) and num_close(f * x, y) for x, y in zip(vals, vals2))
                    vv, ww = 'function of time, values %r at t=%r' % (vals, ts), 'values %r at t=%r' % (vals2, ts2)
            else:
                ok = (not isinstance(v, bool)) and isinstance(v, (int, float)) and num_close(f * v, w)
                vv, ww = repr(v), repr(w)
            if not ok: bad.append((i, a['fn'], k, vv, ww, f))
    return bad

def units_check(chk, ctx, m, rng):
    """L3 (+ K for the reference-size sites): multi-family homogeneity of the arguments the *real* model function passes"""
    name = m['name']; d = model_dim(m)
    if d is None: return
    ns = (4,) * d if ploidy_even(m) else (3,) * d
    orders = ['increasing', 'decreasing'] if has_branches(ctx, m) else [None]
    observed = set(); ran = False
    for order in orders:
        p = units_params(rng, m, order)
        fs = list(rng.permutation([0.125, 0.25, 0.5, 2.0, 4.0, 8.0])[:4])
        cA = dict(size=1.0, time=float(fs[0]), mig=float(fs[1]), sel=float(fs[2]))
        cB = dict(cA); cB['size'] = float(fs[3])
        inp = dict(kind='units', model=name, params=p, order=order, factors=cA, size_factor=cB['size'])
        try:
            base = stub_calls(ctx, m, p, ns)
            runA = stub_calls(ctx, m, scale_params(p, cA), ns)
            runB = stub_calls(ctx, m, scale_params(p, cB), ns)
        except Exception as e:
            chk.fail('%s:units:%s' % (name, type(e).__name__), '%s with stubbed integrators raises %r' % (name, e), inp); return
        chk.l3((name, 'units', order))
        badA = unscaled_sites(base, runA, cA)
        if badA is None:
            chk.fail('%s:units:branch' % name, '%s%r makes other primitive calls when times, rates and selection coefficients are rescaled '
                     '(x%r): a comparison between quantities of different units' % (name, vec(m, p), cA), inp); continue
        for i, fn, k, v, w, f in badA:
            chk.fail('%s:units:%s:%s' % (name, fn, k),
                     '%s%r: call %d, %s keyword %s (a %s) receives %s; with times x%g, migration rates x%g, selection x%g it receives %s — '
                     'it does not scale by x%g, so it is not a quantity of the family the keyword expects'
                     % (name, vec(m, p), i, fn, k, kw_family(k), v, cA['time'], cA['mig'], cA['sel'], w, f), inp)
        badB = unscaled_sites(base, runB, cB)
        if badB is None: continue
        ran = True
        for i, fn, k, v, w, f in badB:
            if any(x[0] == i and x[2] == k for x in badA): continue
            if fn == 'PhiManip.phi_1D' and k == 'nu' and v == w and num_close(1.0, float(v)): continue      # the ancestral size: the reference size itself
            observed.add((fn, k))
    lean = ctx.get('_units', {}).get(name)
    if ran and lean is not None:
        want = set(tuple(x) for x in lean['refsites'])
        single = ctx.get('_branches', {}).get(name, 1) == 1
        if (observed == want) if single else (observed <= want): chk.k_ok('c15.refsites')
        else: chk.k_bad('c15.refsites', dict(model=name), sorted(observed), sorted(want), 'reference-size sites')
        chk.stat('refsites:%d' % len(observed))

def extrap_check(chk, ctx, m, p, ns):
    """the documented use: wrapped for extrapolation over the three grids"""
    dadi = ctx['dadi']
    try:
        with np.errstate(all='ignore'):
            fs = dadi.Numerics.make_extrap_func(m['f'])(vec(m, p), ns, list(PTS))
    except Exception as e:
        chk.fail('%s:extrap:%s' % (m['name'], type(e).__name__), 'make_extrap_func(%s)(%r, %r, %r) raises %r' % (m['name'], vec(m, p), ns, PTS, e),
                 case_input('extrap', m, p, ns, list(PTS)))
        return
    chk.l3((m['name'], 'extrap'))
    data = np.asarray(fs.data, dtype=float)[~np.ma.getmaskarray(fs)]
    if tuple(fs.shape) != tuple(n + 1 for n in ns) or not np.all(np.isfinite(data)):
        chk.fail('%s:extrap:nonfinite' % m['name'], 'extrapolated spectrum of %s has shape %r / non-finite entries' % (m['name'], tuple(fs.shape)),
                 case_input('extrap', m, p, ns, list(PTS)))

# ----------------------------------------------------------------------------------------------- run / replay
def generated_is_current():
    """other checks running at the same time may regenerate Generated/Models.lean from another tree: results would be
    meaningless, so this is reported as an infrastructure failure"""
    import os, sys
    try:
        import translate as T
        gen = T.GENERATORS.get('Models')
        text = gen() if gen else None
    except Exception:
        return True                       # a translation failure is reported through chk.translate
    path = os.path.join(common.LEAN, 'DadiVerif', 'Generated', 'Models.lean')
    return text is None or open(path).read() == text

def ensure_current(chk, ctx):
    """tools/try_seed.sh (and any full `tools/translate.py` run) of a concurrent job rewrites every Generated/*.lean from its own
    tree (usually /repo).  When this check runs against the same tree that is harmless (identical text); when it runs against another
    tree (DADI_REPO) and the file was rewritten after this check's translation step, redo translation, audit and driver build, checking
    after each build step (the windows are a few tens of seconds)."""
    import translate as T
    if generated_is_current(): return
    for attempt in range(6):
        chk.notes.append('Generated/Models.lean was rewritten by a concurrent job; regenerated (attempt %d)' % (attempt + 1))
        chk.translate = T.write_all(GENERATED)
        try:
            chk.audit = common.audit(PROP, EXTRA_MODULES, 'quick')
        except TypeError:
            chk.audit = common.audit(PROP, EXTRA_MODULES)
        if not generated_is_current(): continue
        if ctx.get('driver') is not None:
            ctx['driver'].close()
        ctx['driver'] = common.LeanDriver(DRIVER_MODULES)
        ctx['_own_driver'] = ctx['driver']
        chk.broken[:] = [b for b in chk.broken if not b.startswith('model: lake build of the driver')]
        if not ctx['driver'].build_ok:
            chk.broken.append('model: lake build of the driver modules failed (driver unavailable)')
        if generated_is_current(): return
    raise common.Infra('lean/DadiVerif/Generated/Models.lean keeps being rewritten by concurrent jobs running against another tree '
                       '(this run: %s)' % common.REPO)

def setup(chk, ctx):
    dadi = ctx['dadi']
    ensure_current(chk, ctx)
    for _, modname in MODULES: importlib.import_module(modname)
    models = discover(dadi)
    byname = {m['name']: m for m in models}
    ctx['_models'] = models; ctx['_byname'] = byname
    if ctx['driver'] is not None and ctx['driver'].ok():
        k_tables(chk, ctx, models)
    else:
        ctx['_prims'] = []; ctx['_wf'] = {}
    return models, byname

def run(chk, ctx):
    try:
        _run(chk, ctx)
    finally:
        if ctx.get('_own_driver') is not None: ctx['_own_driver'].close()

def _run(chk, ctx):
    rng = common.Rng(ctx['seed'], 'C15'); tier = ctx['tier']; dadi = ctx['dadi']
    models, byname = setup(chk, ctx)
    driver = ctx['driver']
    chk.rule = ('every function exposing __param_names__ in the six model modules (found by run-time introspection) is run at parameters '
                'drawn inside the documented bounds by parameter name (nu*: log-uniform [1e-2,100] + the bounds and 1; T*: uniform [0,3] + 0 and 3; '
                'm*: 0 / small / uniform [0,10] / 10, in half of the draws reduced to m*max(1, largest size) <= 8; s, f, F: uniform (0.02,0.98); gamma*: 0 or uniform with |gamma|*max(1, largest size) <= 3); non-negativity (entries >= -1e-3 of the largest entry: numerically-zero entries come out as -1e-5..-1e-4) is judged only in the regime the grids 16..24 resolve (m*nu <= 8, |gamma|*nu <= 3), everything else on every draw; the epoch lengths are then shrunk '
                '(inside [0,3]) so that the three runs pts=16,20,24 fit a time budget (the cost is T*max(1/(4 nu), sum m, |gamma|/2)/timescale_factor '
                'steps). Distinct = (model, grid) / (model, wrong length) / nesting pair / (symmetric model, class). Nesting pairs and symmetric models: '
                'hand table of Model/ModelPairs.lean, parameters of the simpler model drawn as above. Label permutations (three populations): '
                'sizes in [0.5,2], rates in [0.8,2.5], total duration 0.15..0.3, pts=12, distinct sample sizes. Units: generic (distinct, non-zero) '
                'parameters, integrators stubbed, families rescaled by distinct powers of two. Branch boundaries: for every model every pair of '
                'parameters of one family made exactly equal (one pair at a time; sizes in [0.5,2], rates in [0.5,2.5], |gamma| in [0.3,1], total '
                'duration 0.3..0.8, three populations 0.15..0.3) and every time/rate/selection parameter at 0, against a step of 1e-9 to each side: '
                'arguments of the recorded calls (integrators stubbed) on every boundary; spectra (pts=12) on every boundary at which the calls change '
                'shape and on a sample (quick: one per model); permutation oracle and nesting pairs on the branch boundaries and a sample.')
    chk.unproved = ['finiteness and non-negativity of the returned spectra, the extrap_x tag (L3 on every model, three grids)',
                    'that the real primitives satisfy the laws the nesting theorems assume: zero-duration integration is the identity (L3, exact), '
                    '1*x = x (IEEE)',
                    'numerical agreement of every nesting pair at the nesting point to 1e-8 (L3)',
                    'size of the operator-splitting error under label swap: ratio per decade of timescale_factor in [5,20] (L3, models whose last epoch has migration); '
                    'models without migration in the last epoch: only "decreases with the time step" is asserted (the boundary treatment converges more slowly)',
                    'nesting pairs that need algebra beyond 1*x = x (e.g. IM at s -> 1-s under label swap, bottlegrowth at nuF = nuB) are not claimed',
                    'that the real primitives are permutation-lawful (PermLawful: up to the operator-splitting error, L3 on the three-population entries) '
                    'and scale-lawful (PrimScaleLawful: property C03, proved there per primitive); label permutation of the three admix_origin models '
                    '(needs f -> 1-f) is not claimed',
                    'that the real primitives are boundary-lawful (BoundaryLawful: a size function that is constant gives the same result as the '
                    'constant; IEEE arithmetic obeys x-x = 0, x*0 = 0, 0/x = 0, 1**x = 1, exp 0 = 1 for finite x) and continuous in their arguments: L3, '
                    'spectrum on a branch boundary vs a step of 1e-9 off it (<= 1e-5 of the largest entry)']
    chk.assumptions += ['C15: a model function is read as a straight-line program over the primitives (closed statement language of tools/gen_Models.py; '
                        'anything else is a translation failure); the meaning of `let` is substitution (Python floats are pure)',
                        'C15: the dimension table of the primitives (phi_1D: 0->1, phi_1D_to_2D: 1->2, two_pops: 2->2, ...) is read off their names; K checks the '
                        'density threading, L3 that every model runs']
    n_draws = 1 if tier == 'quick' else 10
    # ---- wellformedness per model (which model breaks the table theorem, if any)
    for m in models:
        if len(m['argn']) == 3 and ctx['_wf'].get(m['name']) is False:
            chk.broken.append('model: %s is not well-formed in the generated table (C15_wellformed cannot hold)' % m['name'])
        if len(m['argn']) == 3 and ctx.get('_wiring', {}).get(m['name']) is False:
            chk.broken.append('model: %s passes a population-indexed parameter to a keyword of another index in some branch (C15_wiring cannot hold)' % m['name'])
        u = ctx.get('_units', {}).get(m['name'])
        if len(m['argn']) == 3 and u is not None and not u['lenient']:
            for fn, kw, e, got, want in u['errors'][:6]:
                chk.broken.append('model: %s: %s keyword %s receives %s of unit [%s], expected [%s] (C15_units cannot hold)'
                                  % (m['name'], fn, kw, show_expr(e), got, want))
    chk.stat('models_with_branches', sum(1 for v in ctx.get('_branches', {}).values() if v > 1))
    # ---- every model: arity, runs
    t_start = time.time()
    for m in models:
        arity_checks(chk, ctx, m, rng)
        if len(m['argn']) != 3:
            chk.stat('mscore'); continue
        d = model_dim(m)
        if d is None:
            chk.fail('%s:run:dimension' % m['name'], '%s does not run at zero-length epochs for 1..5 populations: %s' % (m['name'], m.get('dim_err')),
                     case_input('run', m, None, None, 6))
            continue
        chk.stat('models_%dD' % d)
        for i in range(n_draws + (1 if (tier == 'quick' and d <= 2) else 0)):
            p = draw(rng, m['pn'])
            p, lam = fit_budget(m, p, d, tier)
            chk.stat('T_shrunk' if lam < 1 else 'T_as_drawn')
            for n, v in p.items():
                if kind(n) == 'time' and v == 0: chk.stat('edge:T=0')
                if kind(n) == 'mig' and v == 0: chk.stat('edge:m=0')
                if kind(n) == 'size' and v in BOUNDS['size']: chk.stat('edge:nu_at_bound')
            ns = ns_for(rng, d, m)
            ok = run_model(chk, ctx, m, p, ns)
            if i == 0 and (tier == 'thorough' or rng.random() < 0.25) and ok:
                extrap_check(chk, ctx, m, p, ns)
            if len(chk.samples) < 6 and rng.random() < 0.08:
                chk.sample(dict(model=m['name'], params=p, ns=list(ns), pts=list(PTS), shrink=lam))
        # models whose body branches on a comparison of parameters: reach every branch on every run.  The comparisons in the
        # library are between epoch lengths, so one draw with the times in increasing and one in decreasing order of the
        # parameter list does it (generic parameters otherwise: distinct, non-zero)
        times = [n for n in m['pn'] if kind(n) == 'time']
        if has_branches(ctx, m) and len(times) >= 2:
            for order in ('increasing', 'decreasing'):
                p = draw(rng, m['pn'], edge=False)
                vals = sorted((p[n] for n in times), reverse=(order == 'decreasing'))
                if len(set(vals)) < len(vals): continue
                for n, v in zip(times, vals): p[n] = v
                p, lam = fit_budget(m, p, d, tier)
                chk.stat('branch_draws')
                run_model(chk, ctx, m, p, ns_for(rng, d, m))
        for bid, cnt in sorted(m.get('branches_hit', {}).items()):
            if has_branches(ctx, m): chk.stat('branch:%s:%s' % (m['name'], bid), cnt)
        units_check(chk, ctx, m, rng)
        tb = time.time()
        boundary_scan(chk, ctx, m, rng, d)
        k_boundaries(chk, ctx, m)
        ctx['_t_boundary'] = ctx.get('_t_boundary', 0.0) + time.time() - tb
    chk.stat('seconds_models', round(time.time() - t_start, 1))
    chk.stat('seconds_boundaries', round(ctx.get('_t_boundary', 0.0), 1))
    chk.stat('boundary_max_jump_1e-9', float('%.2g' % ctx.get('_bmax', 0.0)))
    # ---- the law behind the nesting theorems
    zero_duration_checks(chk, ctx, rng, 2 if tier == 'quick' else 8)
    # ---- nesting pairs and symmetric models: table accepted by the model (K), evaluated on the real code (L3)
    t1 = time.time()
    if driver is not None and driver.ok():
        pairs = ask_json(driver, 'c15.pairs'); sym = ask_json(driver, 'c15.symmetric')
        for group, ps in pairs:
            for a, b, args, ok in ps:
                if ok: chk.k_ok('c15.pairs')
                else: chk.k_bad('c15.pairs', dict(a=a, b=b, args=args), 'hand table', 'nestOK = false', 'nesting')
                nesting_check(chk, ctx, byname, group, a, b, args, rng, reps=1 if tier == 'quick' else 5,
                              boundary=1 if tier == 'quick' else 3)
        for a, args_a, path, b, args_b, ok, conds in ask_json(driver, 'c15.branchpairs'):
            if ok: chk.k_ok('c15.branchpairs')
            else: chk.k_bad('c15.branchpairs', dict(a=a, b=b, args=args_a, path=path), 'hand table', 'nestOKAt = false', 'nesting')
            nesting_check(chk, ctx, byname, 'branch', a, b, args_a, rng, reps=2 if tier == 'quick' else 6, args_b=args_b, conds=conds,
                          boundary=1 if tier == 'quick' else 3)
        chk.stat('seconds_nesting', round(time.time() - t1, 1)); t1 = time.time()
        order = list(rng.permutation(len(sym)))
        todo = order if tier == 'thorough' else order[:12]
        for i, (name, args, ok) in enumerate(sym):
            if ok: chk.k_ok('c15.symmetric')
            else: chk.k_bad('c15.symmetric', dict(model=name, args=args), 'hand table', 'swapOK = false', 'swap')
            if i in todo:
                swap_check(chk, ctx, byname, name, args, rng)
        chk.stat('seconds_swap', round(time.time() - t1, 1)); t1 = time.time()
        # ---- any permutation of the labels (Pairs.permSymmetric): K on every entry, L3 on the three-population ones
        psym = ask_json(driver, 'c15.permsym')
        three = [i for i, e in enumerate(psym) if len(e[1]) == 3]
        pick = set(three)
        for i, (name, perm, args, ok) in enumerate(psym):
            if ok: chk.k_ok('c15.permsym')
            else: chk.k_bad('c15.permsym', dict(model=name, perm=perm, args=args), 'hand table', 'permOK = false', 'label permutation')
            if i in pick:
                perm_check(chk, ctx, byname, name, [int(x) for x in perm], args, rng, draws=1 if tier == 'quick' else 3)
        chk.stat('seconds_perm', round(time.time() - t1, 1)); t1 = time.time()
        # ---- the same oracle on the branch boundaries (and a sample of the other equalities between parameters of one family)
        for name, perm, args, ok in psym:
            perm_boundary_check(chk, ctx, byname, name, [int(x) for x in perm], args, rng)
        chk.stat('seconds_perm_boundary', round(time.time() - t1, 1))
    else:
        chk.notes.append('driver unavailable: nesting pairs / symmetric models not evaluated')

def replay(chk, ctx, data):
    try:
        _replay(chk, ctx, data)
    finally:
        if ctx.get('_own_driver') is not None: ctx['_own_driver'].close()

def _replay(chk, ctx, data):
    rng = common.Rng(ctx['seed'], 'C15')
    models, byname = setup(chk, ctx)
    inp = data.get('input') or {}
    k = inp.get('kind')
    if k in ('run', 'extrap') and inp.get('model') in byname and inp.get('params') is not None:
        m = byname[inp['model']]
        run_model(chk, ctx, m, inp['params'], tuple(inp['ns']))
        if k == 'extrap': extrap_check(chk, ctx, m, inp['params'], tuple(inp['ns']))
    elif k == 'arity' and inp.get('model') in byname:
        arity_checks(chk, ctx, byname[inp['model']], rng)
    elif k == 'zero_duration':
        zero_duration_checks(chk, ctx, rng, 8)
    elif k == 'nesting':
        ma, mb = byname.get(inp['a']), byname.get(inp['b'])
        if ma is None or mb is None:
            chk.fail('%s->%s:nesting:missing' % (inp['a'], inp['b']), 'a model of the pair no longer exists', inp); return
        nesting_replay(chk, ctx, ma, mb, inp)
    elif k == 'swap' and inp.get('model') in byname:
        swap_check(chk, ctx, byname, inp['model'], inp['args'], rng)
    elif k == 'perm' and inp.get('model') in byname:
        if inp.get('params') is not None and inp.get('ns'):
            perm_at(chk, ctx, byname[inp['model']], inp['perm'], inp['args'], inp['params'], tuple(inp['ns']), 'the recorded point', inp.get('pts', 12))
        else:
            perm_check(chk, ctx, byname, inp['model'], inp['perm'], inp['args'], rng, draws=3)
    elif k == 'units' and inp.get('model') in byname:
        units_check(chk, ctx, byname[inp['model']], rng)
    elif k == 'boundary' and inp.get('model') in byname:
        m = byname[inp['model']]; a, b = inp['pair']; d = model_dim(m)
        if d is None: _run(chk, ctx); return
        boundary_args_check(chk, ctx, m, inp['params'], a, b, (4,) * d if ploidy_even(m) else (3,) * d)
        boundary_spectrum_check(chk, ctx, m, inp['params'], a, b, tuple(inp['ns']), inp['pts'])
    elif k == 'perm_at' and inp.get('model') in byname:
        perm_at(chk, ctx, byname[inp['model']], inp['perm'], inp['args'], inp['params'], tuple(inp['ns']), inp.get('where', ''), inp['pts'])
    else:
        _run(chk, ctx)

def nesting_replay(chk, ctx, ma, mb, inp):
    env = inp['env']; ns = tuple(inp['ns']); pts = inp['pts']; a, b = inp['a'], inp['b']
    va = pair_args(inp['args'], env); vb = pair_args(inp['args_b'], env)
    compare_pair(chk, ctx, ma, mb, a, b, va, vb, ns, pts, inp.get('group', ''), inp)
