"""C09 — folding and ancestral misidentification conserve counts; symmetric, idempotent; folding status,
masks and labels survive arithmetic, slicing and likelihood evaluation.

K : Spectrum.fold / unfold / Numerics.reverse_array / apply_anc_state_misid / make_anc_state_misid_func /
    all 14 binary + 7 in-place operator templates / basic slicing / the `model = model.fold()` guards of
    Inference.py  — real implementation vs the exact-rational Lean model (Model/Fold.lean, whose pointwise
    formulas are regenerated from the source by tools/gen_Fold.py).  Round 5: the two templates are *interpreted* by the
    model from their translated statement lists; what an in-place operator leaves in `self` (returned or refused), the
    unary operations (-fs, +fs, abs, copy, deepcopy, view, log), the order in which numpy calls the subclass hooks
    (`__array_finalize__`, `_update_from`, `__array_wrap__`; spy on the class vs the model's `hooksOf`) and the
    composition of two misidentifications are compared too.
L3: the property statement evaluated directly on the implementation with explicit loops over numpy.ndindex
    (independent of the model): pairing, halves, totals, mirror invariance, mask union, fold∘unfold∘fold,
    convex mix, refusal of mixed folding, survival of folded/mask/pop_ids; no buffer shared between a result and its
    operands (numpy.shares_memory + mutate-the-result / mutate-the-operand afterwards, `alias_check`); and the operands
    themselves survive: for every operation named in the property (fold, unfold, reverse, misid, binary and in-place
    arithmetic incl. refused ones, unary, slicing, the likelihood family with automatic folding) data, mask, folded
    flag and labels of every operand that is not the in-place target are snapshotted (deep copies) before and compared
    after (`state` / `survives`), with masks that are NOT mirror-symmetric on the model and on the data, and a second
    evaluation must reproduce the first.
"""
import numpy as np, itertools, operator, copy, io, contextlib
from fractions import Fraction
from . import common
from .common import rat, fmt_nd, parse_list, close

PROP = 'C09'
GENERATED = ['Fold']
NEEDS_BUILD = False
NEEDS_DRIVER = True
DRIVER_MODULES = ['Fold']

BINARY = ['__add__', '__radd__', '__sub__', '__rsub__', '__mul__', '__rmul__', '__div__', '__rdiv__', '__truediv__',
          '__rtruediv__', '__floordiv__', '__rfloordiv__', '__rpow__', '__pow__']
INPLACE = ['__iadd__', '__isub__', '__imul__', '__idiv__', '__itruediv__', '__ifloordiv__', '__ipow__']
# operator syntax that must reach each template in Python 3 (None: Python-2 name, unreachable by syntax)
SYNTAX = {'__add__': (operator.add, False), '__radd__': (operator.add, True), '__sub__': (operator.sub, False),
          '__rsub__': (operator.sub, True), '__mul__': (operator.mul, False), '__rmul__': (operator.mul, True),
          '__truediv__': (operator.truediv, False), '__rtruediv__': (operator.truediv, True),
          '__floordiv__': (operator.floordiv, False), '__rfloordiv__': (operator.floordiv, True),
          '__pow__': (operator.pow, False), '__rpow__': (operator.pow, True),
          '__iadd__': (operator.iadd, False), '__isub__': (operator.isub, False), '__imul__': (operator.imul, False),
          '__itruediv__': (operator.itruediv, False), '__ifloordiv__': (operator.ifloordiv, False),
          '__ipow__': (operator.ipow, False)}
NPOP = {'add': np.add, 'sub': np.subtract, 'mul': np.multiply, 'truediv': np.true_divide, 'floordiv': np.floor_divide,
        'pow': np.power}
AUTOFOLD_FUNCS = ['ll_per_bin', 'linear_Poisson_residual', 'Anscombe_Poisson_residual', 'optimal_sfs_scaling']

# ------------------------------------------------------------------ wire format
def bits(mask):
    mask = np.asarray(mask, dtype=bool).ravel(order='C')
    return ''.join('1' if b else '0' for b in mask) if mask.size else '-'

def ids_tok(p):
    if p is None: return '-'
    return 'ids:' + ','.join(p)

def spec_toks(data, mask, folded, pop_ids):
    return '%s %s %s %s' % (fmt_nd(np.asarray(data, dtype=float)), bits(mask), '1' if folded else '0', ids_tok(pop_ids))

def fs_toks(fs):
    return spec_toks(fs.data, np.ma.getmaskarray(fs), bool(fs.folded), fs.pop_ids)

def parse_spec(toks):
    nd, bt, f, ids = toks
    sh, dat = nd.split(':')
    shape = tuple(int(t) for t in sh.split('x')) if sh else ()
    vals = parse_list(dat)
    data = np.array([float(v) for v in vals]).reshape(shape)
    mask = np.array([c == '1' for c in (bt if bt != '-' else '')], dtype=bool).reshape(shape)
    pop = None if ids == '-' else ([] if ids == 'ids:' else ids[4:].split(','))
    return dict(data=data, mask=mask, folded=(f == '1'), pop_ids=pop, shape=shape)

def ask(driver, line):
    """-> ('ok', spec) | ('raise', name) | ('err', why) | ('bad', raw)"""
    out = driver.ask(line)
    t = out.split(' ')
    if t[0] == 'ok' and len(t) == 5:
        return 'ok', parse_spec(t[1:])
    if t[0] == 'ok':
        return 'ok', t[1:]
    if t[0] == 'raise':
        return 'raise', t[1]
    if t[0] == 'err':
        return 'err', ' '.join(t[1:])
    return 'bad', out

def describe(fs):
    return dict(shape=list(fs.shape), data=np.asarray(fs.data, dtype=float), mask=np.ma.getmaskarray(fs).astype(int),
                folded=bool(fs.folded), pop_ids=fs.pop_ids)

def rebuild(dadi, d):
    data = np.array(d['data']['data'], dtype=float).reshape(d['data']['shape']) if isinstance(d['data'], dict) else np.array(d['data'], dtype=float)
    mask = np.array(d['mask']['data']).reshape(d['mask']['shape']).astype(bool) if isinstance(d['mask'], dict) else np.array(d['mask']).astype(bool)
    return with_mask(dadi.Spectrum(data, mask=mask, mask_corners=False, data_folded=bool(d['folded']), check_folding=False,
                                   pop_ids=d['pop_ids']), mask)

def with_mask(fs, mask):
    """`fs` with exactly this mask: written after construction, so that the generators, `restore` and `rebuild` hand the oracles the
    spectrum they describe whatever the constructor does to the mask it is given (that is under test, not assumed)"""
    mask = np.asarray(mask, dtype=bool)
    if not np.array_equal(np.ma.getmaskarray(fs), mask):
        fs.mask = mask.copy()
    return fs

def same_spec(impl, model, rtol=1e-9):
    """impl: Spectrum (or masked array), model: parsed spec.  -> (ok, reason)"""
    if tuple(impl.shape) != tuple(model['shape']):
        return False, 'shape %s vs %s' % (impl.shape, model['shape'])
    ok, err, scale = close(np.asarray(impl.data, dtype=float), model['data'], rtol=rtol)
    if not ok:
        return False, 'data differ by %.3g (scale %.3g)' % (err, scale)
    if not np.array_equal(np.ma.getmaskarray(impl), model['mask']):
        return False, 'mask differs at %s' % (np.argwhere(np.ma.getmaskarray(impl) != model['mask'])[:4].tolist(),)
    if bool(getattr(impl, 'folded', None)) != model['folded'] or getattr(impl, 'folded', None) not in (True, False):
        return False, 'folded %r vs %r' % (getattr(impl, 'folded', None), model['folded'])
    if getattr(impl, 'pop_ids', None) != model['pop_ids']:
        return False, 'pop_ids %r vs %r' % (getattr(impl, 'pop_ids', None), model['pop_ids'])
    return True, ''

# ------------------------------------------------------------------ generators
LABELS = ['YRI', 'CEU', 'CHB', 'JPT', 'pop5']
SIZES = {'quick': {1: (2, 14), 2: (2, 8), 3: (2, 6), 4: (2, 4), 5: (2, 3)},
         'thorough': {1: (2, 40), 2: (2, 12), 3: (2, 8), 4: (2, 5), 5: (2, 4)}}

def gen_shape(rng, d, tier, parity=None):
    lo, hi = SIZES[tier][d]
    for _ in range(50):
        shape = [int(rng.integers(lo, hi + 1)) for _ in range(d)]
        if d >= 2 and rng.random() < 0.06:
            shape[int(rng.integers(d))] = 1            # a population with zero samples
        if parity is None or (sum(shape) - d) % 2 == parity:
            return shape
    shape[0] += 1
    return shape

DATA_KINDS = ['counts', 'float', 'sparse', 'model', 'negmix']
def gen_data(rng, shape, kind=None):
    kind = kind or DATA_KINDS[int(rng.integers(len(DATA_KINDS)))]
    if kind == 'counts':
        a = rng.poisson(8.0, shape).astype(float)
    elif kind == 'float':
        a = rng.uniform(0, 10, shape)
    elif kind == 'sparse':
        a = rng.uniform(0, 10, shape) * (rng.random(shape) < 0.3)
    elif kind == 'model':
        idx = np.indices(shape).sum(axis=0).astype(float)
        a = 1.0 / np.maximum(idx, 1.0) * rng.uniform(0.5, 2.0)
    else:
        a = rng.uniform(-5, 5, shape)
    return np.ascontiguousarray(a, dtype=float), kind

MASK_KINDS = ['corners', 'none', 'random10', 'random50', 'single', 'symmetric', 'all', 'one-corner', 'slab']
def gen_mask(rng, shape, kind=None):
    kind = kind or MASK_KINDS[int(rng.integers(len(MASK_KINDS)))]
    m = np.zeros(shape, dtype=bool)
    if kind == 'corners':
        m.flat[0] = m.flat[-1] = True
    elif kind == 'random10':
        m = rng.random(shape) < 0.1
    elif kind == 'random50':
        m = rng.random(shape) < 0.5
    elif kind == 'single':
        m.flat[int(rng.integers(m.size))] = True
    elif kind == 'symmetric':
        m = rng.random(shape) < 0.2
        m = m | m[tuple(slice(None, None, -1) for _ in shape)]
        m.flat[0] = m.flat[-1] = True
    elif kind == 'all':
        m[...] = True
    elif kind == 'one-corner':
        m.flat[0] = True
    elif kind == 'slab':
        ax = int(rng.integers(len(shape))); sl = [slice(None)] * len(shape); sl[ax] = int(rng.integers(shape[ax]))
        m[tuple(sl)] = True
    return m, kind

def gen_ids(rng, d):
    r = rng.random()
    if r < 0.4: return None
    return LABELS[:d] if r < 0.8 else ['p%d' % (k + 1) for k in range(d)]

def gen_unfolded(rng, dadi, d, tier, parity=None, dkind=None, mkind=None):
    shape = gen_shape(rng, d, tier, parity)
    data, dk = gen_data(rng, shape, dkind)
    mask, mk = gen_mask(rng, shape, mkind)
    ids = gen_ids(rng, d)
    fs = dadi.Spectrum(data, mask=mask, mask_corners=False, pop_ids=ids)
    return fs, dict(d=d, shape=tuple(shape), parity=(sum(shape) - d) % 2, data=dk, mask=mk, ids=ids is not None)

def gen_folded(rng, dadi, d, tier, parity=None):
    """a folded spectrum: a proper one (result of fold, possibly with extra masked entries) or an arbitrary array
    declared folded"""
    fs, info = gen_unfolded(rng, dadi, d, tier, parity)
    r = rng.random()
    if r < 0.6:
        f = fs.fold(); info['folded_kind'] = 'proper'
        if rng.random() < 0.4:
            extra, _ = gen_mask(rng, fs.shape, 'random10')
            f.mask = np.logical_or(f.mask, extra); info['folded_kind'] = 'proper+masked'
    else:
        f = with_mask(dadi.Spectrum(fs.data.copy(), mask=np.ma.getmaskarray(fs).copy(), mask_corners=False, data_folded=True,
                                    check_folding=False, pop_ids=fs.pop_ids), np.ma.getmaskarray(fs)); info['folded_kind'] = 'declared'
    return f, info

# ------------------------------------------------------------------ operands survive (before / after)
def state(o):
    """deep snapshot of everything the property says must survive an operation the object is only an operand of"""
    if not isinstance(o, np.ndarray) or np.ndim(o) == 0:
        return None
    masked = isinstance(o, np.ma.MaskedArray)
    pid = getattr(o, 'pop_ids', None)
    return dict(type=type(o).__name__, shape=tuple(o.shape),
                data=np.array(np.asarray(o.data) if masked else np.asarray(o), copy=True),
                mask=np.ma.getmaskarray(o).copy() if masked else None,
                folded=getattr(o, 'folded', None), pop_ids=None if pid is None else list(pid))

def state_diff(o, st):
    """None if `o` is as snapshotted, else a description of the first difference"""
    if st is None:
        return None
    if type(o).__name__ != st['type']: return 'type %s -> %s' % (st['type'], type(o).__name__)
    if tuple(o.shape) != st['shape']: return 'shape %s -> %s' % (st['shape'], tuple(o.shape))
    d = np.asarray(o.data) if isinstance(o, np.ma.MaskedArray) else np.asarray(o)
    neq = ~((d == st['data']) | ((d != d) & (st['data'] != st['data'])))
    if neq.any():
        k = tuple(int(v) for v in np.argwhere(neq)[0])
        return 'data at %s: %r -> %r (%d entries changed)' % (k, float(st['data'][k]), float(d[k]), int(neq.sum()))
    if st['mask'] is not None:
        cur = np.ma.getmaskarray(o)
        if not np.array_equal(cur, st['mask']):
            k = tuple(int(v) for v in np.argwhere(cur != st['mask'])[0])
            return 'mask at %s: %r -> %r (%d -> %d masked entries)' % (k, bool(st['mask'][k]), bool(cur[k]), int(st['mask'].sum()), int(cur.sum()))
    f = getattr(o, 'folded', None)
    if f is not st['folded'] and f != st['folded']: return 'folded %r -> %r' % (st['folded'], f)
    if getattr(o, 'pop_ids', None) != st['pop_ids']: return 'pop_ids %r -> %r' % (st['pop_ids'], getattr(o, 'pop_ids', None))
    return None

def survives(chk, key, what, inp, items):
    """items: (label, object, state taken before).  One chk.fail per call at most.  -> True if all survived"""
    chk.l3(('operand-survives', key.split(':')[0], key.split(':')[-1]))
    for lab, o, st in items:
        why = state_diff(o, st)
        if why is not None:
            chk.fail(key, '%s changed its operand `%s`: %s' % (what, lab, why), inp)
            return False
    return True

def restore(dadi, st):
    """a fresh object with the snapshotted content"""
    if st['type'] == 'Spectrum':
        return with_mask(dadi.Spectrum(st['data'].copy(), mask=st['mask'].copy(), mask_corners=False, data_folded=bool(st['folded']),
                                       check_folding=False, pop_ids=None if st['pop_ids'] is None else list(st['pop_ids'])), st['mask'])
    if st['mask'] is not None:
        return np.ma.masked_array(st['data'].copy(), mask=st['mask'].copy())
    return st['data'].copy()

def is_symmetric(m):
    return bool(np.array_equal(m, mirror_nd(m)))

# ------------------------------------------------------------------ L3 oracles (from the property text)
def oracle_fold(x, m):
    """expected data and mask of fold, by explicit loops"""
    ns = np.array(x.shape) - 1; T = int(ns.sum())
    data = np.zeros(x.shape); mask = np.zeros(x.shape, dtype=bool)
    last = tuple(ns)
    first = tuple(0 for _ in ns)
    for idx in np.ndindex(*x.shape):
        mir = tuple(int(n - i) for n, i in zip(ns, idx))
        tot = sum(idx)
        if 2 * tot < T:
            data[idx] = x[idx] + x[mir]
        elif 2 * tot == T:
            data[idx] = 0.5 * (x[idx] + x[mir])
        else:
            data[idx] = 0.0
        mask[idx] = m[idx] or m[mir] or (2 * tot > T) or idx == first or idx == last
    return data, mask

def mirror_nd(a):
    return a[tuple(slice(None, None, -1) for _ in a.shape)]

def l3_fold(chk, ctx, fs, info):
    dadi = ctx['dadi']
    inp = describe(fs)
    # private copies: fs.data / getmaskarray(fs) are the spectrum's own buffers, a snapshot taken without copying would follow
    # whatever fold() does to its input
    x = np.array(fs.data, dtype=float, copy=True); m = np.ma.getmaskarray(fs).copy()
    st_fs = state(fs)
    chk.stat('l3:fold:mask-' + ('symmetric' if is_symmetric(m) else 'asymmetric'))
    key = (info['d'], info['parity'], info['mask'], info['data'], info['shape'])
    try:
        f = fs.fold()
    except Exception as e:
        chk.l3(key); chk.fail('fold:raises:%s' % type(e).__name__, 'fold of an unfolded Spectrum raises %r' % (e,), inp); return None
    chk.l3(key)
    survives(chk, 'fold:mutates-input', 'fs.fold()', inp, [('fs', fs, st_fs)])
    if state_diff(fs, st_fs) is not None:
        fs = restore(ctx['dadi'], st_fs)          # go on with the spectrum as it was given
    ed, em = oracle_fold(x, m)
    scale = max(1.0, float(np.abs(x).max()) if x.size else 1.0)
    tol = 1e-9 * scale
    if f.folded is not True:
        chk.fail('fold:folded-flag', 'fold() result has folded=%r' % (f.folded,), inp)
    if f.pop_ids != fs.pop_ids:
        chk.fail('fold:pop_ids', 'fold() changed pop_ids %r -> %r' % (fs.pop_ids, f.pop_ids), inp)
    if np.abs(f.data - ed).max() > tol:
        k = np.unravel_index(np.argmax(np.abs(f.data - ed)), x.shape)
        chk.fail('fold:pairing', 'fold: entry %s is %r, pairing/halving rule gives %r' % (tuple(int(v) for v in k), float(f.data[k]), float(ed[k])), inp)
    if not np.array_equal(np.ma.getmaskarray(f), em):
        k = np.argwhere(np.ma.getmaskarray(f) != em)[0]
        chk.fail('fold:mask-union', 'fold: mask at %s is %r, union rule gives %r' % (k.tolist(), bool(np.ma.getmaskarray(f)[tuple(k)]), bool(em[tuple(k)])), inp)
    # totals: all data; and unmasked sum when the mask is mirror-symmetric and contains the corners
    if abs(f.data.sum() - x.sum()) > 1e-9 * max(1.0, np.abs(x).sum()):
        chk.fail('fold:total', 'fold: data total %r != %r' % (float(f.data.sum()), float(x.sum())), inp)
    if np.array_equal(m, mirror_nd(m)) and m.flat[0] and m.flat[-1] and not m.all():
        a, b = float(f.sum()), float(fs.sum())
        chk.stat('l3:fold:unmasked-total')
        if abs(a - b) > 1e-9 * max(1.0, np.abs(x).sum()):
            chk.fail('fold:total-unmasked', 'fold: unmasked total %r != %r with a symmetric mask' % (a, b), inp)
    # mirror invariance
    rs = dadi.Numerics.reverse_array(fs)
    survives(chk, 'reverse:mutates-input', 'reverse_array(fs)', inp, [('fs', fs, st_fs)])
    try:
        f2 = rs.fold()
        if np.abs(f2.data - f.data).max() > tol or not np.array_equal(np.ma.getmaskarray(f2), np.ma.getmaskarray(f)):
            chk.fail('fold:mirror', 'fold(mirror(x)) != fold(x)', inp)
    except Exception as e:
        chk.fail('fold:mirror:raises:%s' % type(e).__name__, 'fold(reverse_array(x)) raises %r' % (e,), inp)
    # fold . unfold . fold = fold, data and mask; unfold symmetric
    try:
        st_f = state(f)
        u = f.unfold()
        survives(chk, 'unfold:mutates-input', 'f.unfold()', inp, [('f = fs.fold()', f, st_f)])
        if u.folded is not False: chk.fail('unfold:folded-flag', 'unfold() result has folded=%r' % (u.folded,), inp)
        if u.pop_ids != fs.pop_ids: chk.fail('unfold:pop_ids', 'unfold() changed pop_ids', inp)
        if np.abs(u.data - mirror_nd(u.data)).max() > tol or not np.array_equal(np.ma.getmaskarray(u), mirror_nd(np.ma.getmaskarray(u))):
            chk.fail('unfold:symmetric', 'unfold(fold(x)) is not mirror-symmetric', inp)
        if abs(u.data.sum() - x.sum()) > 1e-9 * max(1.0, np.abs(x).sum()):
            chk.fail('unfold:total', 'unfold(fold(x)) total %r != %r' % (float(u.data.sum()), float(x.sum())), inp)
        st_u = state(u)
        f3 = u.fold()
        survives(chk, 'fold:mutates-input', 'u.fold() (u = fs.fold().unfold())', inp, [('u', u, st_u)])
        if np.abs(f3.data - f.data).max() > tol:
            chk.fail('fuf:data', 'fold(unfold(fold(x))) != fold(x) on the data', inp)
        if not np.array_equal(np.ma.getmaskarray(f3), np.ma.getmaskarray(f)):
            k = np.argwhere(np.ma.getmaskarray(f3) != np.ma.getmaskarray(f))[0]
            chk.fail('fuf:mask', 'fold(unfold(fold(x))) mask differs from fold(x) mask at %s' % k.tolist(), inp)
    except Exception as e:
        chk.fail('fuf:raises:%s' % type(e).__name__, 'fold/unfold round trip raises %r' % (e,), inp)
    # aliasing (fold and unfold are documented to return a new Spectrum)
    a = fs.copy(); alias_check(chk, 'fold', 'fold', inp, a.fold(), [('self', a)])
    try:
        g = f.copy(); alias_check(chk, 'unfold', 'unfold', inp, g.unfold(), [('self', g)])
    except Exception:
        pass
    # refusals (a refused call has not touched anything either)
    st_f = state(f)
    for what, g in (('fold', lambda: f.fold()), ('unfold', lambda: fs.unfold())):
        try:
            g(); chk.fail('%s:not-refused' % what, '%s on a Spectrum with the wrong folding status is accepted' % what, inp)
        except ValueError:
            pass
        except Exception as e:
            chk.fail('%s:refusal:%s' % (what, type(e).__name__), '%s refusal raises %r instead of ValueError' % (what, e), inp)
    # the spectrum that was folded is still what it was (all of the above), and folding it again gives the same answer
    survives(chk, 'fold:mutates-input', 'fold / reverse_array / unfold (whole sequence)', inp, [('fs', fs, st_fs), ('f = fs.fold()', f, st_f)])
    try:
        f4 = fs.fold()
        if not np.array_equal(f4.data, f.data, equal_nan=True) or not np.array_equal(np.ma.getmaskarray(f4), st_f['mask']):
            chk.fail('fold:not-reproducible', 'folding the same spectrum a second time gives a different result', inp)
    except Exception as e:
        chk.fail('fold:raises:%s' % type(e).__name__, 'second fold() of the same spectrum raises %r' % (e,), inp)
    return f

def l3_misid(chk, ctx, fs, p, info):
    dadi = ctx['dadi']
    inp = dict(fs=describe(fs), p=float(p))
    x = np.array(fs.data, dtype=float, copy=True); m = np.ma.getmaskarray(fs).copy()
    st_fs = state(fs)
    chk.l3(('misid', info['d'], info['parity'], info['mask'], float(p) in (0.0, 1.0, 0.5)))
    try:
        r = dadi.Numerics.apply_anc_state_misid(fs, p)
    except Exception as e:
        chk.fail('misid:raises:%s' % type(e).__name__, 'apply_anc_state_misid raises %r' % (e,), inp); return
    survives(chk, 'misid:mutates-input', 'apply_anc_state_misid(fs, p)', inp, [('fs', fs, st_fs)])
    exp = (1 - float(p)) * x + float(p) * mirror_nd(x)
    tol = 1e-9 * max(1.0, np.abs(x).max() if x.size else 1.0)
    if np.abs(r.data - exp).max() > tol:
        chk.fail('misid:convex-mix', 'misid data is not (1-p)*x + p*mirror(x) (max diff %.3g)' % np.abs(r.data - exp).max(), inp)
    if not np.array_equal(np.ma.getmaskarray(r), m | mirror_nd(m)):
        chk.fail('misid:mask', 'misid mask is not mask | mirror(mask)', inp)
    if abs(r.data.sum() - x.sum()) > 1e-9 * max(1.0, np.abs(x).sum()):
        chk.fail('misid:total', 'misid changes the total %r -> %r' % (float(x.sum()), float(r.data.sum())), inp)
    if getattr(r, 'folded', None) is not False or r.pop_ids != fs.pop_ids:
        chk.fail('misid:attrs', 'misid result folded=%r pop_ids=%r' % (getattr(r, 'folded', None), r.pop_ids), inp)
    a = fs.copy(); alias_check(chk, 'misid', 'apply_anc_state_misid', inp, dadi.Numerics.apply_anc_state_misid(a, p), [('fs', a)])
    if float(p) == 0.0 and np.abs(r.data - x).max() > 0:
        chk.fail('misid:p0', 'p=0 is not the identity', inp)
    if float(p) == 1.0 and np.abs(r.data - mirror_nd(x)).max() > 0:
        chk.fail('misid:p1', 'p=1 is not the mirror', inp)

# ------------------------------------------------------------------ aliasing between inputs and outputs
def _arrs(o):
    """(data ndarray, mask ndarray or None) of an array-like operand; None for scalars"""
    if np.ndim(o) == 0:
        return None
    if isinstance(o, np.ma.MaskedArray):
        m = np.ma.getmask(o)
        return np.asarray(o.data), (None if m is np.ma.nomask else m)
    return np.asarray(o), None

def _snap(o):
    d, m = _arrs(o)
    return d.copy(), (np.ma.getmaskarray(o).copy() if isinstance(o, np.ma.MaskedArray) else None)

def _same_as(o, sn):
    d, _ = _arrs(o)
    if not np.array_equal(d, sn[0], equal_nan=True): return False
    if sn[1] is not None and not np.array_equal(np.ma.getmaskarray(o), sn[1]): return False
    return True

def own_copy(o):
    if isinstance(o, np.ndarray): return o.copy()          # Spectrum / masked_array / ndarray: data and mask copied
    return o

def alias_check(chk, key, what, inp, result, operands, new_object=True):
    """`result` was just computed from `operands` (list of (label, object); the caller passes private copies).
    (a) a result documented as a new object shares no memory (data or mask) with any operand;
    (b) masking / writing entries of the result afterwards leaves every operand as it was, and
    (c) masking / writing entries of an operand afterwards leaves the result as it was."""
    if not isinstance(result, np.ndarray) or np.ndim(result) == 0 or result.size == 0:
        return
    ops = [(lab, o) for lab, o in operands if _arrs(o) is not None]
    chk.l3(('alias', key))
    rd, rm = _arrs(result)
    if new_object:
        for lab, o in ops:
            od, om = _arrs(o)
            for rn, ra in (('data', rd), ('mask', rm)):
                for on, oa in (('data', od), ('mask', om)):
                    if ra is not None and oa is not None and np.shares_memory(ra, oa):
                        chk.fail('%s:alias:%s-%s' % (key, rn, on), '%s: the result\'s %s shares memory with the %s of operand `%s`'
                                 % (what, rn, on, lab), inp)
    snaps = [(lab, o, _snap(o)) for lab, o in ops]
    cell = tuple(int(s // 2) for s in result.shape)
    ways = [('mask[cell]=True', lambda r: r.mask.__setitem__(cell, True)),
            ('r[cell]=masked', lambda r: r.__setitem__(cell, np.ma.masked)),
            ('mask_corners()', lambda r: r.mask_corners()),
            ('mask[...]=~mask', lambda r: r.mask.__setitem__(Ellipsis, ~np.ma.getmaskarray(r))),
            ('data[...]+=1', lambda r: r.data.__iadd__(1.0))]
    if not isinstance(result, np.ma.MaskedArray) or np.ma.getmask(result) is np.ma.nomask:
        ways = ways[-1:]
    for wn, w in ways:
        if wn == 'mask_corners()' and not hasattr(result, 'mask_corners'): continue
        try:
            w(result)
        except Exception as e:
            chk.fail('%s:alias:mutation-raises:%s' % (key, type(e).__name__), '%s: %s on the result raises %r' % (what, wn, e), inp); return
        for lab, o, sn in snaps:
            if not _same_as(o, sn):
                chk.fail('%s:alias:result-to-operand' % key, '%s: `%s` on the result changed operand `%s` (%d -> %d masked cells)'
                         % (what, wn, lab, int(sn[1].sum()) if sn[1] is not None else -1,
                            int(np.ma.getmaskarray(o).sum()) if isinstance(o, np.ma.MaskedArray) else -1), inp)
                return
    rs = _snap(result)
    for lab, o in ops:
        try:
            if isinstance(o, np.ma.MaskedArray) and np.ma.getmask(o) is not np.ma.nomask:
                o.mask[...] = ~np.ma.getmaskarray(o)
            d, _ = _arrs(o); d += 1.0
        except Exception:
            continue
        if not _same_as(result, rs):
            chk.fail('%s:alias:operand-to-result' % key, '%s: modifying operand `%s` afterwards changed the result' % (what, lab), inp)
            return


def np_result(opname, reflected, a, b):
    f = NPOP[opname]
    with np.errstate(all='ignore'):
        return f(b, a) if reflected else f(a, b)

def method_parts(name):
    core = name.strip('_')
    inplace = core.startswith('i') and core not in ()
    refl = core.startswith('r') and core != 'r'
    base = core[1:] if (inplace or refl) else core
    return base, refl, inplace

def l3_arith(chk, ctx, name, fs, other, okind, info):
    """operator syntax on the real objects; the property: refused iff both Spectra with different folding, else
    data pointwise, mask = or, folded and pop_ids survive"""
    base, refl, inplace = method_parts(name)
    if name not in SYNTAX:
        return
    op, swapped = SYNTAX[name]
    inp = dict(method=name, fs=describe(fs), other_kind=okind,
               other=describe(other) if okind == 'S' else (dict(data=np.asarray(getattr(other, 'data', other), dtype=float),
                      mask=np.ma.getmaskarray(other).astype(int)) if okind in 'MP' else float(other)))
    chk.l3(('arith', name, okind, info['d'], bool(fs.folded), okind == 'S' and bool(other.folded) != bool(fs.folded)))
    x0 = np.array(fs.data, dtype=float); m0 = np.ma.getmaskarray(fs).copy()
    st_self, st_other = state(fs), state(other)
    mismatch = okind == 'S' and bool(other.folded) != bool(fs.folded)
    target = fs.copy() if inplace else fs
    st_target = state(target)
    try:
        with np.errstate(all='ignore'):
            r = op(other, target) if swapped else op(target, other)
        raised = None
    except Exception as e:
        raised = e
    if mismatch:
        if raised is None:
            chk.fail('arith:%s:not-refused' % name, '%s between a folded and an unfolded Spectrum is accepted' % name, inp)
        elif not isinstance(raised, ValueError):
            chk.fail('arith:%s:refusal:%s' % (name, type(raised).__name__), 'refusal raises %r' % (raised,), inp)
        survives(chk, 'arith:%s:refused-but-modified' % name, 'refused %s' % name, inp,
                 [('self', target, st_target), ('other', other, st_other)])
        return
    if raised is not None:
        chk.fail('arith:%s:raises:%s' % (name, type(raised).__name__), '%s raises %r' % (name, raised), inp); return
    if inplace and r is not target:
        chk.fail('arith:%s:not-inplace' % name, 'in-place operator returned a different object', inp)
    od = np.asarray(other.data if okind in 'SM' else other, dtype=float)
    om = np.ma.getmaskarray(other) if okind in 'SM' else np.zeros(fs.shape, dtype=bool)
    exp = np_result(base, refl, x0, od)
    fin = np.isfinite(exp)
    if not type(r).__name__ == 'Spectrum':
        chk.fail('arith:%s:type' % name, 'result is %s, not Spectrum' % type(r).__name__, inp); return
    if r.folded is not fs.folded and r.folded != fs.folded:
        chk.fail('arith:%s:folded' % name, 'folded status %r -> %r' % (fs.folded, r.folded), inp)
    if not np.array_equal(np.ma.getmaskarray(r), m0 | om):
        rm_ = np.ma.getmaskarray(r); k_ = np.argwhere(rm_ != (m0 | om))
        chk.fail('arith:%s:mask' % name, 'mask is not the union of the operand masks (%d masked entries, union has %d; first difference at %s)'
                 % (int(rm_.sum()), int((m0 | om).sum()), k_[0].tolist()), inp)
    if fin.any():
        sc = max(1.0, np.abs(exp[fin]).max())
        if np.abs(np.asarray(r.data)[fin] - exp[fin]).max() > 1e-9 * sc:
            chk.fail('arith:%s:data' % name, 'data is not the pointwise result on the operands\' data', inp)
    # a binary operator and its in-place twin (`a + b` / `a += b`) give the same data, mask and folding status
    twin = '__i%s__' % base
    if not inplace and not refl and twin in SYNTAX:
        chk.l3(('arith-twin', name, okind, bool(fs.folded)))
        t = fs.copy()
        try:
            with np.errstate(all='ignore'):
                rt = SYNTAX[twin][0](t, other)
        except Exception as e:
            chk.fail('arith:%s:inplace-twin:raises:%s' % (name, type(e).__name__), '%s works but %s raises %r' % (name, twin, e), inp); rt = None
        if rt is not None:
            if not np.array_equal(np.ma.getmaskarray(rt), np.ma.getmaskarray(r)):
                k = np.argwhere(np.ma.getmaskarray(rt) != np.ma.getmaskarray(r))
                chk.fail('arith:%s:inplace-twin:mask' % name, '%s and %s give different masks (%d vs %d masked entries, first difference at %s)'
                         % (name, twin, int(np.ma.getmaskarray(r).sum()), int(np.ma.getmaskarray(rt).sum()), k[0].tolist()), inp)
            elif fin.any() and np.abs(np.asarray(rt.data)[fin] - np.asarray(r.data)[fin]).max() > 1e-9 * max(1.0, np.abs(exp[fin]).max()):
                chk.fail('arith:%s:inplace-twin:data' % name, '%s and %s give different data' % (name, twin), inp)
            if rt.folded is not r.folded and rt.folded != r.folded:
                chk.fail('arith:%s:inplace-twin:folded' % name, '%s gives folded=%r, %s folded=%r' % (name, r.folded, twin, rt.folded), inp)
    # labels: those of the operand whose method runs (the left Spectrum), else the other's
    first, second = (other, fs) if (swapped and okind == 'S') else (fs, other if okind == 'S' else None)
    want_ids = first.pop_ids if first.pop_ids is not None else (second.pop_ids if second is not None else None)
    if inplace:
        want_ids = fs.pop_ids          # in place: self keeps exactly its own labels (also when it has none)
    if r.pop_ids != want_ids:
        chk.fail('arith:%s:pop_ids' % name, 'pop_ids %r, expected %r' % (r.pop_ids, want_ids), inp)
    # operands: everything but the in-place target is as it was (data under the mask, mask, folded, labels)
    survives(chk, 'arith:%s:mutates-input' % name, name, inp, [('self', fs, st_self)])
    survives(chk, 'arith:%s:mutates-other' % name, name, inp, [('other', other, st_other)])
    # aliasing: recompute on private copies, then mutate result / operands
    a = fs.copy(); b = own_copy(other)
    try:
        with np.errstate(all='ignore'):
            r2 = op(b, a) if swapped else op(a, b)
    except Exception:
        return
    if inplace:
        # `a` itself is returned; the *other* operand must stay independent of it
        alias_check(chk, 'arith:%s' % name, '%s with a %s operand' % (name, {'S': 'Spectrum', 'M': 'masked_array', 'P': 'ndarray', 'C': 'scalar'}[okind]),
                    inp, r2, [('other', b)], new_object=True)
    else:
        alias_check(chk, 'arith:%s' % name, '%s with a %s operand' % (name, {'S': 'Spectrum', 'M': 'masked_array', 'P': 'ndarray', 'C': 'scalar'}[okind]),
                    inp, r2, [('self', a), ('other', b)], new_object=True)

def l3_unary(chk, ctx, fs, info):
    inp = describe(fs)
    st_fs = state(fs)
    for nm, g in (('neg', operator.neg), ('pos', operator.pos), ('abs', abs), ('copy', lambda s: s.copy()),
                  ('deepcopy', copy.deepcopy), ('view', lambda s: s.view()), ('log', lambda s: s.log())):
        chk.l3(('unary', nm, info['d'], bool(fs.folded)))
        try:
            with np.errstate(all='ignore'):
                r = g(fs)
        except Exception as e:
            chk.fail('unary:%s:raises:%s' % (nm, type(e).__name__), '%s raises %r' % (nm, e), inp); continue
        survives(chk, 'unary:%s:mutates-input' % nm, nm, inp, [('fs', fs, st_fs)])
        if getattr(r, 'folded', None) != fs.folded or getattr(r, 'pop_ids', None) != fs.pop_ids:
            chk.fail('unary:%s:attrs' % nm, '%s: folded %r->%r pop_ids %r->%r' % (nm, fs.folded, getattr(r, 'folded', None), fs.pop_ids, getattr(r, 'pop_ids', None)), inp)
        rm = np.ma.getmaskarray(r); m = np.ma.getmaskarray(fs)
        if (nm != 'log' and not np.array_equal(rm, m)) or (nm == 'log' and (m & ~rm).any()):
            chk.fail('unary:%s:mask' % nm, '%s loses mask entries' % nm, inp)
        elif nm == 'log':
            # the mask SURVIVES log(): exactly the operand's mask plus the entries where the logarithm does not exist (x <= 0, which
            # numpy.ma.log masks) — nothing else (corners, entries beyond the fold, … stay as the operand has them)
            xd = np.asarray(fs.data, dtype=float)
            want = m | ~(xd > 0) | ~np.isfinite(xd)
            chk.l3(('unary-log-exact', info['d'], bool(fs.folded), bool(m.flat[0]) if m.size else None, bool(m.flat[-1]) if m.size else None))
            if not np.array_equal(rm, want):
                k = np.argwhere(rm != want)
                chk.fail('unary:log:mask-exact', 'log(): %d entries are masked in the result although they are unmasked in the operand and '
                         'positive (first at %s; %d masked in the operand, %d in the result)'
                         % (int((rm & ~want).sum()), k[0].tolist(), int(m.sum()), int(rm.sum())), inp)
        if nm in ('copy', 'deepcopy', 'log'):
            # (-fs, +fs, abs(fs) go through numpy.ma's unary ufunc wrapper, which hands the operand's mask buffer to the
            #  result by design of numpy.ma — observed on the unchanged tree, not dadi code, not checked here)
            a = fs.copy()
            with np.errstate(all='ignore'):
                alias_check(chk, 'unary:%s' % nm, nm, inp, g(a), [('self', a)])

def gen_index(rng, shape):
    """a basic index: per axis a slice (any sign of step) or an integer; at least one slice is kept"""
    idx = []; desc = []
    keep = int(rng.integers(len(shape)))
    for ax, n in enumerate(shape):
        if ax != keep and rng.random() < 0.25:
            k = int(rng.integers(-n, n)); idx.append(k); desc.append('@%d' % (k % n))
        else:
            r = rng.random()
            if r < 0.3: s = slice(None)
            elif r < 0.5: s = slice(None, None, -1)
            else:
                a = None if rng.random() < 0.3 else int(rng.integers(-n, n + 1))
                b = None if rng.random() < 0.3 else int(rng.integers(-n, n + 1))
                st = int(rng.choice([1, 1, 2, -1, -2, 3]))
                s = slice(a, b, st)
            start, stop, step = s.indices(n)
            cnt = len(range(start, stop, step))
            idx.append(s); desc.append('%d:%d:%d' % (start if cnt else 0, cnt, step))
    return tuple(idx), ';'.join(desc)

def l3_slice(chk, ctx, fs, idx, info):
    inp = dict(fs=describe(fs), index=repr(idx))
    chk.l3(('slice', info['d'], bool(fs.folded), sum(isinstance(i, int) for i in idx)))
    st_fs = state(fs)
    try:
        r = fs[idx]
    except Exception as e:
        chk.fail('slice:raises:%s' % type(e).__name__, 'fs[%r] raises %r' % (idx, e), inp); return None
    survives(chk, 'slice:mutates-input', 'fs[%r]' % (idx,), inp, [('fs', fs, st_fs)])
    if getattr(r, 'folded', None) != fs.folded:
        chk.fail('slice:folded', 'slicing: folded %r -> %r' % (fs.folded, getattr(r, 'folded', None)), inp)
    if getattr(r, 'pop_ids', None) != fs.pop_ids:
        chk.fail('slice:pop_ids', 'slicing: pop_ids %r -> %r' % (fs.pop_ids, getattr(r, 'pop_ids', None)), inp)
    if not np.array_equal(np.ma.getmaskarray(r), np.ma.getmaskarray(fs)[idx]) or not np.array_equal(np.asarray(r.data), np.asarray(fs.data)[idx]):
        chk.fail('slice:content', 'slicing: data/mask are not the sliced data/mask', inp)
    return r

LL_FUNCS = ['ll', 'll_multinom', 'optimal_sfs_scaling', 'll_per_bin', 'linear_Poisson_residual', 'Anscombe_Poisson_residual',
            'll_multinom_per_bin', 'optimally_scaled_sfs', 'minus_ll', 'minus_ll_multinom',
            'linear_Poisson_residual[mask=1]', 'Anscombe_Poisson_residual[mask=1]']
LL_PER_BIN = ('ll_per_bin', 'll_multinom_per_bin', 'linear_Poisson_residual', 'Anscombe_Poisson_residual',
              'linear_Poisson_residual[mask=1]', 'Anscombe_Poisson_residual[mask=1]')
# masks of the MODEL: everything but 'all'; most of them are not mirror-symmetric (untrusted singletons of one population, a
# masked slab, one corner, …) — with a symmetric mask (the default corners) folding cannot be told from symmetrising in place
MODEL_MASKS = ['corners', 'none', 'random10', 'single', 'one-corner', 'slab', 'symmetric', 'random50', 'random10', 'single']
DATA_MASKS = ['corners', 'random10', 'symmetric', 'single', 'slab']

def ll_func(I, nm):
    base = nm.split('[')[0]
    f = getattr(I, base)
    if nm.endswith('[mask=1]'):
        return lambda model, data: f(model, data, mask=1.0)
    return f

def gen_likelihood_case(rng, dadi, d, tier):
    """(model, unfolded data, folded data, info) with at least one entry that is unmasked in model and data, folded and
    unfolded; None if 30 draws were all degenerate (tiny shapes)"""
    for attempt in range(30):
        shape = gen_shape(rng, d, tier)
        ids = gen_ids(rng, d)
        mmk = MODEL_MASKS[int(rng.integers(len(MODEL_MASKS)))]
        mm, _ = gen_mask(rng, shape, mmk)
        dmk = DATA_MASKS[int(rng.integers(len(DATA_MASKS)))]
        dm, _ = gen_mask(rng, shape, dmk)
        dm.flat[0] = dm.flat[-1] = True
        mdata = rng.uniform(0.5, 5, shape)
        _, fm = oracle_fold(mdata, mm)
        ddata = rng.poisson(3.0, shape).astype(float)
        _, fd = oracle_fold(ddata, dm)
        extra = rng.random() < 0.4
        if extra:
            fd = fd | gen_mask(rng, shape, 'random10')[0]
        if not (~(fm | fd)).any() or not (~(mm | dm)).any():
            continue
        model = dadi.Spectrum(mdata, mask=mm, mask_corners=False, pop_ids=ids)
        data_u = dadi.Spectrum(ddata, mask=dm, mask_corners=False, pop_ids=ids)
        data_f = data_u.copy().fold()
        if extra:
            data_f.mask = fd
        return model, data_u, data_f, dict(d=d, model_mask=mmk, data_mask=dmk, model_mask_symmetric=is_symmetric(mm),
                                           data_extra=extra)
    return None

def l3_likelihood(chk, ctx, rng, d, tier):
    case = gen_likelihood_case(rng, ctx['dadi'], d, tier)
    if case is None:
        chk.stat('l3:ll:skipped-all-masked'); return
    model, data_u, data_f, info = case
    chk.stat('l3:ll:model-mask:' + info['model_mask']); chk.stat('l3:ll:data-mask:' + info['data_mask'])
    chk.stat('l3:ll:model-mask-' + ('symmetric' if info['model_mask_symmetric'] else 'asymmetric'))
    l3_likelihood_case(chk, ctx, model, data_u, data_f, info)

def _val_same(a, b, exact):
    if not np.array_equal(np.ma.getmaskarray(a), np.ma.getmaskarray(b)): return False
    aa = np.ma.filled(np.ma.asarray(a, dtype=float), 0.0); bb = np.ma.filled(np.ma.asarray(b, dtype=float), 0.0)
    if exact: return bool(np.array_equal(aa, bb, equal_nan=True))
    return bool(np.allclose(aa, bb, rtol=1e-12, atol=1e-12, equal_nan=True))

def l3_likelihood_case(chk, ctx, model, data_u, data_f, info):
    """a folded data set against an unfolded model = against the folded model; model and data (data under the mask, mask,
    folded flag, labels) are what they were after every evaluation; a second evaluation reproduces the first, also against
    unfolded data after an evaluation against folded data"""
    dadi = ctx['dadi']; I = dadi.Inference
    d = model.ndim; mk = (info.get('model_mask'), info.get('data_mask'))
    st_model, st_du, st_df = state(model), state(data_u), state(data_f)
    inp = dict(model=describe(model), data=describe(data_f), data_unfolded=describe(data_u))
    mf0 = restore(dadi, st_model).fold()          # from a private copy of the model
    st_mf = state(mf0)
    def fresh():
        return restore(dadi, st_model), restore(dadi, st_du), restore(dadi, st_df), restore(dadi, st_mf)
    def call(f, mod, dat):
        with np.errstate(all='ignore'), contextlib.redirect_stdout(io.StringIO()):
            return f(mod, dat)
    # (a) the decision, straight from the property text: the model is folded iff the data is folded and the model is not
    S = dadi.Spectrum; orig_fold = S.fold; calls = []
    def spy(self):
        calls.append(bool(self.folded)); return orig_fold(self)
    for nm in LL_FUNCS:
        f = ll_func(I, nm)
        model, data_u, data_f, mf = fresh()
        for dat, dn in ((data_f, 'folded'), (data_u, 'unfolded')):
            for mod, mn in ((model, 'unfolded'), (mf, 'folded')):
                del calls[:]
                S.fold = spy
                try:
                    call(f, mod, dat)
                except ValueError:
                    pass        # folded model against unfolded data is refused by the arithmetic guard
                except Exception as e:
                    chk.fail('ll:%s:raises:%s' % (nm, type(e).__name__), '%s(%s model, %s data) raises %r' % (nm, mn, dn, e), inp)
                finally:
                    S.fold = orig_fold
                want = (dn == 'folded' and mn == 'unfolded')     # composite functions (ll_multinom) may fold more than once
                chk.l3(('ll-decision', nm, dn, mn))
                if bool(calls) != want or any(calls):
                    chk.fail('ll:%s:autofold-decision' % nm, '%s(%s model, %s data): model.fold() called %d time(s), expected %s'
                             % (nm, mn, dn, len(calls), 'at least once' if want else 'never'),
                             dict(inp, data_folded=(dn == 'folded'), model_folded=(mn == 'folded')))
    # (b) values written out: Poisson ll, optimal scaling and the multinomial ll over the jointly unmasked entries
    from scipy.special import gammaln
    model, data_u, data_f, mf = fresh()
    for dat, mod_eff in ((data_f, mf), (data_u, model)):
        keep = ~(np.ma.getmaskarray(dat) | np.ma.getmaskarray(mod_eff))
        if not keep.any(): continue
        mm = np.asarray(mod_eff.data)[keep]; dd = np.asarray(dat.data)[keep]
        want_ll = float(np.sum(-mm + dd * np.log(mm) - gammaln(dd + 1.)))
        want_sc = float(dd.sum() / mm.sum())
        with np.errstate(all='ignore'):
            want_mn = float(np.sum(-want_sc * mm + dd * np.log(want_sc * mm) - gammaln(dd + 1.)))
        try:
            m1 = restore(dadi, st_model)
            got_ll = float(call(I.ll, m1, dat)); got_sc = float(call(I.optimal_sfs_scaling, m1, dat))
            got_mn = float(call(I.ll_multinom, m1, dat))
        except Exception as e:
            chk.fail('ll:value:raises:%s' % type(e).__name__, 'll/optimal_sfs_scaling raises %r' % (e,), inp); continue
        chk.l3(('ll-value', d, bool(dat.folded)))
        fo = 'folded' if dat.folded else 'unfolded'
        if abs(got_ll - want_ll) > 1e-9 * max(1.0, abs(want_ll)):
            chk.fail('ll:value', 'll(model, %s data) = %r, direct sum over jointly unmasked entries of the %s model gives %r'
                     % (fo, got_ll, fo, want_ll), inp)
        if abs(got_sc - want_sc) > 1e-9 * max(1.0, abs(want_sc)):
            chk.fail('ll:scaling', 'optimal_sfs_scaling(model, %s data) = %r, expected %r' % (fo, got_sc, want_sc), inp)
        if want_sc > 0 and np.isfinite(want_mn) and abs(got_mn - want_mn) > 1e-9 * max(1.0, abs(want_mn)):
            chk.fail('ll:multinom-value', 'll_multinom(model, %s data) = %r, direct sum with the optimally scaled %s model gives %r'
                     % (fo, got_mn, fo, want_mn), inp)
    # (c) per function, on fresh objects: automatic folding = explicit folding, arguments survive, evaluations are reproducible
    for nm in LL_FUNCS:
        f = ll_func(I, nm)
        chk.l3(('ll', nm, d, mk))
        model, data_u, data_f, mf = fresh()
        steps = []
        def ev(tag, mod, dat, items):
            """one evaluation, then every object handed in so far must be as it was"""
            r = call(f, mod, dat)
            steps.append(tag)
            survives(chk, 'll:%s:mutates' % nm, '%s (after: %s)' % (nm, ', then '.join(steps)), inp, items)
            return r
        every = [('model', model, st_model), ('folded data', data_f, st_df), ('unfolded data', data_u, st_du), ('model.fold()', mf, st_mf)]
        try:
            c0 = ev('f(model, unfolded data)', model, data_u, every)
            a = ev('f(model, folded data)', model, data_f, every)              # automatic folding
            b = ev('f(model.fold(), folded data)', mf, data_f, every)          # already folded: must not fold again (would raise)
            a2 = ev('f(model, folded data)', model, data_f, every)
            c = ev('f(model, unfolded data)', model, data_u, every)            # unfolded data: no folding
        except Exception as e:
            chk.fail('ll:%s:raises:%s' % (nm, type(e).__name__), '%s raises %r' % (nm, e), inp); continue
        if nm != 'optimally_scaled_sfs' and not _val_same(a, b, exact=False):
            chk.fail('ll:%s:autofold' % nm, '%s(model, folded data) != %s(model.fold(), folded data)' % (nm, nm), inp)
        if not _val_same(a, a2, exact=True):
            chk.fail('ll:%s:not-reproducible' % nm, '%s(model, folded data) evaluated twice on the same objects gives different results' % nm, inp)
        if not _val_same(c0, c, exact=True):
            chk.fail('ll:%s:not-reproducible' % nm, '%s(model, unfolded data) differs before / after the same model was evaluated against '
                     'folded data' % nm, inp)
        if isinstance(a, np.ndarray) and np.ndim(a) > 0:
            ma_, _, da_, _ = fresh()
            alias_check(chk, 'll:%s' % nm, nm, inp, call(f, ma_, da_), [('model', ma_), ('data', da_)])
        if nm in LL_PER_BIN and hasattr(a, 'folded') and np.ndim(a) > 0:
            if a.folded is not True:
                chk.fail('ll:%s:result-folded' % nm, 'per-bin result against folded data has folded=%r' % (a.folded,), inp)
            if hasattr(c, 'folded') and c.folded is not False:
                chk.fail('ll:%s:result-unfolded' % nm, 'per-bin result against unfolded data has folded=%r' % (c.folded,), inp)


# ------------------------------------------------------------------ unary operations, subclass hooks (K)
UNARY_OPS = [('neg', operator.neg), ('pos', operator.pos), ('abs', abs), ('copy', lambda s_: s_.copy()), ('deepcopy', copy.deepcopy),
             ('view', lambda s_: s_.view()), ('log', lambda s_: s_.log())]

def k_unary(chk, dadi, fs, driver):
    """-fs, +fs, abs(fs), copy, deepcopy, view, log: implementation vs `unarySpec` (attributes through the generated hook rules,
    data on every entry, mask).  `log`: the logarithm is not rational — mask, flags, labels and the data of the masked entries
    (which numpy.ma leaves at their input value) are compared"""
    for nm, g in UNARY_OPS:
        a = restore(dadi, state(fs))
        op = 'unary:' + nm
        try:
            with np.errstate(all='ignore'):
                r = g(a)
        except Exception as e:
            chk.k_bad(op, describe(fs), 'raises %s' % type(e).__name__, None, None); continue
        kind, val = ask(driver, 'c09.unary %s %s' % (nm, fs_toks(fs)))
        if kind == 'err':
            # the model has no proper folding status for the result ('unspecified'): the implementation must not have one either
            if getattr(r, 'folded', None) in (True, False):
                chk.k_bad(op, describe(fs), describe(r), 'err ' + str(val), None)
            else:
                chk.k_skipped += 1; chk.stat('k:skipped:' + str(val))
            continue
        if kind != 'ok' or not isinstance(val, dict):
            chk.k_bad(op, describe(fs), describe(r), val, None); continue
        if nm == 'log':
            rm = np.ma.getmaskarray(r)
            ok = tuple(r.shape) == tuple(val['shape']) and np.array_equal(rm, val['mask']) and r.folded is not None \
                and getattr(r, 'folded', None) in (True, False) and bool(r.folded) == val['folded'] and r.pop_ids == val['pop_ids'] \
                and np.array_equal(np.asarray(r.data)[rm], val['data'][rm])
            why = '' if ok else 'log: shape/mask/folded/pop_ids/data-under-mask differ'
        else:
            ok, why = same_spec(r, val)
        if ok: chk.k_ok(op)
        else: chk.k_bad(op, describe(fs), describe(r), why, None)

HOOK_CASES = [('slice', 'fs[1:, ...]', lambda s_: s_[1:]), ('slice', 'fs[::-1]', lambda s_: s_[::-1]), ('slice', 'fs[0]', lambda s_: s_[0]),
              ('slice', 'reverse_array(fs)', None),
              ('ufunc', '-fs', operator.neg), ('ufunc', '+fs', operator.pos), ('ufunc', 'abs(fs)', abs),
              ('copy', 'fs.copy()', lambda s_: s_.copy()), ('deepcopy', 'copy.deepcopy(fs)', copy.deepcopy),
              ('view', 'fs.view()', lambda s_: s_.view()), ('log', 'fs.log()', lambda s_: s_.log())]

def k_hooks(chk, ctx, rng):
    """the order in which numpy / numpy.ma call `__array_finalize__`, `_update_from`, `__array_wrap__` (and `log`) on the real class
    — recorded when each call RETURNS, i.e. in the order of the hooks' own attribute assignments — against the model's `hooksOf`"""
    dadi = ctx['dadi']; driver = ctx['driver']
    S = dadi.Spectrum
    trace = []
    saved = {}
    def spy(name, tag):
        orig = S.__dict__[name]; saved[name] = orig
        def w(self, *a, **k):
            obj = a[0] if a else None
            r = orig(self, *a, **k)
            if tag in ('fin', 'upd'):
                trace.append('%s(%s)' % (tag, 'S' if isinstance(obj, S) else ('M' if isinstance(obj, np.ma.MaskedArray) else
                                               ('A' if isinstance(obj, np.ndarray) else 'None'))))
            else:
                trace.append(tag)
            return r
        w.__name__ = name
        setattr(S, name, w)
    try:
        for name, tag in (('__array_finalize__', 'fin'), ('_update_from', 'upd'), ('__array_wrap__', 'wrap'), ('log', 'log')):
            spy(name, tag)
        for kindname, what, g in HOOK_CASES:
            for folded in (False, True):
                shape = gen_shape(rng, int(rng.integers(2 if what == 'fs[0]' else 1, 4)), 'quick')
                data, _ = gen_data(rng, shape, 'float'); mask, _ = gen_mask(rng, shape)
                fs = S(data + 0.5, mask=mask, mask_corners=False, data_folded=folded, check_folding=False, pop_ids=gen_ids(rng, len(shape)))
                if g is None: g_ = dadi.Numerics.reverse_array
                else: g_ = g
                del trace[:]
                try:
                    with np.errstate(all='ignore'):
                        r = g_(fs)
                    got = ','.join(trace)
                except Exception as e:
                    got = 'raises ' + type(e).__name__; r = None
                del trace[:]
                kind, val = ask(driver, 'c09.hooks ' + kindname)
                want = val[0] if kind == 'ok' and val else repr(val)
                op = 'hooks:' + kindname
                if got == want: chk.k_ok(op)
                else: chk.k_bad(op, dict(operation=what, folded=folded, shape=list(shape)), got, want, None)
    finally:
        for name, orig in saved.items():
            setattr(S, name, orig)

def k_inplace_self(chk, op, name, fs, tgt, other, okind, inp, driver):
    """`tgt` (a copy of `fs`) has just been through `tgt.<name>(other)` — returned or raised; the model's `inplaceSelfAfter` runs the
    translated statement list of the in-place template up to the same point"""
    kind, val = ask(driver, 'c09.inplaceself %s %s %s' % (name, fs_toks(fs), operand_toks(other, okind)))
    if kind == 'err':
        chk.k_skipped += 1; chk.stat('k:skipped:' + str(val)); return
    if kind != 'ok' or not isinstance(val, dict):
        chk.k_bad(op, inp, describe(tgt), val, None); return
    ok, why = same_spec(tgt, val)
    if ok: chk.k_ok(op)
    else: chk.k_bad(op, inp, describe(tgt), 'self afterwards: ' + why, None)

def l3_misid_algebra(chk, ctx, fs, p, q, info):
    """composition, mirror symmetry and symmetrisation of the misidentification model, on the implementation"""
    dadi = ctx['dadi']; misid = dadi.Numerics.apply_anc_state_misid
    inp = dict(fs=describe(fs), p=float(p), q=float(q))
    x = np.array(fs.data, dtype=float, copy=True); m = np.ma.getmaskarray(fs).copy()
    tol = 1e-9 * max(1.0, np.abs(x).max() if x.size else 1.0)
    chk.l3(('misid-algebra', info['d'], info['parity'], is_symmetric(m), float(p) in (0.0, 1.0, 0.5), float(q) in (0.0, 1.0, 0.5)))
    st_fs = state(fs)
    try:
        a = misid(misid(fs, p), q)
        r = float(p) + float(q) - 2 * float(p) * float(q)
        b = misid(fs, r)
        c = misid(dadi.Numerics.reverse_array(fs), p)
        d = misid(fs, 1 - float(p))
        h = misid(fs, 0.5)
        z = misid(fs, 0.0)
    except Exception as e:
        chk.fail('misid:algebra:raises:%s' % type(e).__name__, 'apply_anc_state_misid raises %r' % (e,), inp); return
    survives(chk, 'misid:mutates-input', 'apply_anc_state_misid (composition / mirror / p = 1/2)', inp, [('fs', fs, st_fs)])
    def same(u, v):
        return np.abs(np.asarray(u.data) - np.asarray(v.data)).max() <= tol and np.array_equal(np.ma.getmaskarray(u), np.ma.getmaskarray(v)) \
            and u.folded == v.folded and u.pop_ids == v.pop_ids
    if not same(a, b):
        chk.fail('misid:compose', 'misid(misid(fs, p), q) != misid(fs, p + q - 2pq)', inp)
    if not same(c, d):
        chk.fail('misid:mirror', 'misid(reverse_array(fs), p) != misid(fs, 1 - p)', inp)
    hd = np.asarray(h.data); hm = np.ma.getmaskarray(h)
    if np.abs(hd - mirror_nd(hd)).max() > tol or np.abs(hd - 0.5 * (x + mirror_nd(x))).max() > tol or not np.array_equal(hm, mirror_nd(hm)):
        chk.fail('misid:half', 'misid(fs, 1/2) is not the mirror-symmetric average (x + mirror x)/2 with a mirror-symmetric mask', inp)
    # a mask that is not mirror-symmetric: the mirror of every masked entry is masked in the result, for every p (also p = 0)
    zm = np.ma.getmaskarray(z)
    if not np.array_equal(zm, m | mirror_nd(m)) or np.abs(np.asarray(z.data) - x).max() > 0:
        chk.fail('misid:p0-mask', 'misid(fs, 0): data must be unchanged and the mask must be mask | mirror(mask) (%d vs %d masked entries)'
                 % (int(zm.sum()), int((m | mirror_nd(m)).sum())), inp)
    if not fs.folded and not m.all():
        try:
            u = fs.fold().unfold()
            if np.abs(np.asarray(u.data) - hd).max() > tol:
                chk.fail('misid:half-unfold-fold', 'misid(fs, 1/2) data != unfold(fold(fs)) data', inp)
            c_ = np.zeros(fs.shape, dtype=bool); c_.flat[0] = c_.flat[-1] = True
            if not np.array_equal(np.ma.getmaskarray(u), hm | c_):
                chk.fail('misid:half-unfold-fold-mask', 'mask of unfold(fold(fs)) != mask of misid(fs, 1/2) plus corners', inp)
        except Exception as e:
            chk.fail('misid:half:raises:%s' % type(e).__name__, 'fold/unfold raises %r' % (e,), inp)

# ------------------------------------------------------------------ K cases
def k_compare(chk, op, inp, impl_call, line, driver, rtol=1e-9):
    """run the implementation and the model; agree on result or on the raised exception"""
    try:
        with np.errstate(all='ignore'):
            impl = impl_call()
        raised = None
    except Exception as e:
        impl = None; raised = type(e).__name__
    kind, val = ask(driver, line)
    if kind == 'err':
        chk.k_skipped += 1; chk.stat('k:skipped:' + val); return None
    if kind == 'bad':
        chk.k_bad(op, inp, None if impl is None else describe(impl), val, None); return None
    if kind == 'raise' or raised is not None:
        if kind == 'raise' and raised == val:
            chk.k_ok(op); chk.stat('k:raise-agree')
        else:
            chk.k_bad(op, inp, 'raises ' + str(raised) if raised else describe(impl), ('raise ' + val) if kind == 'raise' else 'ok', None)
        return None
    ok, why = same_spec(impl, val, rtol)
    if ok: chk.k_ok(op)
    else: chk.k_bad(op, inp, describe(impl), why, None)
    return impl

def k_self_after(chk, op, dadi, fs, method, cmd, driver):
    """the spectrum a method was called on, afterwards: implementation vs the model's `foldSelfAfter` / `unfoldSelfAfter`
    (generated from the in-place statements of the method)"""
    a = restore(dadi, state(fs))
    try:
        with np.errstate(all='ignore'):
            method(a)
    except Exception:
        pass                      # a refused call: the model answers with the unchanged input
    kind, val = ask(driver, cmd + ' ' + fs_toks(fs))
    if kind == 'err':
        chk.k_skipped += 1; chk.stat('k:skipped:' + val); return
    if kind != 'ok' or not isinstance(val, dict):
        chk.k_bad(op, describe(fs), describe(a), val, None); return
    ok, why = same_spec(a, val)
    if ok: chk.k_ok(op)
    else: chk.k_bad(op, describe(fs), describe(a), 'input afterwards: ' + why, None)

def gen_operand(rng, dadi, fs, okind, mismatch=False, op=None):
    shape = fs.shape; d = fs.ndim
    base = op
    def vals():
        if base == 'pow':       # exponents / bases that stay rational and moderate
            return rng.integers(0, 4, shape).astype(float)
        if base == 'floordiv':
            return rng.choice([-3.0, -1.5, -0.5, 0.25, 0.5, 1.0, 2.0, 3.0, 7.0], shape)
        a = rng.uniform(0.5, 4, shape) * rng.choice([-1, 1], shape)
        return a
    if okind == 'C':
        if base == 'pow': return float(rng.integers(0, 4))
        if base == 'floordiv': return float(rng.choice([-3.0, -0.5, 0.25, 2.0, 7.0]))
        return float(rng.choice([0.5, 2.0, -1.25, 3.0, 1.0, float(rng.uniform(0.1, 5))]))
    if okind == 'P':
        return vals()
    m, _ = gen_mask(rng, shape)
    if okind == 'M':
        return np.ma.masked_array(vals(), mask=m)
    folded = (not fs.folded) if mismatch else bool(fs.folded)
    r = rng.random()
    ids = fs.pop_ids if r < 0.5 else (None if r < 0.75 else ['q%d' % k for k in range(d)])
    return with_mask(dadi.Spectrum(vals(), mask=m, mask_corners=False, data_folded=folded, check_folding=False, pop_ids=ids), m)

def operand_toks(o, okind):
    if okind == 'C': return 'C ' + rat(o)
    if okind == 'P': return 'P ' + fmt_nd(o)
    if okind == 'M': return 'M %s %s' % (fmt_nd(np.asarray(o.data, dtype=float)), bits(np.ma.getmaskarray(o)))
    return 'S ' + fs_toks(o)

def prep_self_for(rng, fs, base, refl, inplace):
    """keep the exact model defined: integer data for powers / floor division, non-zero divisors"""
    out = fs.copy()
    if base == 'pow':
        out.data[...] = np.round(np.abs(out.data)) % 4 + (1 if refl else 0)
    elif base == 'floordiv':
        out.data[...] = np.round(out.data * 4) / 4
        if refl: out.data[out.data == 0] = 1.5
    elif base == 'truediv' and refl:
        out.data[out.data == 0] = 2.0
    return out

# ------------------------------------------------------------------ every spectrum the API can produce (round 7)
def beyond_fold(shape):
    """entries that carry no information in a folded spectrum of this shape"""
    tot = np.indices(shape).sum(axis=0) if len(shape) else np.zeros((), dtype=int)
    return tot > (int(sum(shape)) - len(shape)) // 2

DERIVATIONS = ['whole', 'leading', 'trailing', 'strided', 'inner', 'two-axes', 'row', 'unmask_all', 'corners-open', 'beyond-fold-open',
               'slice+unmask_all', 'ctor-mask_corners=False']

def gen_derivation(rng, dadi, shape, labelled, kind):
    """one way the API hands out a spectrum that is not a whole, canonically masked one: -> (kind actually used, function fs -> spectrum).
    The same function can be applied to a model and a data spectrum of the same shape.  Slices are VIEWS (not copied).
    `row` (an integer index) only for unlabelled spectra: a row keeps ALL labels of its parent, and the constructor itself refuses a
    1-D spectrum with two labels — such an object is not a spectrum the constructor can produce."""
    d = len(shape)
    if kind == 'row' and (d < 2 or labelled): kind = 'leading'
    ax = int(rng.integers(d)); n = shape[ax]
    def on(axsl):
        return tuple(axsl.get(a, slice(None)) for a in range(d))
    def opened(f_mask):
        def g(s_):
            c = s_.copy(); m = np.ma.getmaskarray(c).copy(); f_mask(m); c.mask = m
            return c
        return g
    if kind == 'whole': return kind, (lambda s_: s_)
    if kind == 'leading':
        idx = on({ax: slice(None, int(rng.integers(1, n + 1)))}); return kind, (lambda s_: s_[idx])
    if kind == 'trailing':
        idx = on({ax: slice(int(rng.integers(0, n)), None)}); return kind, (lambda s_: s_[idx])
    if kind == 'strided':
        idx = on({ax: slice(None, None, int(rng.choice([2, 3, -1, -2])))}); return kind, (lambda s_: s_[idx])
    if kind == 'inner':
        idx = tuple(slice(1, -1) if m_ >= 3 else slice(None) for m_ in shape); return kind, (lambda s_: s_[idx])
    if kind == 'two-axes':
        ax2 = (ax + 1) % d
        sel = {ax: slice(None, int(rng.integers(1, n + 1)))}
        sel[ax2] = slice(int(rng.integers(0, shape[ax2])), None) if ax2 != ax else sel[ax]
        idx = on(sel); return kind, (lambda s_: s_[idx])
    if kind == 'row':
        idx = on({ax: int(rng.integers(-n, n))}); return kind, (lambda s_: s_[idx])
    if kind == 'unmask_all':
        def g(s_):
            c = s_.copy(); c.unmask_all(); return c
        return kind, g
    if kind == 'corners-open':
        def f_(m): m.flat[0] = False; m.flat[-1] = False
        return kind, opened(f_)
    if kind == 'beyond-fold-open':
        sel = rng.random(shape) < 0.6; bf = beyond_fold(shape)
        if not (sel & bf).any(): sel = np.ones(shape, dtype=bool)
        def f_(m): m[sel & bf] = False
        return kind, opened(f_)
    if kind == 'slice+unmask_all':
        idx = on({ax: slice(None, int(rng.integers(1, n + 1)))})
        def g(s_):
            c = s_[idx].copy(); c.unmask_all(); return c
        return kind, g
    if kind == 'ctor-mask_corners=False':
        def g(s_):
            m = np.ma.getmaskarray(s_).copy(); m.flat[0] = False; m.flat[-1] = False
            return with_mask(dadi.Spectrum(np.array(s_.data, copy=True), mask=m, mask_corners=False, data_folded=bool(s_.folded),
                                           check_folding=False, pop_ids=s_.pop_ids), m)
        return kind, g
    raise ValueError(kind)

def arith_case(chk, ctx, rng, name, okind, fs0, info, derive=None):
    """one template method x operand kind on `fs0` (or on the spectrum `derive` makes of it): L3 by operator syntax, K by direct call"""
    dadi = ctx['dadi']; driver = ctx['driver']
    base, refl, inplace = method_parts(name)
    base_np = 'truediv' if base == 'div' else base
    fs = prep_self_for(rng, fs0, base_np, refl, inplace)
    if derive is not None:
        fs = derive(fs)
        if fs.size == 0 or np.ndim(fs) == 0:
            chk.stat('derived:empty-skipped'); return
    mismatch = okind == 'Sx'
    ok_ = 'S' if mismatch else okind
    other = gen_operand(rng, dadi, fs, ok_, mismatch, base_np)
    if base_np in ('truediv', 'floordiv') and not refl and ok_ != 'C':
        od = other.data if ok_ in 'SM' else other
        od[od == 0] = 1.0
    chk.stat('arith:operand:' + okind)
    inp = dict(method=name, fs=describe(fs), other_kind=okind,
               other=describe(other) if ok_ == 'S' else (float(other) if ok_ == 'C' else dict(
                   data=np.asarray(getattr(other, 'data', other), dtype=float), mask=np.ma.getmaskarray(other).astype(int))))
    guarded(chk, 'arith:' + name, inp, l3_arith, chk, ctx, name, fs, other, ok_, info)
    tgt = fs.copy()
    line = 'c09.%s %s %s %s' % ('inplace' if inplace else 'binop', name, fs_toks(fs), operand_toks(other, ok_))
    k_compare(chk, ('inplace:' if inplace else 'binop:') + name, inp, lambda: getattr(tgt, name)(other), line, driver)
    if inplace:
        k_inplace_self(chk, 'inplace-self:' + name, name, fs, tgt, other, ok_, inp, driver)

def k_ctor(chk, ctx, rng, tier):
    """`Spectrum(data, mask, mask_corners, data_folded, check_folding)` on plain arrays vs the model's `ctorSpec` (whose `data_folded`
    block is the generated `ctor_selfMaskAfter` / `ctor_selfDataAfter`); and L3: the constructor keeps the data and the mask it is
    given, plus the two corners iff mask_corners — for every shape (also shapes that are slices of a folded spectrum)"""
    dadi = ctx['dadi']; driver = ctx['driver']
    for folded in (False, True):
        for mc in (False, True):
            for cf in (False, True):
                d = int(rng.integers(1, 5)); shape = gen_shape(rng, d, tier)
                data, _ = gen_data(rng, shape); mask, mk = gen_mask(rng, shape)
                ids = gen_ids(rng, d)
                inp = dict(shape=list(shape), data=data, mask=mask.astype(int), folded=folded, pop_ids=ids, mask_corners=mc, check_folding=cf)
                chk.l3(('ctor', folded, mc, cf, mk))
                try:
                    r = dadi.Spectrum(data.copy(), mask=mask.copy(), mask_corners=mc, data_folded=folded, check_folding=cf, pop_ids=ids)
                except Exception as e:
                    chk.fail('ctor:raises:%s' % type(e).__name__, 'Spectrum(...) raises %r' % (e,), inp); continue
                want = mask.copy()
                if mc: want.flat[0] = True; want.flat[-1] = True
                rm = np.ma.getmaskarray(r)
                if not np.array_equal(rm, want):
                    chk.fail('ctor:mask', 'Spectrum(data, mask=m, mask_corners=%r, data_folded=%r, check_folding=%r): the mask of the result is not m%s '
                             '(%d entries masked, expected %d; first difference at %s)' % (mc, folded, cf, ' plus the two corners' if mc else '',
                             int(rm.sum()), int(want.sum()), np.argwhere(rm != want)[0].tolist()), inp)
                if not np.array_equal(np.asarray(r.data), data) or r.folded is not folded or r.pop_ids != ids:
                    chk.fail('ctor:content', 'Spectrum(...): data / folded / pop_ids are not what was passed', inp)
                kind, val = ask(driver, 'c09.ctor %d %s' % (mc, spec_toks(data, mask, folded, ids)))
                if kind != 'ok' or not isinstance(val, dict):
                    chk.k_bad('ctor', inp, describe(r), val, None); continue
                ok, why = same_spec(r, val)
                if ok: chk.k_ok('ctor')
                else: chk.k_bad('ctor', inp, describe(r), why, None)

LLM_PER_BIN = ['ll_per_bin', 'll_multinom_per_bin', 'linear_Poisson_residual', 'Anscombe_Poisson_residual']

def gen_llmask_case(rng, dadi, d, tier, fkind, dkind):
    """model and data of the SAME folding status (no automatic folding involved), both derived the same way; model > 0 wherever it is
    meaningful, data >= 1 there; masks of model and data drawn independently, corners open or not"""
    shape = gen_shape(rng, d, tier)
    ids = gen_ids(rng, d)
    mm, mmk = gen_mask(rng, shape, MODEL_MASKS[int(rng.integers(len(MODEL_MASKS)))])
    dm, dmk = gen_mask(rng, shape, ['none', 'corners', 'random10', 'single', 'one-corner', 'none'][int(rng.integers(6))])
    mdata = rng.uniform(0.5, 5, shape); ddata = rng.poisson(3.0, shape).astype(float) + 1.0
    S = dadi.Spectrum
    if fkind == 'unfolded':
        model = S(mdata, mask=mm, mask_corners=False, pop_ids=ids); data = S(ddata, mask=dm, mask_corners=False, pop_ids=ids)
    elif fkind == 'proper':
        model = S(mdata, mask=mm, mask_corners=False, pop_ids=ids).fold(); data = S(ddata, mask=dm, mask_corners=False, pop_ids=ids).fold()
    else:
        model = with_mask(S(mdata, mask=mm, mask_corners=False, data_folded=True, check_folding=False, pop_ids=ids), mm)
        data = with_mask(S(ddata, mask=dm, mask_corners=False, data_folded=True, check_folding=False, pop_ids=ids), dm)
    kind, f = gen_derivation(rng, dadi, shape, ids is not None, dkind)
    return f(model), f(data), dict(d=d, folding=fkind, derivation=kind, model_mask=mmk, data_mask=dmk)

def l3_llmask(chk, ctx, model, data, info):
    """masks survive likelihood evaluation: a bin is dropped iff it is masked in the model or in the data (or the model is not
    positive there, where the Poisson likelihood does not exist) — for whole spectra, slices, opened masks, open corners alike"""
    dadi = ctx['dadi']; I = dadi.Inference
    from scipy.special import gammaln
    inp = dict(model=describe(model), data=describe(data))
    if model.size == 0 or np.ndim(model) == 0:
        chk.stat('llmask:empty-skipped'); return
    M = np.ma.getmaskarray(model).copy(); D = np.ma.getmaskarray(data).copy()
    md = np.array(model.data, dtype=float); dd = np.array(data.data, dtype=float)
    want_mask = M | D | ~(md > 0)
    keep = ~want_mask
    st_m, st_d = state(model), state(data)
    def call(f, *a):
        with np.errstate(all='ignore'), contextlib.redirect_stdout(io.StringIO()):
            return f(*a)
    if not keep.any():
        # no bin is unmasked in both: the optimal scaling (masked / masked) and with it the multinomial family are not defined
        # (same rule as gen_likelihood_case)
        chk.stat('llmask:no-jointly-unmasked-bin-skipped'); return
    corners_open = bool(keep.flat[0]) or bool(keep.flat[-1])
    chk.stat('llmask:' + info['folding'] + ':' + info['derivation']); chk.stat('llmask:corner-bin-in-play:%s' % corners_open)
    for nm in LLM_PER_BIN:
        chk.l3(('llmask', nm, info['folding'], info['derivation'], corners_open))
        try:
            r = call(getattr(I, nm), model, data)
        except Exception as e:
            chk.fail('llmask:%s:raises:%s' % (nm, type(e).__name__), '%s(model, data) raises %r (%s spectra, %s)' % (nm, e, info['folding'], info['derivation']), inp)
            continue
        rm = np.ma.getmaskarray(r)
        if tuple(rm.shape) == tuple(M.shape) and nm != 'll_per_bin':
            # where the model is not positive (entries beyond the fold of a fold() result whose mask was opened: model = data = 0) the
            # residuals are 0/0; what the functions make of such a bin is not part of the property — compared on the other bins
            rm = np.where(md > 0, rm, want_mask)
        if tuple(rm.shape) != tuple(M.shape) or not np.array_equal(rm, want_mask):
            k = np.argwhere(rm != want_mask) if tuple(rm.shape) == tuple(M.shape) else [[]]
            chk.fail('llmask:%s:mask' % nm, '%s(model, data) on %s spectra (%s): the mask of the result is not model.mask | data.mask — %d bins '
                     'are dropped although unmasked in both and %d kept although masked (first at %s)'
                     % (nm, info['folding'], info['derivation'], int((rm & ~want_mask).sum()), int((~rm & want_mask).sum()), list(k[0])), inp)
        if getattr(r, 'folded', None) is not data.folded and getattr(r, 'folded', None) != data.folded:
            chk.fail('llmask:%s:folded' % nm, '%s: result has folded=%r, model and data have %r' % (nm, getattr(r, 'folded', None), data.folded), inp)
        if nm == 'll_per_bin' and keep.any() and tuple(rm.shape) == tuple(M.shape):
            want = -md[keep] + dd[keep] * np.log(md[keep]) - gammaln(dd[keep] + 1.)
            got = np.asarray(r.data)[keep]
            if np.abs(got - want).max() > 1e-9 * max(1.0, np.abs(want).max()):
                chk.fail('llmask:ll_per_bin:value', 'll_per_bin: an unmasked bin is not the Poisson log-probability of the data bin given the model bin', inp)
    if keep.any():
        chk.l3(('llmask', 'll', info['folding'], info['derivation'], corners_open))
        want_ll = float(np.sum(-md[keep] + dd[keep] * np.log(md[keep]) - gammaln(dd[keep] + 1.)))
        both = ~(M | D)
        try:
            got_ll = float(call(I.ll, model, data))
            if abs(got_ll - want_ll) > 1e-9 * max(1.0, abs(want_ll)):
                chk.fail('llmask:ll:value', 'll(model, data) = %r on %s spectra (%s), the sum of the Poisson log-probabilities over the %d bins that are '
                         'unmasked in both is %r' % (got_ll, info['folding'], info['derivation'], int(keep.sum()), want_ll), inp)
            if md[both].sum() > 0:
                sc = float(dd[both].sum() / md[both].sum())
                want_mn = float(np.sum(-sc * md[keep] + dd[keep] * np.log(sc * md[keep]) - gammaln(dd[keep] + 1.)))
                got_sc = float(call(I.optimal_sfs_scaling, model, data)); got_mn = float(call(I.ll_multinom, model, data))
                if abs(got_sc - sc) > 1e-9 * max(1.0, abs(sc)):
                    chk.fail('llmask:scaling', 'optimal_sfs_scaling(model, data) = %r, data/model over the jointly unmasked bins is %r' % (got_sc, sc), inp)
                if np.isfinite(want_mn) and abs(got_mn - want_mn) > 1e-9 * max(1.0, abs(want_mn)):
                    chk.fail('llmask:ll_multinom:value', 'll_multinom(model, data) = %r, direct sum over the %d jointly unmasked bins with the optimally '
                             'scaled model is %r' % (got_mn, int(keep.sum()), want_mn), inp)
        except Exception as e:
            chk.fail('llmask:ll:raises:%s' % type(e).__name__, 'll / ll_multinom / optimal_sfs_scaling raises %r' % (e,), inp)
    else:
        chk.stat('llmask:no-jointly-unmasked-bin')
    survives(chk, 'llmask:mutates', 'likelihood family on %s spectra (%s)' % (info['folding'], info['derivation']), inp,
             [('model', model, st_m), ('data', data, st_d)])

def guarded(chk, key, inp, f, *a):
    """run one oracle; an exception that escapes it comes from an operation the property says must work (copy, fold of a copy,
    slicing, …) on an input the generators built to be valid — it is reported as a failure of the property, not as a crash"""
    try:
        return f(*a)
    except Exception as e:
        import traceback
        tb = traceback.extract_tb(e.__traceback__)
        where = next(('%s:%d' % (fr.filename.split('/dadi/')[-1], fr.lineno) for fr in reversed(tb) if '/dadi/' in fr.filename), '?')
        chk.l3(('crash', key))
        chk.fail('%s:raises:%s' % (key, type(e).__name__), '%s: unexpected %r (raised at dadi/%s)' % (key, e, where), inp)
        return None

def run(chk, ctx):
    dadi = ctx['dadi']; driver = ctx['driver']; tier = ctx['tier']
    rng = common.Rng(ctx['seed'], 'C09')
    thorough = tier == 'thorough'
    chk.rule = ('spectra: d = 1..5 populations, axis sizes per tier (incl. size-1 axes), parity of the total sample size forced '
                'even and odd in turn; data kinds counts/float/sparse/model-like/signed; mask kinds corners, none, random 10%/50%, '
                'single, mirror-symmetric, all, one corner, slab; pop_ids None or labels; folded inputs = fold() results (optionally '
                'with extra masked entries) or arbitrary arrays declared folded; p in {0, 1, 0.5, uniform[0,1]} as float and numpy '
                'scalar; every template method x operand kind (Spectrum same/different folding, masked_array, ndarray, scalar), by direct '
                'method call (K) and by operator syntax (L3); random basic indices (negative steps, integer indices); likelihood family '
                '(10 functions + mask= variants of the residuals): unfolded model with mask kinds corners/none/random/single/one-corner/slab/'
                'symmetric (mostly NOT mirror-symmetric), data masks incl. extra masked entries after folding, each function on fresh '
                'objects in the sequence unfolded data, folded data, folded model, folded data again, unfolded data again; every operand of '
                'every operation deep-snapshotted before and compared after (data under the mask, mask, folded, pop_ids). '
                'round 7: arithmetic (all templates x operand kinds, binary vs in-place twin), unary/log and the likelihood family also on DERIVED '
                'spectra, folded 2 of 3: views fs[:k], fs[k:], strided, inner, two axes, single rows (unlabelled), copies after unmask_all(), '
                'open corners (hand-edited and mask_corners=False), entries beyond the fold unmasked, slice then unmask_all; log(): mask exactly '
                'operand mask | (x <= 0); likelihood masks: model and data of one folding status (unfolded / fold() results / declared folded with '
                'positive data everywhere), independent masks with open corners, result mask == model.mask | data.mask | (model <= 0) and values by '
                'direct sums; constructor on plain arrays x mask_corners x data_folded x check_folding: mask kept exactly (K + L3). '
                'non-trivial = distinct (d, parity, mask kind, data kind, shape) for fold, (method, operand kind, d, folded, mismatch) for arithmetic')
    chk.unproved = ['IEEE round-off: the float implementation agrees with the exact model to 1e-9 relative (K), theorems are about exact rationals',
                    'aliasing between results and operands is not part of the value-level model: only the `copy` flag of the binary template is translated (C09_arith_fresh); shares_memory and mutate-after checks are L3',
                    'unary operators, copy, view, .log(): the attribute rules of __array_finalize__/_update_from/__array_wrap__/log are translated and proved to keep folded/pop_ids (C09_hooks_keep, C09_unary_keeps, C09_slice_keeps); the ORDER in which numpy calls these hooks, and the data/mask numpy.ma computes for a unary ufunc, are tied by correspondence only (K: spy on the class vs `hooksOf`; values vs `unarySpec`); the value of log() is not rational and not modelled',
                    'powers with non-integer exponents and division by zero are outside the exact model (K skips them; L3 checks mask/folded/labels there too)',
                    'the Python data-model dispatch from operator syntax to the template methods is checked by L3, not proved',
                    'likelihood: the decision "fold the model iff data folded and model not" (generated guard), that fold/unfold leave their input alone (C09_fold_pure, generated in-place statements) and that no function of the family contains a store into model/data (C09_operands_not_stored, syntactic scan) are proved; equality ll(model, data) = ll(model.fold(), data), reproducibility and survival of the arguments through numpy.ma are L3',
                    'the OTHER operand of the arithmetic templates survives: proved only as "the template contains no store into `other`" (syntactic); behaviour is L3 (before/after snapshots). What the templates do to `self` (data under the mask, mask; unchanged when refused) is modelled statement by statement and proved (C09_binary_program, C09_inplace_program, C09_arith_refused)']
    # ---- method tables: implementation vs generated lists
    kind, val = ask(driver, 'c09.methods')
    impl_bin = [m for m in BINARY if m in dadi.Spectrum.__dict__]; impl_inp = [m for m in INPLACE if m in dadi.Spectrum.__dict__]
    import inspect
    impl_auto = [n for n, f in vars(dadi.Inference).items() if inspect.isfunction(f) and f.__module__ == dadi.Inference.__name__
                 and 'model = model.fold()' in inspect.getsource(f)]
    gen_auto = val[2].split(',') if kind == 'ok' and len(val) == 3 else []
    if kind == 'ok' and val[0].split(',') == impl_bin and val[1].split(',') == impl_inp and sorted(impl_bin) == sorted(BINARY) \
       and sorted(impl_inp) == sorted(INPLACE) and sorted(gen_auto) == sorted(impl_auto) and set(AUTOFOLD_FUNCS) <= set(gen_auto):
        chk.k_ok('methods')
    else:
        chk.k_bad('methods', {}, dict(binary=impl_bin, inplace=impl_inp, autofold=impl_auto), val, None)
    # ---- the likelihood family f(model, data, …): implementation vs the generated list (its store-scan is C09_operands_not_stored)
    kind, val = ask(driver, 'c09.family')
    impl_fam = [n for n, f in vars(dadi.Inference).items() if inspect.isfunction(f) and f.__module__ == dadi.Inference.__name__
                and list(inspect.signature(f).parameters)[:2] == ['model', 'data']]
    base_funcs = sorted(set(nm.split('[')[0] for nm in LL_FUNCS))
    if kind == 'ok' and len(val) == 2 and sorted(val[0].split(',')) == sorted(impl_fam) and set(base_funcs) <= set(impl_fam):
        chk.k_ok('likelihood-family')
    else:
        chk.k_bad('likelihood-family', {}, dict(family=impl_fam, exercised=base_funcs), val, None)
    if set(impl_fam) - set(base_funcs):
        chk.stat('l3:ll:family-not-exercised:' + ','.join(sorted(set(impl_fam) - set(base_funcs))))
    k_hooks(chk, ctx, rng)
    chk.assumptions += ['C09: `_total_per_entry` = index sum, `reverse_array` = reversal of every axis, `mask_corners` = flat[0], flat[-1], '
                        'numpy.ma.mask_or, the Python meaning of the dunder method names and basic slicing are tied by correspondence (K) and by a '
                        'literal-statement check in tools/gen_Fold.py, not by translation']
    n_fold = 40 if not thorough else 400
    n_arith = 6 if not thorough else 40
    # ---- fold / unfold / reverse / misid
    it = 0
    for rep in range(n_fold):
        for d in range(1, 6):
            parity = it % 2; it += 1
            mk = MASK_KINDS[(it // 2) % len(MASK_KINDS)] if rep < len(MASK_KINDS) * 2 else None
            fs, info = gen_unfolded(rng, dadi, d, tier, parity, mkind=mk)
            chk.stat('d=%d' % d); chk.stat('parity=%d' % info['parity']); chk.stat('mask:' + info['mask']); chk.stat('data:' + info['data'])
            if 1 in info['shape']: chk.stat('shape-with-size-1-axis')
            chk.sample(dict(op='fold', **{k: v for k, v in info.items()}))
            inp = describe(fs)
            f = guarded(chk, 'fold', inp, l3_fold, chk, ctx, fs, info)
            k_compare(chk, 'fold', inp, lambda: fs.fold(), 'c09.fold ' + fs_toks(fs), driver)
            k_self_after(chk, 'fold:input-afterwards', dadi, fs, lambda s_: s_.fold(), 'c09.foldself', driver)
            k_self_after(chk, 'unfold:input-afterwards', dadi, fs, lambda s_: s_.unfold(), 'c09.unfoldself', driver)
            k_compare(chk, 'reverse', inp, lambda: dadi.Numerics.reverse_array(fs), 'c09.reverse ' + fs_toks(fs), driver)
            k_compare(chk, 'unfold:refused', inp, lambda: fs.unfold(), 'c09.unfold ' + fs_toks(fs), driver)
            # unfold of folded spectra (proper and declared)
            g, ginfo = gen_folded(rng, dadi, d, tier, parity)
            chk.stat('folded-input:' + ginfo['folded_kind'])
            ginp = describe(g)
            u = k_compare(chk, 'unfold', ginp, lambda: g.unfold(), 'c09.unfold ' + fs_toks(g), driver)
            k_compare(chk, 'fold:refused', ginp, lambda: g.fold(), 'c09.fold ' + fs_toks(g), driver)
            k_self_after(chk, 'unfold:input-afterwards', dadi, g, lambda s_: s_.unfold(), 'c09.unfoldself', driver)
            k_self_after(chk, 'fold:input-afterwards', dadi, g, lambda s_: s_.fold(), 'c09.foldself', driver)
            if u is not None:
                k_compare(chk, 'fold(unfold)', describe(u), lambda: u.fold(), 'c09.fold ' + fs_toks(u), driver)
            # misid
            pk = it % 5
            p = [0.0, 1.0, 0.5, float(rng.uniform(0, 1)), np.float64(rng.uniform(0, 1))][pk]
            chk.stat('p:' + ['0', '1', '0.5', 'float', 'np.float64'][pk])
            guarded(chk, 'misid', dict(fs=inp, p=float(p)), l3_misid, chk, ctx, fs, p, info)
            k_compare(chk, 'misid', dict(fs=inp, p=float(p)), lambda: dadi.Numerics.apply_anc_state_misid(fs, p),
                      'c09.misid %s %s' % (rat(float(p)), fs_toks(fs)), driver)
            qk = (it // 5) % 4
            q = [0.5, float(rng.uniform(0, 1)), 1.0, 0.0][qk]
            guarded(chk, 'misid:algebra', dict(fs=inp, p=float(p), q=float(q)), l3_misid_algebra, chk, ctx, fs, p, q, info)
            r_pq = Fraction(float(p)) + Fraction(float(q)) - 2 * Fraction(float(p)) * Fraction(float(q))
            k_compare(chk, 'misid:compose', dict(fs=inp, p=float(p), q=float(q)),
                      lambda: dadi.Numerics.apply_anc_state_misid(dadi.Numerics.apply_anc_state_misid(fs, p), q),
                      'c09.misid %s %s' % (rat(r_pq), fs_toks(fs)), driver)
            if rep % 3 == 0:
                def func(params, ns, scale=1.0, _fs=fs):
                    return _fs * (params[0] * scale)
                mf = dadi.Numerics.make_anc_state_misid_func(func)
                c0 = float(rng.choice([0.5, 2.0, 1.0])); sc = float(rng.choice([1.0, 4.0]))
                base = fs * (c0 * sc)
                k_compare(chk, 'misid_func', dict(fs=inp, p=float(p), params=[c0], scale=sc),
                          lambda: mf([c0, p], None, scale=sc), 'c09.misid %s %s' % (rat(float(p)), fs_toks(base)), driver)
                chk.l3(('misid_func', d))
                # the same wrapped function again with the same parameters and only a KEYWORD argument changed, then changed back (what an
                # optimiser does with pts=...): each call is the misidentified spectrum of the model called with the arguments given
                sc2 = 4.0 if sc == 1.0 else 1.0
                for step_, sck in enumerate((sc2, sc)):
                    k_compare(chk, 'misid_func', dict(fs=inp, p=float(p), params=[c0], scale=sck, after_scale=(sc, sc2)[step_]),
                              lambda: mf([c0, p], None, scale=sck), 'c09.misid %s %s' % (rat(float(p)), fs_toks(fs * (c0 * sck))), driver)
                    try:
                        got_ = mf([c0, p], None, scale=sck); want_ = dadi.Numerics.apply_anc_state_misid(func([c0], None, scale=sck), p)
                        same_ = (np.array_equal(np.ma.getmaskarray(got_), np.ma.getmaskarray(want_))
                                 and np.allclose(np.ma.filled(got_, 0.0), np.ma.filled(want_, 0.0), rtol=1e-12, atol=0))
                    except Exception as e:
                        chk.fail('misid_func:sequence:%s' % type(e).__name__, 'wrapped function raises %r on a repeated call' % (e,), dict(fs=inp, p=float(p), scale=sck)); break
                    chk.l3(('misid_func:sequence', d, step_))
                    if not same_:
                        chk.fail('misid_func:sequence', 'make_anc_state_misid_func(func)([c, p], ns, scale=%g) after a call with scale=%g is not '
                                 'apply_anc_state_misid(func([c], ns, scale=%g), p)' % (sck, (sc, sc2)[step_], sck), dict(fs=inp, p=float(p), params=[c0], scales=[sc, sc2, sc]))
                        break
                if mf.__name__ != 'func_misid':
                    chk.fail('misid_func:name', 'wrapped function name %r' % mf.__name__, dict(fs=inp))
            # unary + slicing (L3, slicing also K)
            for s in (fs, g):
                guarded(chk, 'unary', describe(s), l3_unary, chk, ctx, s, info)
                guarded(chk, 'unary', describe(s), k_unary, chk, dadi, s, driver)
                idx, desc = gen_index(rng, s.shape)
                r = guarded(chk, 'slice', dict(fs=describe(s), index=repr(idx)), l3_slice, chk, ctx, s, idx, info)
                if r is not None and np.ndim(r) > 0:
                    k_compare(chk, 'slice', dict(fs=describe(s), index=repr(idx)), lambda: s[idx],
                              'c09.slice %s %s' % (desc, fs_toks(s)), driver)
    # ---- arithmetic templates
    for rep in range(n_arith):
        for name in BINARY + INPLACE:
            base, refl, inplace = method_parts(name)
            if base == 'div': base_np = 'truediv'
            else: base_np = base
            for okind in ('S', 'Sx', 'M', 'P', 'C'):
                d = int(rng.integers(1, 6))
                folded_self = rng.random() < 0.5
                if folded_self: fs0, info = gen_folded(rng, dadi, d, tier)
                else: fs0, info = gen_unfolded(rng, dadi, d, tier)
                arith_case(chk, ctx, rng, name, okind, fs0, info)
    # ---- round 7: the same for every spectrum the API can produce — slices / views (leading, trailing, strided, inner, two axes,
    #      single rows), spectra after unmask_all(), open corners, hand-edited masks beyond the fold — folded (2 of 3) and unfolded
    it = 0
    OK_CYCLE = ['C', 'P', 'S', 'M', 'C', 'S', 'P', 'Sx']
    for rep in range(5 if not thorough else 30):
        for name in BINARY + INPLACE:
            if name not in SYNTAX: continue
            dk = DERIVATIONS[it % len(DERIVATIONS)]; okind = OK_CYCLE[(it // len(DERIVATIONS) + it) % len(OK_CYCLE)]
            folded_self = (it // len(DERIVATIONS) + it) % 3 != 2; it += 1
            d = int(rng.integers(1, 5))
            if dk == 'row': d = max(d, 2)
            if folded_self: fs0, info = gen_folded(rng, dadi, d, tier)
            else: fs0, info = gen_unfolded(rng, dadi, d, tier)
            if dk == 'row' and fs0.pop_ids is not None:
                fs0 = fs0.copy(); fs0.pop_ids = None
            kind, f = gen_derivation(rng, dadi, fs0.shape, fs0.pop_ids is not None, dk)
            chk.stat('derived:%s:%s' % ('folded' if folded_self else 'unfolded', kind))
            arith_case(chk, ctx, rng, name, okind, fs0, info, derive=f)
            if it % 3 == 0:
                g = f(fs0)
                if g.size and np.ndim(g) > 0:
                    guarded(chk, 'unary', describe(g), l3_unary, chk, ctx, g, info)
    guarded(chk, 'ctor', {}, k_ctor, chk, ctx, rng, tier)
    # ---- automatic folding in the likelihood functions: K on the decision, L3 on values
    calls = []
    orig_fold = dadi.Spectrum.fold
    def spy(self):
        calls.append(1); return orig_fold(self)
    for fname in (gen_auto or AUTOFOLD_FUNCS):
        f = getattr(dadi.Inference, fname)
        for df in (False, True):
            for mf_ in (False, True):
                shape = gen_shape(rng, 2, tier)
                model = dadi.Spectrum(rng.uniform(0.5, 5, shape)); data = dadi.Spectrum(rng.poisson(3.0, shape).astype(float))
                if df: data = data.fold()
                if mf_: model = model.fold()
                del calls[:]
                dadi.Spectrum.fold = spy
                try:
                    with np.errstate(all='ignore'):
                        f(model, data)
                except ValueError:
                    pass       # folded model against unfolded data: the arithmetic guard refuses later; the decision stands
                except Exception as e:
                    calls.append('raises ' + type(e).__name__)
                finally:
                    dadi.Spectrum.fold = orig_fold
                impl = ('1' if calls == [1] else '0' if not calls else repr(calls))
                kind, val = ask(driver, 'c09.autofold %s 1 %d %d' % (fname, df, mf_))
                if kind == 'ok' and val[0] == impl: chk.k_ok('autofold:' + fname)
                else: chk.k_bad('autofold:' + fname, dict(func=fname, data_folded=df, model_folded=mf_), impl, val, None)
    for rep in range(6 if not thorough else 40):
        for d in range(1, 4 if not thorough else 5):
            guarded(chk, 'll', dict(d=d), l3_likelihood, chk, ctx, rng, d, tier)
    # ---- round 7: masks survive likelihood evaluation, for model / data of one folding status derived in every way
    it = 0
    for rep in range(6 if not thorough else 24):
        for dk in DERIVATIONS:
            fkind = ['proper', 'unfolded', 'declared'][(it + rep) % 3]; it += 1
            d = 1 + (it % 3) if dk != 'row' else 2 + (it % 2)
            def one(d=d, fkind=fkind, dk=dk):
                model, data, info = gen_llmask_case(rng, dadi, d, tier, fkind, dk)
                l3_llmask(chk, ctx, model, data, info)
            guarded(chk, 'llmask', dict(d=d, folding=fkind, derivation=dk), one)

def replay(chk, ctx, data):
    """re-evaluate the failing input: rebuild the spectrum and run the oracle that produced the key"""
    dadi = ctx['dadi']
    inp = data.get('input', {}); key = data.get('key', '')
    try:
        if key.startswith(('fold', 'fuf', 'unfold')) and 'data' in inp:
            fs = rebuild(dadi, inp)
            info = dict(d=fs.ndim, parity=int(sum(fs.shape) - fs.ndim) % 2, mask='replay', data='replay', shape=tuple(fs.shape))
            l3_fold(chk, ctx, fs, info); return
        if key.startswith('misid') and 'fs' in inp:
            fs = rebuild(dadi, inp['fs'])
            info = dict(d=fs.ndim, parity=int(sum(fs.shape) - fs.ndim) % 2, mask='replay', data='replay', shape=tuple(fs.shape))
            l3_misid(chk, ctx, fs, inp['p'], info)
            if 'q' in inp: l3_misid_algebra(chk, ctx, fs, inp['p'], inp['q'], info)
            return
        if key.startswith('arith') and 'fs' in inp:
            fs = rebuild(dadi, inp['fs']); ok_ = inp['other_kind'].rstrip('x')
            o = inp['other']
            if ok_ == 'S': other = rebuild(dadi, o)
            elif ok_ == 'C': other = float(o)
            else:
                arr = np.array(o['data']['data']).reshape(o['data']['shape'])
                other = arr if ok_ == 'P' else np.ma.masked_array(arr, mask=np.array(o['mask']['data']).reshape(o['mask']['shape']).astype(bool))
            l3_arith(chk, ctx, inp['method'], fs, other, ok_, dict(d=fs.ndim)); return
        if key.startswith('llmask') and 'model' in inp and 'data' in inp:
            l3_llmask(chk, ctx, rebuild(dadi, inp['model']), rebuild(dadi, inp['data']), dict(folding='replay', derivation='replay')); return
        if key.startswith('ctor') and 'mask_corners' in inp:
            def arr(o): return np.array(o['data']).reshape(o['shape']) if isinstance(o, dict) else np.array(o)
            r = dadi.Spectrum(arr(inp['data']).astype(float), mask=arr(inp['mask']).astype(bool), mask_corners=inp['mask_corners'],
                              data_folded=inp['folded'], check_folding=inp['check_folding'], pop_ids=inp['pop_ids'])
            want = arr(inp['mask']).astype(bool)
            if inp['mask_corners']: want.flat[0] = True; want.flat[-1] = True
            chk.l3(('ctor', 'replay'))
            if not np.array_equal(np.ma.getmaskarray(r), want):
                chk.fail(key, 'Spectrum(...): the mask of the result is not the mask passed (plus corners iff mask_corners)', inp)
            return
        if key.startswith('ll') and 'model' in inp and 'data_unfolded' in inp:
            l3_likelihood_case(chk, ctx, rebuild(dadi, inp['model']), rebuild(dadi, inp['data_unfolded']), rebuild(dadi, inp['data']),
                               dict(model_mask='replay', data_mask='replay')); return
        if key.startswith(('unary', 'slice', 'reverse')) and ('data' in inp or 'fs' in inp):
            fs = rebuild(dadi, inp['fs'] if 'fs' in inp else inp)
            info = dict(d=fs.ndim, parity=int(sum(fs.shape) - fs.ndim) % 2, mask='replay', data='replay', shape=tuple(fs.shape))
            if key.startswith('unary'): l3_unary(chk, ctx, fs, info); return
            if key.startswith('reverse') and not fs.folded: l3_fold(chk, ctx, fs, info); return
    except Exception:
        pass
    run(chk, ctx)
