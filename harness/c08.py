"""C08 — projection is hypergeometric subsampling: conserving, composable, mask-monotone.

K  : `Numerics._cached_projection(m, n, i)` against the Lean model's exact row (which *evaluates the generated*
     log-gamma expression) — exhaustively for all 1 <= m <= n <= NMAX and all i, sampled up to n = 200, cache miss and
     cache hit, upward short-circuit rows; `Spectrum.project` / `_project_one_axis` on 1-D…4-D spectra with masks,
     folded and unfolded, against `Spec.project` / `Spec.projectOneAxis`; refusals (`err up`, `err dim`).
L3 : written from the property statement with `math.comb` only (no Lean, no dadi internals): every entry is the
     expected count under sampling without replacement; totals; two stages = one; any axis order; 1/i fixed point;
     a masked entry masks exactly its support; folded = fold(project(unfold)) = fold(project(S)) for F = fold(S);
     upward refused; `LowPass.projection_matrix(F=0)` rows.
Round 6 (projection inside dadi/LowPass/LowPass.py): low-pass model functions for 1..4 populations at deep coverage against per-axis
     exact matrices / `Spectrum.project` / relabelled populations (L3), the per-population loop of `lowpass_func` on the
     implementation's own matrices against the translated loop `Gen.ProjLP.loopBody` run by the model (K `lowpass:axes`, theorem
     C08_lowpass_axes), `subsample_genotypes_1D` / `simulate_GATK_multisample_calling` against exact individual-subsampling weights
     (exact binomial tails), `projection_inbreeding` / `projection_matrix` against plain enumeration.
"""
import math
import numpy as np
from fractions import Fraction
from . import common, gen
from .common import fmt_nd, close

PROP = 'C08'
GENERATED = ['Proj', 'ProjFold', 'ProjLP']     # ProjFold: fold/unfold/reverse_array programs (C08_fold_generated, C08_fold_wiring); ProjLP: the per-population loop of LowPass.lowpass_func (C08_lowpass_axes)
NEEDS_BUILD = False
NEEDS_DRIVER = True
DRIVER_MODULES = ['Projection']

RTOL = 1e-9

# --------------------------------------------------------------------------- exact oracle (property text)
def hyp_exact(m, n, i, j):
    """P(j derived among m drawn without replacement | i derived among n)"""
    if j < 0 or j > m or i - j < 0 or i - j > n - m:
        return Fraction(0)
    return Fraction(math.comb(m, j) * math.comb(n - m, i - j), math.comb(n, i))

_W = {}
def W(n, m):
    """(n+1) x (m+1) float matrix of exact weights"""
    k = (n, m)
    if k not in _W:
        M = np.zeros((n + 1, m + 1))
        for i in range(n + 1):
            for j in range(max(0, m - (n - i)), min(i, m) + 1):
                M[i, j] = (math.comb(m, j) * math.comb(n - m, i - j)) / math.comb(n, i)   # int/int: correctly rounded
        if len(_W) > 4000:
            _W.clear()
        _W[k] = M
    return _W[k]

def ref_project(data, mask, ns):
    """expected counts + 'masked iff a masked source entry can contribute', axis by axis with exact weights"""
    out = np.asarray(data, dtype=float); mk = np.asarray(mask, dtype=float)
    for ax in range(out.ndim):
        n = out.shape[ax] - 1; m = ns[ax]
        M = W(n, m)
        out = np.moveaxis(np.tensordot(out, M, axes=([ax], [0])), -1, ax)
        mk = np.moveaxis(np.tensordot(mk, (M > 0).astype(float), axes=([ax], [0])), -1, ax)
    return out, mk > 0

# --------------------------------------------------------------------------- wire helpers
def parse_floats(s):
    if s == '-':
        return np.zeros(0)
    out = []
    for t in s.split(','):
        if '/' in t:
            a, b = t.split('/')
            out.append(int(a) / int(b))
        else:
            out.append(float(int(t)))
    return np.array(out)

def parse_spec(out):
    """'ok <nd data> <nd mask> <folded>' -> (data, mask, folded)"""
    _, d, m, f = out.split(' ')
    sh, dat = d.split(':')
    shape = tuple(int(t) for t in sh.split('x'))
    data = parse_floats(dat).reshape(shape)
    mask = parse_floats(m.split(':')[1]).reshape(shape) > 0.5
    return data, mask, f == '1'

def have_driver(ctx):
    d = ctx.get('driver')
    return d is not None and d.p is not None

# --------------------------------------------------------------------------- weights
def check_row(chk, dadi, m, n, i, model_row=None, tag='cached_projection', hits=None):
    """one row of `_cached_projection`: L3 against exact comb weights, K against the model row (if given)"""
    N = dadi.Numerics
    inp = dict(kind='weights', m=m, n=n, i=i)
    try:
        w = np.array(N._cached_projection(m, n, i if hits is None else hits), dtype=float)
    except Exception as e:
        chk.fail('_cached_projection:raises:%s' % type(e).__name__, '_cached_projection(%d,%d,%d) raises %r' % (m, n, i, e), inp)
        if model_row is not None:
            chk.k_bad(tag, inp, repr(e), model_row, None)
        return None
    if n >= m:
        ex = np.array([float(hyp_exact(m, n, i, j)) for j in range(m + 1)])
    else:
        ex = np.zeros(m + 1)          # upward: the short-circuit row
    ok, err, scale = close(w, ex, rtol=RTOL, atol=0.0)
    if not ok:
        j = int(np.argmax(np.abs(w - ex))) if w.shape == ex.shape else -1
        chk.fail('_cached_projection:value', '_cached_projection(%d,%d,%d) entry %d is %r, hypergeometric weight is %r (row error %.3g, scale %.3g)'
                 % (m, n, i, j, float(w[j]) if j >= 0 else None, float(ex[j]) if j >= 0 else None, err, scale), inp)
    if model_row is not None:
        ok2, err2, _ = close(w, model_row, rtol=RTOL)
        if ok2:
            chk.k_ok(tag)
        else:
            chk.k_bad(tag, inp, w, model_row, err2)
    return w

def sweep_weights(chk, ctx, nmax, rng):
    """exhaustive: all 1 <= m <= n <= nmax, all i"""
    dadi = ctx['dadi']; N = dadi.Numerics
    drv = ctx['driver'] if have_driver(ctx) else None
    N._projection_cache.clear()
    rows = 0
    for n in range(1, nmax + 1):
        for m in range(1, n + 1):
            model = None
            if drv is not None:
                out = drv.ask('projmat %d %d' % (m, n))
                if out.startswith('ok '):
                    model = [parse_floats(r) for r in out[3:].split(';')]
                else:
                    chk.k_bad('cached_projection', dict(kind='weights', m=m, n=n, i=0), None, out, None)
            chk.l3(('weights', n, m))
            for i in range(n + 1):
                check_row(chk, dadi, m, n, i, None if model is None else model[i])
                rows += 1
    chk.stats['weights_exhaustive_nmax'] = nmax
    chk.stats['weights_exhaustive_rows'] = rows
    # cache hits: a second call returns the same values (and rows are not aliased between keys)
    for _ in range(200 if ctx['tier'] == 'quick' else 2000):
        n = int(rng.integers(1, nmax + 1)); m = int(rng.integers(1, n + 1)); i = int(rng.integers(0, n + 1))
        hit = (m, n, i) in N._projection_cache
        w = check_row(chk, dadi, m, n, i, None, hits=np.int64(i) if rng.random() < 0.5 else None)
        chk.l3(('weights-hit', hit)); chk.stat('cache_hit' if hit else 'cache_miss')

def sample_weights(chk, ctx, rng, count, lo, hi):
    """sampled rows for lo <= n <= hi, all row kinds (i at the edges / middle), model via projrow"""
    dadi = ctx['dadi']
    drv = ctx['driver'] if have_driver(ctx) else None
    for it in range(count):
        n = int(rng.integers(lo, hi + 1)) if it % 7 else hi
        m = [1, 2, n // 2, n - 1, n, int(rng.integers(1, n + 1))][int(rng.integers(6))]
        m = max(1, m)
        i = [0, 1, n // 2, n - 1, n, int(rng.integers(0, n + 1)), max(0, min(n, m + int(rng.integers(-2, 3))))][int(rng.integers(7))]
        if rng.random() < 0.3:
            dadi.Numerics._projection_cache.pop((m, n, i), None)
        chk.stat('sampled_cache_hit' if (m, n, i) in dadi.Numerics._projection_cache else 'sampled_cache_miss')
        model = None
        if drv is not None:
            out = drv.ask('projrow %d %d %d' % (m, n, i))
            model = parse_floats(out[3:]) if out.startswith('ok ') else None
            if model is None:
                chk.k_bad('cached_projection:sampled', dict(kind='weights', m=m, n=n, i=i), None, out, None)
        chk.l3(('weights-sampled', n // 20, m == n, i in (0, n)))
        check_row(chk, dadi, m, n, i, model, tag='cached_projection:sampled')
    chk.stat('weights_sampled', count)

def upward_rows(chk, ctx, rng, count):
    """`_cached_projection(m, n, i)` with n < m: the zero row of length m+1 (nothing is projected upward)"""
    dadi = ctx['dadi']
    drv = ctx['driver'] if have_driver(ctx) else None
    for _ in range(count):
        m = int(rng.integers(2, 40)); n = int(rng.integers(1, m)); i = int(rng.integers(0, n + 1))
        model = None
        if drv is not None:
            out = drv.ask('projrow %d %d %d' % (m, n, i))
            model = parse_floats(out[3:]) if out.startswith('ok ') else None
            if model is None:
                chk.k_bad('cached_projection:up', dict(kind='weights', m=m, n=n, i=i), None, out, None)
        chk.l3(('weights-up', m - n))
        check_row(chk, dadi, m, n, i, model, tag='cached_projection:up')

def window_tie(chk, ctx, rng, count):
    """the generated least/most as executed by the model vs the support of the exact weights (redundant with the
    theorem C08_support; catches a translator that mis-reads the bounds)"""
    if not have_driver(ctx):
        return
    drv = ctx['driver']
    for _ in range(count):
        n = int(rng.integers(1, 60)); m = int(rng.integers(1, n + 1)); i = int(rng.integers(0, n + 1))
        out = drv.ask('window %d %d %d' % (m, n, i))
        sup = [j for j in range(m + 1) if hyp_exact(m, n, i, j) > 0]
        want = 'ok %d %d' % (sup[0], sup[-1])
        if out == want:
            chk.k_ok('window')
        else:
            chk.k_bad('window', dict(kind='weights', m=m, n=n, i=i), want, out, None)

# --------------------------------------------------------------------------- spectra
SIZES = {'quick': {1: 48, 2: 12, 3: 6, 4: 4}, 'thorough': {1: 120, 2: 24, 3: 9, 4: 5}}

def gen_case(rng, tier, d=None, folded=None, big=False, data_kind=None, mask_kind=None):
    if d is None:
        d = int(rng.choice([1, 1, 2, 2, 3, 4]))
    hi = SIZES[tier][d]
    if big and d == 1:
        hi = 200
    sizes = []
    for _ in range(d):
        r = rng.random()
        if r < 0.12: n = 1
        elif r < 0.22: n = 2
        elif r < 0.35: n = hi
        else: n = int(rng.integers(1, hi + 1))
        sizes.append(n)
    if big and d == 1:
        sizes = [int(rng.integers(121, 201))]
    shape = [n + 1 for n in sizes]
    ns = []; kinds = []
    for n in sizes:
        r = rng.random()
        if r < 0.2: m, k = n, 'same'
        elif r < 0.4: m, k = max(1, n - 1), 'one-step'
        elif r < 0.5: m, k = 1, 'to-1'
        else: m, k = int(rng.integers(1, n + 1)), 'random'
        ns.append(m); kinds.append(k)
    if data_kind is None:
        data_kind = ['dense', 'dense', 'counts', 'zero-slices', 'zero-slices', 'zero-corners', 'all-zero', 'one-entry'][int(rng.integers(8))]
    data = gen.coarse(rng.uniform(0, 1, shape) ** 2 * 100, 20)
    if data_kind == 'dense':
        if rng.random() < 0.15:
            data[tuple(int(rng.integers(s)) for s in shape)] += 4096.0          # planted spike
        if rng.random() < 0.1:
            data = gen.coarse(data - 20.0, 20)                                     # negative entries are legal data
    elif data_kind == 'counts':
        # sparse count-like data spectrum: integer counts, most bins exactly empty
        lam = float(rng.choice([0.05, 0.3, 1.5]))
        data = rng.poisson(lam, shape).astype(float) * rng.integers(1, 4, shape)
    elif data_kind == 'zero-slices':
        # whole slices along one or more axes hold exact zeros (nobody carries that many copies);
        # with probability 1/2 symmetric under reversal so that the unfolded version of fold(S) keeps them
        if rng.random() < 0.4:
            data = rng.poisson(1.0, shape).astype(float)
        sym = rng.random() < 0.5
        for ax in range(d):
            if rng.random() < 0.7 or ax == 0:
                n = shape[ax] - 1
                ks = set(int(k) for k in rng.integers(0, n + 1, size=int(rng.integers(1, max(2, (n + 1) // 2 + 1)))))
                if sym: ks |= set(n - k for k in ks)
                for k in ks:
                    sl = [slice(None)] * d; sl[ax] = k; data[tuple(sl)] = 0.0
    elif data_kind == 'zero-corners':
        data[tuple([0] * d)] = 0.0; data[tuple(s - 1 for s in shape)] = 0.0
        for ax in range(d):                                                      # the two end slices of one axis as well
            if rng.random() < 0.3:
                sl = [slice(None)] * d; sl[ax] = 0; data[tuple(sl)] = 0.0
                sl[ax] = shape[ax] - 1; data[tuple(sl)] = 0.0
    elif data_kind == 'all-zero':
        data = np.zeros(shape)
    elif data_kind == 'one-entry':
        data = np.zeros(shape); data[tuple(int(rng.integers(s)) for s in shape)] = float(rng.integers(1, 50))
    if mask_kind is None:
        kinds_m = ['corners', 'none', 'none', 'sparse', 'dense', 'single', 'line']
        if (data == 0).any():
            kinds_m += ['on-zeros', 'on-zeros', 'on-zeros', 'zero-slice']
        mask_kind = kinds_m[int(rng.integers(len(kinds_m)))]
    mk = mask_kind
    mask = np.zeros(shape, dtype=bool)
    if mk == 'sparse':
        mask = rng.random(shape) < 0.06
    elif mk == 'dense':
        mask = rng.random(shape) < 0.4
    elif mk == 'single':
        mask[tuple(int(rng.integers(s)) for s in shape)] = True
    elif mk == 'line':
        ax = int(rng.integers(d)); sl = [int(rng.integers(s)) for s in shape]; sl[ax] = slice(None)
        mask[tuple(sl)] = True
    elif mk == 'on-zeros':
        # 1..3 masked entries, all of them on bins holding an exact zero (excluded empty bins)
        z = np.argwhere(data == 0)
        for r in rng.permutation(len(z))[:int(rng.integers(1, 4))]:
            mask[tuple(z[r])] = True
    elif mk == 'zero-slice':
        # a masked entry inside a slice that is zero throughout (falls back to any zero bin)
        cand = []
        for ax in range(d):
            for k in range(shape[ax]):
                sl = [slice(None)] * d; sl[ax] = k
                if not data[tuple(sl)].any():
                    cand.append((ax, k))
        if cand:
            ax, k = cand[int(rng.integers(len(cand)))]
            idx = [int(rng.integers(s)) for s in shape]; idx[ax] = k
            mask[tuple(idx)] = True
        else:
            z = np.argwhere(data == 0)
            if len(z):
                mask[tuple(z[int(rng.integers(len(z)))])] = True
    mask_corners = (mk != 'none') and (mk == 'corners' or rng.random() < 0.5)
    if mk in ('on-zeros', 'zero-slice') and rng.random() < 0.5:
        mask_corners = False
    if folded is None:
        folded = bool(rng.random() < 0.4)
    return dict(kind='project', d=d, shape=shape, ns=ns, ns_kinds=kinds, data=data, mask=mask, mask_corners=mask_corners,
                mask_kind=mk, data_kind=data_kind, folded=folded)

def build(dadi, c):
    """the Spectrum the case describes (unfolded source S, and F = S.fold() when the case is folded)"""
    S = dadi.Spectrum(np.array(c['data'], dtype=float), mask=np.array(c['mask'], dtype=bool), mask_corners=bool(c['mask_corners']))
    return S.fold() if c['folded'] else S

def small(c):
    if c.get('recipe') is not None:            # large spectra: the replay stores the recipe (sizes, targets, seed of the data), not 2e5 numbers
        return dict(c['recipe'], kind='large', axis=c.get('axis'))
    return dict(kind=c['kind'], d=c['d'], shape=list(c['shape']), ns=list(c['ns']), folded=bool(c['folded']),
                mask_corners=bool(c['mask_corners']), mask_kind=c.get('mask_kind'), data_kind=c.get('data_kind'), data=np.asarray(c['data'], dtype=float),
                mask=np.asarray(c['mask'], dtype=int), axis=c.get('axis'))

def cmp_spec(impl, mdata, mmask, mfolded):
    """(ok, what, err): mask exactly, folded flag, data at unmasked entries relative to the array scale"""
    idata = np.asarray(impl.data, dtype=float); imask = np.array(np.ma.getmaskarray(impl))
    if idata.shape != mdata.shape:
        return False, 'shape %r vs %r' % (idata.shape, mdata.shape), None
    if bool(impl.folded) != bool(mfolded):
        return False, 'folded flag %r vs %r' % (impl.folded, mfolded), None
    if not np.array_equal(imask, mmask):
        return False, 'mask differs at %d entries' % int(np.sum(imask != mmask)), None
    um = ~mmask
    scale = float(np.max(np.abs(mdata))) if mdata.size else 0.0
    if not np.all(np.isfinite(idata[um])):
        return False, 'non-finite data', None
    err = float(np.max(np.abs(idata[um] - mdata[um]))) if um.any() else 0.0
    return err <= RTOL * scale, 'data differ by %.3g (scale %.3g)' % (err, scale), err

def check_project_case(chk, ctx, c, do_model=True):
    dadi = ctx['dadi']
    inp = small(c)
    fs = build(dadi, c)
    ns = list(c['ns'])
    key = ('project', c['d'], c['folded'], c.get('mask_kind'), c.get('data_kind'), tuple(sorted(set(c.get('ns_kinds', [])))), max(c['shape']) > 20)
    src_data = np.array(fs.data, dtype=float); src_mask = np.array(np.ma.getmaskarray(fs))
    try:
        dadi.Numerics._projection_cache.clear() if c.get('cold') else None
        p = fs.project(ns)
    except Exception as e:
        chk.l3(key)
        chk.fail('project:raises:%s' % type(e).__name__, 'Spectrum.project(%r) on shape %r raises %r' % (ns, c['shape'], e), inp)
        return
    chk.l3(key)
    pdata = np.asarray(p.data, dtype=float); pmask = np.array(np.ma.getmaskarray(p))
    # source untouched
    if not (np.array_equal(src_data, np.asarray(fs.data)) and np.array_equal(src_mask, np.ma.getmaskarray(fs))):
        chk.fail('project:mutates-source', 'Spectrum.project modified its source', inp)
    shape_ok = tuple(p.shape) == tuple(m + 1 for m in ns)
    if not shape_ok:
        chk.fail('project:shape', 'result shape %r for ns=%r' % (p.shape, ns), inp)
    if bool(p.folded) != bool(c['folded']):
        chk.fail('project:folded-flag', 'result.folded=%r for source.folded=%r' % (p.folded, c['folded']), inp)
    # ---- L3 from the property text
    if not shape_ok:
        pass
    elif not c['folded']:
        rd, rm = ref_project(src_data, src_mask, ns)
        if all(m == s - 1 for m, s in zip(ns, c['shape'])):
            rm = src_mask.copy()
        scale = float(np.max(np.abs(rd)))
        if not np.array_equal(pmask, rm):
            bad = np.argwhere(pmask != rm)[0].tolist()
            chk.fail('project:mask', 'mask of the projection differs from "masked iff a masked source entry can contribute" at %d entries, e.g. %r (impl %r)'
                     % (int(np.sum(pmask != rm)), bad, bool(pmask[tuple(bad)])), inp)
        um = ~(pmask | rm)
        err = float(np.max(np.abs(pdata[um] - rd[um]))) if um.any() else 0.0
        if not np.all(np.isfinite(pdata[um])) or err > RTOL * scale:
            bad = np.argwhere(um & ~(np.abs(pdata - rd) <= RTOL * scale))[0].tolist()
            chk.fail('project:entry', 'entry %r is %r, expected count under sampling without replacement is %r (max error %.3g, scale %.3g)'
                     % (bad, float(pdata[tuple(bad)]), float(rd[tuple(bad)]), err, scale), inp)
        # total count: observable when nothing is masked (then nothing is masked afterwards either)
        if not src_mask.any():
            chk.l3(('total', c['d'], tuple(c.get('ns_kinds', []))))
            t0 = float(fs.sum()); t1 = float(p.sum())
            if pmask.any() or not abs(t1 - t0) <= 1e-9 * float(np.sum(np.abs(src_data))) + 1e-300:
                chk.fail('project:total', 'total %r before, %r after projection to %r (masked entries after: %d)' % (t0, t1, ns, int(pmask.sum())), inp)
    else:
        # F = fold(S):  F.project = fold(project(unfold F))   and   = fold(project(S))
        S = dadi.Spectrum(np.array(c['data'], dtype=float), mask=np.array(c['mask'], dtype=bool), mask_corners=bool(c['mask_corners']))
        try:
            q = fs.unfold().project(ns).fold()
            r = S.project(ns).fold()
        except Exception as e:
            chk.fail('project:folded:raises:%s' % type(e).__name__, 'fold/unfold route raises %r' % (e,), inp); q = r = None
        # independent of Spectrum.project: exact hypergeometric projection (data and mask spread) of unfold(F), then fold
        try:
            U = fs.unfold()
            ud, umk = ref_project(np.asarray(U.data, dtype=float), np.array(np.ma.getmaskarray(U)), ns)
            ref = dadi.Spectrum(ud, mask=umk, mask_corners=False).fold()
            refm = np.array(np.ma.getmaskarray(ref))
            if not np.array_equal(pmask, refm):
                bad = np.argwhere(pmask != refm)[0].tolist()
                chk.fail('project:folded:mask-ref', 'mask of folded.project(ns) differs from fold(exact projection of unfold) at %d entries, e.g. %r (impl %r): '
                         'a masked source entry must mask exactly the entries it can contribute to' % (int(np.sum(pmask != refm)), bad, bool(pmask[tuple(bad)])), inp)
            else:
                um2 = ~refm; sc2 = float(np.max(np.abs(np.asarray(ref.data)))) or 1.0
                e2 = float(np.max(np.abs(pdata[um2] - np.asarray(ref.data)[um2]))) if um2.any() else 0.0
                if e2 > RTOL * sc2:
                    chk.fail('project:folded:entry', 'folded.project(ns) differs from fold(exact projection of unfold) by %.3g (scale %.3g)' % (e2, sc2), inp)
        except Exception as e:
            chk.fail('project:folded:ref-raises:%s' % type(e).__name__, 'unfold/fold around the reference projection raises %r' % (e,), inp)
        if q is not None:
            qm = np.array(np.ma.getmaskarray(q)); rmk = np.array(np.ma.getmaskarray(r))
            um = ~pmask
            sc = float(np.max(np.abs(np.asarray(r.data)))) or 1.0
            if not np.array_equal(pmask, qm) or (um.any() and float(np.max(np.abs(pdata[um] - np.asarray(q.data)[um]))) > RTOL * sc):
                chk.fail('project:folded:route', 'folded.project(ns) differs from unfold().project(ns).fold()', inp)
            if not np.array_equal(pmask, rmk):
                chk.fail('project:folded:mask', 'fold(S).project(ns) and fold(S.project(ns)) have different masks (%d entries)' % int(np.sum(pmask != rmk)), inp)
            else:
                err = float(np.max(np.abs(pdata[um] - np.asarray(r.data)[um]))) if um.any() else 0.0
                if err > RTOL * sc:
                    chk.fail('project:folded:commute', 'fold(S).project(ns) differs from fold(S.project(ns)) by %.3g (scale %.3g)' % (err, sc), inp)
    # ---- K
    if do_model and have_driver(ctx):
        out = ctx['driver'].ask(project_line(c['folded'], ns, src_data, src_mask))
        op = 'project:%dD:%s' % (c['d'], 'folded' if c['folded'] else 'unfolded')
        if not out.startswith('ok '):
            chk.k_bad(op, inp, 'result of shape %r' % (p.shape,), out, None)
        else:
            md, mm, mf = parse_spec(out)
            ok, what, err = cmp_spec(p, md, mm, mf)
            if ok: chk.k_ok(op)
            else: chk.k_bad(op, inp, dict(data=pdata, mask=pmask.astype(int), folded=bool(p.folded)), what, err)
    chk.stat('dim:%d' % c['d']); chk.stat('folded:%s' % c['folded']); chk.stat('mask:%s' % c.get('mask_kind')); chk.stat('data:%s' % c.get('data_kind'))
    chk.stat('masked-entry-on-zero-data:%s' % bool((src_mask & (src_data == 0)).any()))
    for k in c.get('ns_kinds', []): chk.stat('ns:%s' % k)
    chk.sample(dict(op='project', shape=c['shape'], ns=ns, folded=c['folded'], mask=c.get('mask_kind'), masked_in=int(src_mask.sum()), masked_out=int(pmask.sum())))

def check_one_axis_case(chk, ctx, c, do_model=True):
    """`_project_one_axis(m, axis)` directly (unfolded spectra; the method ignores folding)"""
    dadi = ctx['dadi']
    ax = int(c['axis']); m = int(c['ns'][ax])
    inp = small(c)
    fs = dadi.Spectrum(np.array(c['data'], dtype=float), mask=np.array(c['mask'], dtype=bool), mask_corners=bool(c['mask_corners']))
    src_data = np.array(fs.data, dtype=float); src_mask = np.array(np.ma.getmaskarray(fs))
    try:
        p = fs._project_one_axis(m, ax)
    except Exception as e:
        chk.fail('_project_one_axis:raises:%s' % type(e).__name__, '_project_one_axis(%d, %d) raises %r' % (m, ax, e), inp); return
    chk.l3(('one-axis', c['d'], ax, c.get('mask_kind'), c.get('data_kind')))
    ns1 = [s - 1 for s in c['shape']]; ns1[ax] = m
    rd, rm = ref_project(src_data, src_mask, ns1)
    pdata = np.asarray(p.data); pmask = np.array(np.ma.getmaskarray(p))
    scale = float(np.max(np.abs(rd)))
    if pdata.shape != rd.shape or not np.array_equal(pmask, rm) or (not rm.all() and float(np.max(np.abs(pdata - rd)[~rm])) > RTOL * scale):
        chk.fail('_project_one_axis:value', '_project_one_axis(%d, axis=%d) differs from the hypergeometric projection of that axis' % (m, ax), inp)
    if do_model and have_driver(ctx):
        out = ctx['driver'].ask('project1 %d %d 0 %s %s' % (ax, m, fmt_nd(src_data), fmt_nd(src_mask.astype(int))))
        if not out.startswith('ok '):
            chk.k_bad('project_one_axis', inp, 'result', out, None)
        else:
            md, mm, mf = parse_spec(out)
            ok, what, err = cmp_spec(p, md, mm, mf)
            if ok: chk.k_ok('project_one_axis')
            else: chk.k_bad('project_one_axis', inp, dict(data=pdata, mask=pmask.astype(int)), what, err)

def project_line(folded, ns, data, mask):
    return 'project %s %s %s %s' % ('1' if folded else '0', ','.join(str(int(m)) for m in ns) if len(ns) else '-', fmt_nd(data), fmt_nd(np.asarray(mask, dtype=int)))

def check_refusals(chk, ctx, rng, count):
    """upward projection (any axis) and a wrong number of sizes must raise ValueError and leave nothing half-done"""
    dadi = ctx['dadi']
    for it in range(count):
        c = gen_case(rng, 'quick', folded=bool(it % 3 == 0))
        fs = build(dadi, c)
        sizes = [s - 1 for s in c['shape']]
        mode = ['up-one', 'up-all', 'up-by-1', 'dim-short', 'dim-long', 'equal'][it % 6]
        ns = list(c['ns'])
        if mode == 'up-one':
            k = int(rng.integers(c['d'])); ns[k] = sizes[k] + int(rng.integers(1, 5))
        elif mode == 'up-all':
            ns = [s + int(rng.integers(1, 4)) for s in sizes]
        elif mode == 'up-by-1':
            k = int(rng.integers(c['d'])); ns = list(sizes); ns[k] = sizes[k] + 1
        elif mode == 'dim-short':
            ns = ns[:-1]
        elif mode == 'dim-long':
            ns = ns + [1]
        else:
            ns = list(sizes)
        if rng.random() < 0.3:
            ns_arg = np.array(ns, dtype=int)
        elif rng.random() < 0.5:
            ns_arg = tuple(ns)
        else:
            ns_arg = list(ns)
        inp = dict(small(c), kind='refusal', ns=list(ns), mode=mode)
        want = {'up-one': 'up', 'up-all': 'up', 'up-by-1': 'up', 'dim-short': 'dim', 'dim-long': 'dim', 'equal': None}[mode]
        chk.l3(('refusal', mode, c['d'], c['folded']))
        raised = None; res = None
        try:
            res = fs.project(ns_arg)
        except ValueError as e:
            raised = 'ValueError'
        except Exception as e:
            raised = type(e).__name__
        if want is not None and raised is None:
            chk.fail('project:%s-accepted' % want, 'Spectrum.project(%r) on sample sizes %r returned a spectrum of shape %r instead of refusing'
                     % (ns, sizes, getattr(res, 'shape', None)), inp)
        elif want is not None and raised != 'ValueError':
            chk.fail('project:%s-wrong-exception:%s' % (want, raised), 'Spectrum.project(%r) on sample sizes %r raised %s, documented refusal is ValueError' % (ns, sizes, raised), inp)
        elif want is None and raised is not None:
            chk.fail('project:equal-refused', 'projecting to the same sizes %r raised %s' % (ns, raised), inp)
        if have_driver(ctx):
            out = ctx['driver'].ask(project_line(c['folded'], ns, np.asarray(fs.data), np.ma.getmaskarray(fs)))
            model = out.split(' ')[1] if out.startswith('err ') else None
            impl = {None: None, 'ValueError': want}.get(raised, raised)
            if (model is None) == (raised is None) and (model is None or model == want):
                chk.k_ok('project:refusal')
            else:
                chk.k_bad('project:refusal', inp, raised, out[:60], None)
        chk.stat('refusal:' + mode)
    # _project_one_axis upward
    for it in range(max(4, count // 4)):
        c = gen_case(rng, 'quick', folded=False)
        fs = build(dadi, c)
        ax = int(rng.integers(c['d'])); m = c['shape'][ax] - 1 + int(rng.integers(1, 4))
        chk.l3(('refusal', 'one-axis', c['d']))
        inp = dict(small(c), kind='refusal-one-axis', axis=ax, m=m)
        try:
            fs._project_one_axis(m, ax)
            chk.fail('_project_one_axis:up-accepted', '_project_one_axis(%d, %d) on shape %r did not refuse' % (m, ax, c['shape']), inp)
            raised = False
        except ValueError:
            raised = True
        except Exception as e:
            chk.fail('_project_one_axis:up-wrong-exception:%s' % type(e).__name__, '_project_one_axis upward raised %r' % (e,), inp); raised = True
        if have_driver(ctx):
            out = ctx['driver'].ask('project1 %d %d 0 %s %s' % (ax, m, fmt_nd(np.asarray(fs.data)), fmt_nd(np.ma.getmaskarray(fs).astype(int))))
            if (out == 'err up') == raised: chk.k_ok('project_one_axis:refusal')
            else: chk.k_bad('project_one_axis:refusal', inp, raised, out[:60], None)

# --------------------------------------------------------------------------- whole-array clauses: raw totals, reversal, fold after projection
def parse_rat(out):
    """'ok a/b' -> float"""
    t = out.split(' ')[1]
    if '/' in t:
        a, b = t.split('/')
        return int(a) / int(b)
    return float(int(t))

def reversed_spectrum(dadi, fs):
    """`Numerics.reverse_array` on data and mask of `fs`: a Spectrum of the same folding status, no corner masking added"""
    rd = np.array(dadi.Numerics.reverse_array(np.asarray(fs.data, dtype=float)))
    rm = np.array(dadi.Numerics.reverse_array(np.array(np.ma.getmaskarray(fs))))
    return dadi.Spectrum(rd, mask=rm, mask_corners=False, data_folded=bool(fs.folded))

def check_array_case(chk, ctx, c):
    """clauses that are theorems about the whole array of the model (C08_total_array, C08_mirror_array,
    C08_fold_commute, C08_axes_commute_array), evaluated on the real code (L3) and model vs code (K: `mirror`, `total`, `ptotal`)"""
    dadi = ctx['dadi']
    inp = dict(small(c), kind='array')
    S = dadi.Spectrum(np.array(c['data'], dtype=float), mask=np.array(c['mask'], dtype=bool), mask_corners=bool(c['mask_corners']))
    ns = list(c['ns'])
    sdata = np.array(S.data, dtype=float); smask = np.array(np.ma.getmaskarray(S))
    key = ('array', c['d'], c.get('mask_kind'), c.get('data_kind'))
    try:
        R = reversed_spectrum(dadi, S)
        P = S.project(ns)
        Q = R.project(ns)
        RP = reversed_spectrum(dadi, P)
        PF = P.fold(); QF = Q.fold()
        FP = S.fold().project(ns)
    except Exception as e:
        chk.l3(key)
        chk.fail('project:array:raises:%s' % type(e).__name__, 'reverse/project/fold chain raises %r' % (e,), inp)
        return
    chk.l3(key)
    # reverse_array itself, against its definition (every axis reversed)
    idx = tuple(slice(None, None, -1) for _ in sdata.shape)
    if not (np.array_equal(np.asarray(R.data), sdata[idx]) and np.array_equal(np.ma.getmaskarray(R), smask[idx])):
        chk.fail('reverse_array:value', 'Numerics.reverse_array does not reverse every axis of a %d-D array' % c['d'], inp)
    # projection commutes with reversing every axis (data and mask)
    ok, what = spec_close(Q, RP)
    if not ok:
        chk.fail('project:mirror', 'reverse_array(S).project(%r) differs from reverse_array(S.project(%r)): %s' % (ns, ns, what), inp)
    # fold(project(S)) = fold(project(reverse(S)))
    ok, what = spec_close(QF, PF)
    if not ok:
        chk.fail('project:fold-mirror', 'fold(project(reverse_array(S))) differs from fold(project(S)): %s' % what, inp)
    # fold(S).project(ns) = fold(S.project(ns)): same mask, same data at unmasked entries, folded flag
    ok, what = spec_close(FP, PF)
    if not ok or not bool(FP.folded):
        chk.fail('project:fold-commute', 'S.fold().project(%r) differs from S.project(%r).fold(): %s' % (ns, ns, what if not ok else 'folded flag'), inp)
    # raw totals (observable when nothing is masked): conserved by project, by fold and by the projection of the folded spectrum
    clean = not smask.any()
    if clean:
        t0 = float(sdata.sum()); sc = float(np.sum(np.abs(sdata))) + 1e-300
        for name, arr in (('project', P), ('fold', S.fold()), ('fold().project', FP), ('project().fold', PF)):
            t1 = float(np.asarray(arr.data, dtype=float).sum())
            chk.l3(('raw-total', name, c['d']))
            if not abs(t1 - t0) <= 1e-9 * sc:
                chk.fail('project:raw-total:%s' % name, 'sum of the data array is %r before and %r after %s to %r' % (t0, t1, name, ns), inp)
    # ---- K
    if have_driver(ctx):
        drv = ctx['driver']
        out = drv.ask('mirror 0 %s %s' % (fmt_nd(sdata), fmt_nd(smask.astype(int))))
        if not out.startswith('ok '):
            chk.k_bad('mirror', inp, 'reverse_array', out[:60], None)
        else:
            md, mm, mf = parse_spec(out)
            if md.shape == sdata.shape and np.array_equal(mm, np.ma.getmaskarray(R)) and close(np.asarray(R.data), md, rtol=RTOL)[0] and not mf:
                chk.k_ok('mirror')
            else:
                chk.k_bad('mirror', inp, dict(data=np.asarray(R.data), mask=np.ma.getmaskarray(R).astype(int)), out[:200], None)
        out = drv.ask('total 0 %s %s' % (fmt_nd(sdata), fmt_nd(smask.astype(int))))
        if out.startswith('ok ') and abs(parse_rat(out) - float(sdata.sum())) <= 1e-9 * (float(np.sum(np.abs(sdata))) + 1e-300):
            chk.k_ok('total')
        else:
            chk.k_bad('total', inp, float(sdata.sum()), out[:60], None)
        if clean:
            for folded, impl in ((False, P), (True, FP)):
                src = S.fold() if folded else S
                out = drv.ask('ptotal %s %s %s %s' % ('1' if folded else '0', ','.join(str(int(m)) for m in ns),
                                                     fmt_nd(np.asarray(src.data, dtype=float)), fmt_nd(np.array(np.ma.getmaskarray(src)).astype(int))))
                t1 = float(np.asarray(impl.data, dtype=float).sum())
                op = 'ptotal:%s' % ('folded' if folded else 'unfolded')
                if out.startswith('ok ') and abs(parse_rat(out) - t1) <= 1e-9 * (float(np.sum(np.abs(sdata))) + 1e-300):
                    chk.k_ok(op)
                else:
                    chk.k_bad(op, inp, t1, out[:60], None)
    chk.stat('array:dim:%d' % c['d']); chk.stat('array:clean:%s' % clean)

def l3_arrays(chk, ctx, rng, count):
    for it in range(count):
        mk = [None, 'none', 'none', 'single', 'sparse'][it % 5]
        c = gen_case(rng, ctx['tier'], d=1 + it % 4, folded=False, mask_kind=mk)
        if mk == 'none':
            c['mask_corners'] = False
        check_array_case(chk, ctx, c)


# --------------------------------------------------------------------------- metamorphic L3 (property clauses)
def spec_close(a, b, what_mask=True):
    am = np.array(np.ma.getmaskarray(a)); bm = np.array(np.ma.getmaskarray(b))
    if a.shape != b.shape: return False, 'shape'
    if what_mask and not np.array_equal(am, bm): return False, 'mask (%d entries)' % int(np.sum(am != bm))
    um = ~(am | bm)
    sc = float(np.max(np.abs(np.asarray(b.data)))) or 1.0
    err = float(np.max(np.abs(np.asarray(a.data)[um] - np.asarray(b.data)[um]))) if um.any() else 0.0
    return err <= RTOL * sc, 'data by %.3g (scale %.3g)' % (err, sc)

def l3_compose_and_order(chk, ctx, rng, count):
    dadi = ctx['dadi']
    for it in range(count):
        c = gen_case(rng, ctx['tier'], folded=bool(it % 4 == 0))
        fs = build(dadi, c)
        sizes = [s - 1 for s in c['shape']]
        ns2 = list(c['ns'])
        mid = [int(rng.integers(m, n + 1)) for m, n in zip(ns2, sizes)]
        inp = dict(small(c), kind='compose', mid=mid)
        try:
            once = fs.project(ns2)
            twice = fs.project(mid).project(ns2)
        except Exception as e:
            chk.fail('project:compose:raises:%s' % type(e).__name__, 'two-stage projection raises %r' % (e,), inp); continue
        chk.l3(('compose', c['d'], c['folded'], c.get('mask_kind')))
        ok, what = spec_close(twice, once, what_mask=not c['folded'])
        if not ok:
            chk.fail('project:compose', 'projecting %r -> %r -> %r differs from %r -> %r: %s' % (sizes, mid, ns2, sizes, ns2, what), inp)
        # axis order: one axis at a time, in a random order
        if c['d'] >= 2:
            order = [int(k) for k in rng.permutation(c['d'])]
            cur = fs; cur_ns = list(sizes)
            try:
                for k in order:
                    cur_ns[k] = ns2[k]
                    cur = cur.project(list(cur_ns))
            except Exception as e:
                chk.fail('project:order:raises:%s' % type(e).__name__, 'axis-by-axis projection raises %r' % (e,), inp); continue
            chk.l3(('order', c['d'], tuple(order), c['folded']))
            ok, what = spec_close(cur, once, what_mask=not c['folded'])
            if not ok:
                chk.fail('project:axis-order', 'projecting axes in order %r differs from projecting all at once: %s' % (order, what), dict(inp, order=order))
            if not c['folded']:
                # the private method in both orders on the first two changing axes
                ch = [k for k in range(c['d']) if ns2[k] != sizes[k]]
                if len(ch) >= 2:
                    a, b = ch[0], ch[1]
                    x1 = fs._project_one_axis(ns2[a], a)._project_one_axis(ns2[b], b)
                    x2 = fs._project_one_axis(ns2[b], b)._project_one_axis(ns2[a], a)
                    ok, what = spec_close(x1, x2)
                    chk.l3(('order-private', c['d'], a, b))
                    if not ok:
                        chk.fail('_project_one_axis:axis-order', 'axes %d,%d do not commute: %s' % (a, b, what), dict(inp, axes=[a, b]))

def l3_neutral(chk, ctx, rng, count):
    """the neutral spectrum θ/i projects to θ/j (1-D), and θ/(i+j)-style products are not assumed"""
    dadi = ctx['dadi']
    big = 200 if ctx['tier'] == 'thorough' else 120
    for it in range(count):
        n = [2, 3, 5, 10, 40, big, int(rng.integers(2, big + 1))][it % 7]
        m = [1, 2, n // 2, n - 1, n, int(rng.integers(1, n + 1))][int(rng.integers(6))]
        m = max(1, min(n, m))
        theta = float(gen.round_sig(float(rng.uniform(0.1, 1000)), 20))
        x = np.zeros(n + 1); x[1:n] = theta / np.arange(1, n); x[0] = float(rng.uniform(0, 5)); x[n] = float(rng.uniform(0, 5))
        fs = dadi.Spectrum(x)
        inp = dict(kind='neutral', n=n, m=m, theta=theta, x0=float(x[0]), xn=float(x[n]))
        try:
            p = fs.project([m])
        except Exception as e:
            chk.fail('project:neutral:raises:%s' % type(e).__name__, 'raises %r' % (e,), inp); continue
        chk.l3(('neutral', n, m))
        if m >= 2:
            ex = theta / np.arange(1, m)
            got = np.asarray(p.data)[1:m]
            pm = np.array(np.ma.getmaskarray(p))
            if pm[1:m].any():
                chk.fail('project:neutral:mask', 'interior entries of the projected neutral spectrum are masked', inp)
            err = float(np.max(np.abs(got - ex)))
            if err > RTOL * theta:
                chk.fail('project:neutral', 'neutral spectrum θ/i (n=%d) projected to m=%d is not θ/j: max error %.3g (θ=%.6g)' % (n, m, err, theta), inp)

def _lowpass(chk):
    try:
        import importlib
        return importlib.import_module('dadi.LowPass.LowPass')
    except Exception as e:
        chk.notes.append('LowPass not importable: %r' % (e,)); return None

def check_lowpass_f0(chk, ctx, LP, n, m, history, rng=None, do_model=True):
    """one F = 0 call of LowPass.projection_matrix in a given call history: entrywise hypergeometric (L3, exact comb weights),
    equal to the model's rows (K), consistent with Spectrum.project on a random spectrum and on unit spectra"""
    dadi = ctx['dadi']
    inp = dict(kind='lowpass', n=n, m=m, history=[list(h) for h in history])
    try:
        M = np.array(LP.projection_matrix(n, m, 0), dtype=float)
    except Exception as e:
        chk.fail('LowPass.projection_matrix:raises:%s' % type(e).__name__, 'projection_matrix(%d,%d,0) raises %r after calls %r' % (n, m, e, history), inp)
        return None
    chk.l3(('lowpass', n, m, len(history), tuple(sorted(set(round(h[2], 3) for h in history)))[:3]))
    H = W(n, m)
    if M.shape != H.shape or not np.all(np.isfinite(M)) or float(np.max(np.abs(M - H))) > RTOL:
        err = float(np.max(np.abs(M - H))) if M.shape == H.shape else float('inf')
        chk.fail('LowPass.projection_matrix:value', 'projection_matrix(%d,%d,F=0) after the calls %r is not the hypergeometric matrix (max abs error %.3g)'
                 % (n, m, [tuple(h) for h in history], err), inp)
    elif rng is not None:
        x = gen.coarse(rng.uniform(0, 10, n + 1), 20)
        try:
            p = dadi.Spectrum(x, mask_corners=False).project([m])
            if float(np.max(np.abs(x.dot(M) - np.asarray(p.data)))) > RTOL * float(np.max(np.abs(x))) * (n + 1):
                chk.fail('LowPass.projection_matrix:vs-project', 'x·projection_matrix(%d,%d,0) differs from Spectrum(x).project([%d])' % (n, m, m), dict(inp, x=x))
        except Exception as e:
            chk.fail('project:raises:%s' % type(e).__name__, 'Spectrum.project raises %r' % (e,), dict(inp, x=x))
    if do_model and have_driver(ctx):
        out = ctx['driver'].ask('projmat %d %d' % (m, n))
        if out.startswith('ok '):
            model = np.array([parse_floats(r) for r in out[3:].split(';')])
            if M.shape == model.shape and float(np.max(np.abs(M - model))) <= RTOL: chk.k_ok('lowpass:projection_matrix')
            else: chk.k_bad('lowpass:projection_matrix', inp, M, model, None)
        else:
            chk.k_bad('lowpass:projection_matrix', inp, M, out[:60], None)
    return M

def l3_lowpass_history(chk, ctx, rng, count):
    """LowPass.projection_matrix is called once per population with that population's inbreeding coefficient; the F = 0 operator
    must be the hypergeometric one whatever was computed before: F > 0 first then F = 0 (same sizes), the reverse, several F values,
    other sizes in between, repeated calls.  Sizes are even (diploid genotype partitions) for the F > 0 calls."""
    LP = _lowpass(chk)
    if LP is None:
        return
    used = set()
    for it in range(count):
        # fresh sizes whenever possible, so that the very first call for these sizes in this process has F > 0
        for _ in range(20):
            n = 2 * int(rng.integers(1, 10)); m = 2 * int(rng.integers(1, n // 2 + 1))
            if (n, m) not in used: break
        used.add((n, m))
        Fs = [float(f) for f in rng.choice([0.05, 0.25, 0.5, 0.75, 0.9], size=2, replace=False)]
        n2 = 2 * int(rng.integers(1, 8)); m2 = 2 * int(rng.integers(1, n2 // 2 + 1))
        pattern = [['F', '0'], ['F', 'G', '0'], ['F', 'other', '0'], ['0', 'F', '0'], ['F', '0', 'F', '0'], ['otherF', 'F', '0', 'other0']][it % 6]
        history = []; firstF = {}
        chk.stat('lowpass_history:' + '-'.join(pattern))
        for step in pattern:
            if step == '0':
                check_lowpass_f0(chk, ctx, LP, n, m, history, rng); history.append((n, m, 0.0))
            elif step == 'other0':
                check_lowpass_f0(chk, ctx, LP, n2, m2, history, rng); history.append((n2, m2, 0.0))
            else:
                nn, mm, F = {'F': (n, m, Fs[0]), 'G': (n, m, Fs[1]), 'other': (n2, m2, Fs[0]), 'otherF': (n2, m2, Fs[1])}[step]
                inp = dict(kind='lowpass', n=nn, m=mm, F=F, history=[list(h) for h in history])
                try:
                    M = np.array(LP.projection_matrix(nn, mm, F), dtype=float)
                except Exception as e:
                    chk.fail('LowPass.projection_matrix:raises:%s' % type(e).__name__, 'projection_matrix(%d,%d,%g) raises %r' % (nn, mm, F, e), inp)
                    history.append((nn, mm, F)); continue
                chk.l3(('lowpass-F', nn, mm, F))
                # same arguments, same answer (whatever happened in between)
                k = (nn, mm, F)
                if k in firstF and (M.shape != firstF[k].shape or float(np.max(np.abs(M - firstF[k]))) > RTOL):
                    chk.fail('LowPass.projection_matrix:history', 'projection_matrix(%d,%d,%g) returns different matrices before and after the calls %r'
                             % (nn, mm, F, [tuple(h) for h in history]), inp)
                firstF.setdefault(k, M)
                history.append(k)
        # composition of two F = 0 operators built in this history: n -> k -> m equals n -> m
        if m < n:
            kmid = int(rng.integers(m, n + 1))
            A = check_lowpass_f0(chk, ctx, LP, n, kmid, history); history.append((n, kmid, 0.0))
            B = check_lowpass_f0(chk, ctx, LP, kmid, m, history); history.append((kmid, m, 0.0))
            C = check_lowpass_f0(chk, ctx, LP, n, m, history)
            if A is not None and B is not None and C is not None and A.shape[1] == B.shape[0] and float(np.max(np.abs(A.dot(B) - C))) > RTOL:
                chk.fail('LowPass.projection_matrix:compose', 'projection_matrix %d->%d->%d differs from %d->%d (F=0)' % (n, kmid, m, n, m),
                         dict(kind='lowpass', n=n, m=m, mid=kmid, history=[list(h) for h in history]))

def l3_lowpass(chk, ctx, rng, count):
    """LowPass.projection_matrix(n, m, F=0) is the matrix of rows `_cached_projection(m, n, i)` (any parity of the sizes)"""
    LP = _lowpass(chk)
    if LP is None:
        return
    for _ in range(count):
        n = int(rng.integers(1, 40)); m = int(rng.integers(1, n + 1))
        check_lowpass_f0(chk, ctx, LP, n, m, [], rng)

def order_weights(chk, ctx, rng, nmax):
    """call order must not matter: cache emptied, then larger n first / shuffled order; `Spectrum.project` cold with the large
    size first, then smaller ones warm, then the large one again"""
    dadi = ctx['dadi']; N = dadi.Numerics
    trip = [(m, n, i) for n in range(1, nmax + 1) for m in range(1, n + 1) for i in range(n + 1)]
    for name, seq in (('descending', trip[::-1]), ('shuffled', [trip[k] for k in rng.permutation(len(trip))])):
        N._projection_cache.clear()
        for (m, n, i) in seq:
            check_row(chk, dadi, m, n, i, None)
        chk.l3(('weights-order', name, nmax)); chk.stat('weights_order:' + name, len(seq))
    for it in range(6):
        n = int(rng.integers(12, 40)); x = gen.coarse(rng.uniform(0, 9, n + 1), 20)
        fs = dadi.Spectrum(x, mask_corners=False)
        ms = sorted(set(int(v) for v in rng.integers(1, n + 1, size=4)), reverse=bool(it % 2))
        N._projection_cache.clear()
        first = {}
        for rep in range(2):
            for m in ms:
                inp = dict(kind='project', d=1, shape=[n + 1], ns=[m], folded=False, mask_corners=False, mask_kind='none', data=x, mask=np.zeros(n + 1, int))
                try:
                    p = np.asarray(fs.project([m]).data, dtype=float)
                except Exception as e:
                    chk.fail('project:raises:%s' % type(e).__name__, 'Spectrum.project([%d]) raises %r' % (m, e), inp); continue
                chk.l3(('project-order', n, m, rep))
                ex = x.dot(W(n, m))
                if float(np.max(np.abs(p - ex))) > RTOL * float(np.max(np.abs(ex))):
                    chk.fail('project:entry', 'project([%d]) from n=%d (call order %r, repetition %d) is not the hypergeometric projection' % (m, n, ms, rep), inp)
                if m in first and not np.array_equal(first[m], p):
                    chk.fail('project:history', 'project([%d]) from n=%d gives different results cold and warm' % (m, n), inp)
                first.setdefault(m, p)

def l3_attrs(chk, ctx, rng, count):
    """labels and extrap_x survive; int-like ns types are accepted"""
    dadi = ctx['dadi']
    for it in range(count):
        c = gen_case(rng, 'quick', folded=bool(it % 2))
        fs = build(dadi, c)
        fs.pop_ids = ['p%d' % k for k in range(c['d'])]; fs.extrap_x = 0.125
        ns = [np.int64(m) for m in c['ns']] if it % 3 == 0 else (np.array(c['ns']) if it % 3 == 1 else tuple(c['ns']))
        inp = dict(small(c), kind='attrs')
        try:
            p = fs.project(ns); q = fs.project(list(c['ns']))
        except Exception as e:
            chk.fail('project:ns-type:raises:%s' % type(e).__name__, 'project(%r) raises %r' % (ns, e), inp); continue
        chk.l3(('attrs', c['d'], it % 3, c['folded']))
        if p.pop_ids != fs.pop_ids or p.extrap_x != fs.extrap_x:
            chk.fail('project:attrs', 'pop_ids/extrap_x not carried over: %r %r' % (p.pop_ids, p.extrap_x), inp)
        ok, what = spec_close(p, q)
        if not ok:
            chk.fail('project:ns-type', 'result depends on the container type of ns: %s' % what, inp)


# --------------------------------------------------------------------------- history: cache soundness, data dictionaries
def cache_soundness(chk, ctx, after, limit=None, rng=None):
    """every row stored in `Numerics._projection_cache` is still the hypergeometric row of its key (nothing that used the
    cache wrote into it).  `after` names the family of operations that ran just before."""
    N = ctx['dadi'].Numerics
    items = [(k, v) for k, v in list(N._projection_cache.items())
             if isinstance(k, tuple) and len(k) == 3 and all(isinstance(x, (int, np.integer)) for x in k)]
    if limit is not None and len(items) > limit and rng is not None:
        items = [items[int(t)] for t in rng.permutation(len(items))[:limit]]
    nbad = 0
    for (m, n, i), row in items:
        m, n, i = int(m), int(n), int(i)
        if m < 0 or n < 0 or i < 0 or i > max(n, 0):
            continue
        ex = W(n, m)[i] if n >= m else np.zeros(m + 1)
        row = np.asarray(row, dtype=float)
        if row.shape != ex.shape or not np.all(np.isfinite(row)) or float(np.max(np.abs(row - ex))) > RTOL * max(float(np.max(ex)), 1e-300):
            nbad += 1
            if nbad <= 3:
                chk.fail('_projection_cache:corrupted', 'after %s the cached row for (proj_to=%d, proj_from=%d, hits=%d) is %r, the hypergeometric row is %r'
                         % (after, m, n, i, row.tolist()[:8], ex.tolist()[:8]), dict(kind='cache', m=m, n=n, i=i, after=after))
    chk.l3(('cache-sound', after)); chk.stat('cache_rows_reverified', len(items))
    return nbad

def make_dd(spec):
    """data dictionary from the compact description: snps = [[(a1, a2) per pop, outgroup in {0, 1, None}, repeat], ...]"""
    dd = {}; k = 0
    for calls, og, rep in spec['snps']:
        for _ in range(int(rep)):
            e = {'segregating': ('A', 'T'), 'calls': {p: (int(c[0]), int(c[1])) for p, c in zip(spec['pops'], calls)}}
            if og is not None:
                e['outgroup_allele'] = 'AT'[int(og)]
            else:
                e['outgroup_allele'] = '-'
            dd['snp%d' % k] = e; k += 1
    return dd

def dd_expected(spec, polarized_only):
    """Σ over SNPs of the product over populations of the hypergeometric row (called -> projection); SNPs with fewer calls than
    the projection contribute nothing"""
    proj = [int(m) for m in spec['projections']]
    out = np.zeros([m + 1 for m in proj])
    for calls, og, rep in spec['snps']:
        if polarized_only and og is None:
            continue
        o = 0 if og is None else int(og)            # unpolarized: the first allele plays the outgroup
        term = np.ones([1] * len(proj))
        for ax, (c, m) in enumerate(zip(calls, proj)):
            called = int(c[0]) + int(c[1]); derived = int(c[1 - o])
            row = W(called, m)[derived] if called >= m else np.zeros(m + 1)
            sh = [1] * len(proj); sh[ax] = m + 1
            term = term * row.reshape(sh)
        out += int(rep) * term
    return out

def datadict_sequence(chk, ctx, spec):
    """build the same spectrum twice, build it folded, then project ordinary spectra with the same (from, to) sizes and re-verify the
    cache rows the builds used: nothing may depend on what was built before"""
    dadi = ctx['dadi']; N = dadi.Numerics
    pops = list(spec['pops']); proj = [int(m) for m in spec['projections']]
    inp = dict(kind='datadict', pops=pops, projections=proj, snps=spec['snps'], cold=bool(spec.get('cold')))
    if spec.get('cold'):
        N._projection_cache.clear()
    dd = make_dd(spec)
    ex = dd_expected(spec, True); ex_all = dd_expected(spec, False)
    scale = max(float(np.max(np.abs(ex_all))), 1e-300)
    key = ('datadict', len(pops), max(int(r) for _, _, r in spec['snps']) > 1, bool(spec.get('cold')))
    builds = []
    for rep in range(2):
        try:
            fs = dadi.Spectrum.from_data_dict(dd, pops, proj, mask_corners=bool(rep))
        except Exception as e:
            chk.fail('from_data_dict:raises:%s' % type(e).__name__, 'from_data_dict raises %r' % (e,), inp); return
        chk.l3(key + (rep,))
        d = np.asarray(fs.data, dtype=float)
        if d.shape != ex.shape or float(np.max(np.abs(d - ex))) > RTOL * scale:
            chk.fail('from_data_dict:value' if rep == 0 else 'from_data_dict:history',
                     'build no. %d of the same data dictionary (projections %r) differs from Σ_SNP hypergeometric rows by %.3g (scale %.3g; total %r, expected %r)'
                     % (rep + 1, proj, float(np.max(np.abs(d - ex))) if d.shape == ex.shape else float('inf'), scale, float(d.sum()), float(ex.sum())), inp)
        builds.append(d)
    try:
        cd = dadi.Misc.count_data_dict(dd, pops)
        for rep in range(2):
            ff = dadi.Spectrum._from_count_dict(cd, proj, polarized=False, pop_ids=pops)
            ref = dadi.Spectrum(ex_all, mask_corners=False).fold()
            um = ~(np.array(np.ma.getmaskarray(ff)) | np.array(np.ma.getmaskarray(ref)))
            chk.l3(key + ('folded', rep))
            if not ff.folded or ff.shape != ref.shape or (um.any() and float(np.max(np.abs(np.asarray(ff.data)[um] - np.asarray(ref.data)[um]))) > RTOL * scale):
                chk.fail('from_count_dict:folded', 'unpolarized build no. %d differs from fold(Σ_SNP hypergeometric rows)' % (rep + 1), inp)
    except Exception as e:
        chk.fail('from_count_dict:raises:%s' % type(e).__name__, '_from_count_dict(polarized=False) raises %r' % (e,), inp)
    # ordinary projections that share cache rows with the builds
    for ax, m in enumerate(proj):
        for called in sorted(set(int(c[ax][0]) + int(c[ax][1]) for c, _, _ in spec['snps'])):
            if called < m or called < 1 or m < 1:
                continue
            x = np.arange(1, called + 2, dtype=float) * 0.5 + (np.arange(called + 1) % 3)
            try:
                p = np.asarray(dadi.Spectrum(x, mask_corners=False).project([m]).data, dtype=float)
            except Exception as e:
                chk.fail('project:raises:%s' % type(e).__name__, 'project([%d]) from n=%d after from_data_dict raises %r' % (m, called, e), inp); continue
            chk.l3(('project-after-datadict', called, m))
            e2 = x.dot(W(called, m))
            if float(np.max(np.abs(p - e2))) > RTOL * float(np.max(np.abs(e2))):
                chk.fail('project:after-from_data_dict', 'Spectrum.project([%d]) of a 1-D spectrum with n=%d, called after from_data_dict with the same sizes, '
                         'is not the hypergeometric projection (max error %.3g; total %r -> %r)' % (m, called, float(np.max(np.abs(p - e2))), float(x.sum()), float(p.sum())), inp)
            for h in range(called + 1):
                row = np.asarray(N._cached_projection(m, called, h), dtype=float)
                if float(np.max(np.abs(row - W(called, m)[h]))) > RTOL:
                    chk.fail('_projection_cache:corrupted', 'after from_data_dict (projections %r) _cached_projection(%d,%d,%d) returns %r, hypergeometric row is %r'
                             % (proj, m, called, h, row.tolist()[:8], W(called, m)[h].tolist()[:8]), inp)
                    break
    chk.stat('datadict:%dpop' % len(pops))

def gen_dd_spec(rng, npop, big=False):
    pops = ['P%d' % k for k in range(npop)]
    if big:                                     # sample sizes at the upper end of the property's range (spectra of 1e4..2e5 entries)
        lo, hi = {1: (120, 201), 2: (80, 151), 3: (40, 56)}[npop]
        sizes = [int(rng.integers(lo, hi)) for _ in pops]
    else:
        sizes = [int(rng.integers(2, 25 if npop == 1 else 11)) for _ in pops]
    proj = [int(rng.integers(1, n + 1)) for n in sizes]
    snps = []
    for _ in range(int(rng.integers(2, 9))):
        calls = []
        for n, m in zip(sizes, proj):
            r = rng.random()
            called = n if r < 0.55 else (max(1, n - int(rng.integers(1, 3))) if r < 0.9 else max(0, m - 1))     # some SNPs with too few calls
            a2 = int(rng.integers(0, called + 1))
            calls.append([called - a2, a2])
        og = [0, 0, 1, None][int(rng.integers(4))]
        rep = [1, 2, 3, 7][int(rng.integers(4))]                                                              # count > 1: repeated configuration
        snps.append([calls, og, rep])
    if not any(og is not None and rep > 1 for _, og, rep in snps):
        snps[0][1] = 0; snps[0][2] = 5
    return dict(pops=pops, projections=proj, snps=snps, cold=bool(rng.random() < 0.5))

def l3_data_dict_history(chk, ctx, rng, count, big=False):
    for it in range(count):
        spec = gen_dd_spec(rng, (1 + it % 3) if big else (1 if it % 3 != 2 else 2 + (it // 3) % 2), big=big)
        datadict_sequence(chk, ctx, spec)
        if big:
            chk.stat('datadict:large')

# --------------------------------------------------------------------------- LowPass with inbreeding: subsampling individuals
def inbreeding_exact(partition, k):
    """distribution of the derived count among k/2 individuals drawn without replacement from the individuals whose genotypes
    (0/1/2 derived copies) are listed in `partition`: multivariate hypergeometric over the genotype classes"""
    c = [sum(1 for g in partition if g == v) for v in (0, 1, 2)]
    N = len(partition); r = k // 2
    out = np.zeros(k + 1)
    tot = math.comb(N, r)
    for a1 in range(min(c[1], r) + 1):
        for a2 in range(min(c[2], r - a1) + 1):
            a0 = r - a1 - a2
            if a0 > c[0]:
                continue
            out[a1 + 2 * a2] += (math.comb(c[0], a0) * math.comb(c[1], a1) * math.comb(c[2], a2)) / tot
    return out

def geno_probs(p, F):
    return [(1 - p) ** 2 + F * p * (1 - p), 2 * p * (1 - p) * (1 - F), p ** 2 + F * p * (1 - p)]

def lowpass_F_exact(n, m, F):
    """row i: genotype counts (c0,c1,c2) of n/2 individuals carrying i derived copies, weighted by the multinomial probability under
    inbreeding coefficient F at allele frequency i/n, each followed by drawing m/2 individuals without replacement"""
    ni = n // 2
    M = np.zeros((n + 1, m + 1))
    for i in range(n + 1):
        gp = geno_probs(i / n, F)
        tot = 0.0; row = np.zeros(m + 1)
        for c2 in range(i // 2 + 1):
            c1 = i - 2 * c2; c0 = ni - c1 - c2
            if c0 < 0:
                continue
            w = math.comb(ni, c2) * math.comb(ni - c2, c1)
            if 0 < i < n:
                w *= gp[0] ** c0 * gp[1] ** c1 * gp[2] ** c2
            if w == 0:
                continue
            tot += w
            row += w * inbreeding_exact([0] * c0 + [1] * c1 + [2] * c2, m)
        M[i] = row / tot
    return M

def check_inbreeding_case(chk, ctx, LP, partition, k):
    inp = dict(kind='inbreeding', partition=[int(g) for g in partition], k=int(k))
    try:
        got = np.asarray(LP.projection_inbreeding(tuple(partition) if len(partition) % 2 else list(partition), k), dtype=float)
    except Exception as e:
        chk.fail('LowPass.projection_inbreeding:raises:%s' % type(e).__name__, 'projection_inbreeding(%r, %d) raises %r' % (list(partition), k, e), inp); return
    ex = inbreeding_exact(partition, k)
    chk.l3(('inbreeding', len(partition), k, tuple(sum(1 for g in partition if g == v) for v in (0, 1, 2))))
    if got.shape != ex.shape or float(np.max(np.abs(got - ex))) > RTOL:
        chk.fail('LowPass.projection_inbreeding:value', 'projection_inbreeding(%r, %d) = %r; drawing %d of the %d individuals without replacement gives %r'
                 % (list(partition), k, got.tolist(), k // 2, len(partition), ex.tolist()), inp)

def check_lowpass_F(chk, ctx, LP, n, m, F):
    inp = dict(kind='lowpassF', n=int(n), m=int(m), F=float(F))
    try:
        M = np.asarray(LP.projection_matrix(n, m, F), dtype=float)
    except Exception as e:
        chk.fail('LowPass.projection_matrix:raises:%s' % type(e).__name__, 'projection_matrix(%d,%d,%g) raises %r' % (n, m, F, e), inp); return
    chk.l3(('lowpassF', n, m, F))
    if M.shape != (n + 1, m + 1) or not np.all(np.isfinite(M)):
        chk.fail('LowPass.projection_matrix:F:shape', 'projection_matrix(%d,%d,%g) has shape %r / non-finite entries' % (n, m, F, M.shape), inp); return
    if float(np.max(np.abs(M.sum(axis=1) - 1))) > 1e-9:
        chk.fail('LowPass.projection_matrix:F:rowsum', 'rows of projection_matrix(%d,%d,%g) do not sum to 1' % (n, m, F), inp)
    mean = M.dot(np.arange(m + 1)); exm = np.arange(n + 1) * m / n
    if float(np.max(np.abs(mean - exm))) > 1e-9 * m:
        i = int(np.argmax(np.abs(mean - exm)))
        chk.fail('LowPass.projection_matrix:F:mean', 'projection_matrix(%d,%d,F=%g): subsampling individuals must keep the mean allele frequency; row %d has mean %r, expected %r'
                 % (n, m, F, i, float(mean[i]), float(exm[i])), inp)
    ref = lowpass_F_exact(n, m, F)
    if float(np.max(np.abs(M - ref))) > RTOL:
        i, j = np.unravel_index(int(np.argmax(np.abs(M - ref))), M.shape)
        chk.fail('LowPass.projection_matrix:F:value', 'projection_matrix(%d,%d,F=%g) entry [%d,%d] is %r; drawing %d of %d individuals without replacement gives %r'
                 % (n, m, F, i, j, float(M[i, j]), m // 2, n // 2, float(ref[i, j])), inp)

def l3_inbreeding(chk, ctx, rng, count):
    """`projection_inbreeding(partition, k)` against the multivariate-hypergeometric closed form (partitions with repeated
    genotypes: every partition of more than 3 individuals has them), and `projection_matrix(n, m, F > 0)` with m < n, m = n/2, m = n"""
    LP = _lowpass(chk)
    if LP is None:
        return
    dadi = ctx['dadi']
    fixed = [([0, 0, 2], 2), ([0, 1, 1, 2], 2), ([0, 0, 0, 0], 4), ([1, 1, 1, 1, 1], 6), ([2, 2, 0], 4), ([0, 1, 2], 6), ([1], 2), ([0, 2, 2, 2, 1, 1], 8)]
    for part, k in fixed:
        check_inbreeding_case(chk, ctx, LP, part, k)
    for it in range(count):
        N = int(rng.integers(1, 11))
        if it % 3 == 0:
            af = int(rng.integers(0, 2 * N + 1))
            parts = dadi.Numerics.cached_part(af, N)         # the partitions projection_matrix feeds it
            part = list(parts[int(rng.integers(len(parts)))])
        else:
            part = [int(g) for g in rng.choice([0, 1, 2], size=N, p=[[.5, .3, .2], [.2, .2, .6], [.34, .33, .33]][it % 3])]
        k = 2 * int(rng.integers(1, N + 1))
        check_inbreeding_case(chk, ctx, LP, part, k)
    pairs = [(8, 4), (8, 6), (12, 6), (8, 8), (12, 4), (4, 2), (6, 2), (10, 8)]
    for it in range(max(8, count // 3)):
        if it < len(pairs):
            n, m = pairs[it]
        else:
            n = 2 * int(rng.integers(1, 10)); m = 2 * int(rng.integers(1, n // 2 + 1))
        F = [0.25, 0.6, 0.9, 0.05, 0.5][it % 5]          # 0 < F < 1 (F = 1 makes odd allele counts impossible: 0/0 in the code, not C08's business)
        check_lowpass_F(chk, ctx, LP, n, m, F)

# --------------------------------------------------------------------------- large spectra: size-dependent code paths
# The property quantifies over 1 <= m <= n <= 200 per axis and 1..4 dimensions.  Everything above uses spectra of at most a few
# thousand entries (K through the exact-rational model cannot afford more), so a branch of `project` / `_project_one_axis` /
# `fold` / `unfold` / `from_data_dict` that is selected by the array size, the number of chromosomes or the amount of shrinkage would
# never run.  Every run therefore includes a deterministic set of LARGE cases (3-D with ~50 chromosomes per axis, 4-D with ~20,
# very unequal axes, 1-D / 2-D with n up to 200; 7e4 .. 2.6e5 entries in the quick tier, up to ~1e6 thorough) with target profiles in
# which later axes shrink more than earlier ones (and the other way round, the middle axis most, one axis only, all by one, down to
# 1..3), pairwise different targets, folded and unfolded, with and without masked entries.  Reference: per-axis exact hypergeometric
# matrices applied with tensordot + reachability masks (`ref_project`), which costs milliseconds at that size.  L3 only.
LARGE_FAMILIES = {
    # family: (dimension, per-axis (lo, hi) of n in the quick tier, the same in the thorough tier)
    '1d':        (1, [(150, 200)], [(150, 200)]),
    '2d':        (2, [(120, 200), (120, 200)], [(160, 200), (160, 200)]),
    '3d':        (3, [(44, 60)] * 3, [(44, 100)] * 3),
    '4d':        (4, [(17, 22)] * 4, [(17, 31)] * 4),
    '3d-uneven': (3, [(150, 200), (20, 30), (12, 20)], [(150, 200), (30, 60), (20, 60)]),
    '4d-uneven': (4, [(60, 80), (12, 16), (8, 10), (6, 8)], [(100, 200), (12, 20), (8, 14), (6, 10)]),
}
LARGE_PROFILES = ['later-more', 'middle-most', 'random', 'earlier-more', 'last-only', 'one-step', 'to-small']
LARGE_PLAN = {'quick': [('3d', 6), ('4d', 5), ('3d-uneven', 4), ('4d-uneven', 3), ('2d', 3), ('1d', 2)],
              'thorough': [('3d', 14), ('4d', 10), ('3d-uneven', 8), ('4d-uneven', 8), ('2d', 6), ('1d', 4)]}

def large_recipe(rng, tier, family, profile, folded, mask_kind, data_kind):
    d, q, t = LARGE_FAMILIES[family]
    ranges = list(q if tier == 'quick' else t)
    if family.endswith('uneven'):
        ranges = [ranges[int(k)] for k in rng.permutation(d)]              # the long axis is not always the first one
    sizes = [int(rng.integers(lo, hi + 1)) for lo, hi in ranges]
    while tier == 'thorough' and np.prod([n + 1.0 for n in sizes]) > 1.1e6:  # keep the thorough tier affordable
        k = int(np.argmax(sizes)); sizes[k] = max(ranges[k][0], sizes[k] * 3 // 4)
    # shrinkage per axis: distinct fractions, assigned to the axes according to the profile
    fr = sorted(float(f) for f in rng.uniform(0.08, 0.85, size=d))
    for k in range(1, d):
        fr[k] = max(fr[k], fr[k - 1] + 0.06)
    if profile == 'later-more' or (profile == 'middle-most' and d < 3):
        order = list(range(d))
    elif profile == 'earlier-more':
        order = list(range(d))[::-1]
    elif profile == 'middle-most':
        mid = 1 if d == 3 else int(rng.integers(1, d - 1))
        rest = [int(k) for k in rng.permutation([k for k in range(d) if k != mid])]
        order = rest + [mid]
    else:
        order = [int(k) for k in rng.permutation(d)]
    shrink = [0] * d
    for rank, ax in enumerate(order):                                        # order[rank] = the axis that gets the rank-th smallest shrinkage
        shrink[ax] = max(1, int(round(fr[rank] * sizes[ax])))
    if profile in ('later-more', 'earlier-more', 'middle-most'):
        # the profile is about the number of chromosomes removed: make it strictly monotone along `order`
        for rank in range(1, d):
            a, b = order[rank - 1], order[rank]
            shrink[b] = min(sizes[b] - 1, max(shrink[b], shrink[a] + 1))
    ns = [max(1, n - sh) for n, sh in zip(sizes, shrink)]
    if profile == 'last-only':
        ns = list(sizes); ns[-1] = max(1, sizes[-1] - max(2, shrink[-1]))
    elif profile == 'one-step':
        ns = [max(1, n - 1) for n in sizes]
    elif profile == 'to-small':
        ns = [1 + int(k) for k in rng.permutation(max(d, 3))[:d]]
    if profile not in ('last-only', 'one-step'):
        for k in range(d):                                                   # pairwise different targets where the sizes allow
            tries = 0
            while ns[k] in ns[:k] and tries < 6:
                ns[k] = ns[k] - 1 if ns[k] > 1 else min(sizes[k], ns[k] + 2); tries += 1
    mid = [int(rng.integers(m, n + 1)) for m, n in zip(ns, sizes)]
    perm = [int(k) for k in rng.permutation(d)]
    if d >= 2 and perm == list(range(d)):
        perm = perm[1:] + perm[:1]
    up_axis = int(rng.integers(d))
    return dict(family=family, d=d, shape=[n + 1 for n in sizes], ns=ns, profile=profile, folded=bool(folded), mask_kind=mask_kind,
                data_kind=data_kind, data_seed=int(rng.integers(1, 2 ** 31 - 1)), mid=mid, perm=perm,
                order=[int(k) for k in rng.permutation(d)], up_axis=up_axis, up_by=int(rng.integers(1, 4)))

def large_build(recipe):
    """the case (data, mask) a recipe stands for — a pure function of the recipe, so that a replay file stays small"""
    r = np.random.default_rng(int(recipe['data_seed']))
    shape = [int(x) for x in recipe['shape']]; d = len(shape)
    if recipe['data_kind'] == 'counts':
        data = r.poisson(0.4, shape).astype(float) * r.integers(1, 4, shape)
    else:
        data = gen.coarse(r.uniform(0, 1, shape) ** 2 * 100, 20)
    zero_slices = []
    if recipe['data_kind'] == 'zero-slices':       # whole slices of exact zeros along every axis, symmetric under reversal (they survive fold/unfold)
        for ax in range(d):
            n = shape[ax] - 1
            ks = set(int(k) for k in r.integers(0, n + 1, size=int(r.integers(1, 4))))
            ks |= set(n - k for k in ks)
            for k in sorted(ks):
                sl = [slice(None)] * d; sl[ax] = k; data[tuple(sl)] = 0.0
                zero_slices.append((ax, k))
    mask = np.zeros(shape, dtype=bool)
    mk = recipe['mask_kind']
    if mk == 'zero-slice' and zero_slices:         # masked entries inside all-zero slices: they must mask their targets all the same
        for _ in range(3):
            ax, k = zero_slices[int(r.integers(len(zero_slices)))]
            idx = [int(r.integers(x)) for x in shape]; idx[ax] = k
            mask[tuple(idx)] = True
    elif mk in ('single', 'zero-slice'):
        mask[tuple(int(r.integers(1, max(2, x - 1))) for x in shape)] = True
    elif mk == 'sparse':
        for _ in range(6):
            mask[tuple(int(r.integers(x)) for x in shape)] = True
    elif mk == 'line':
        ax = int(r.integers(d)); sl = [int(r.integers(x)) for x in shape]; sl[ax] = slice(None)
        mask[tuple(sl)] = True
    return dict(kind='project', d=d, shape=shape, ns=[int(m) for m in recipe['ns']], ns_kinds=[recipe['profile']], data=data, mask=mask,
                mask_corners=(mk == 'corners'), mask_kind=mk, data_kind=recipe['data_kind'], folded=bool(recipe['folded']),
                recipe={k: v for k, v in recipe.items() if k not in ('kind', 'axis', 'what')}, cold=False)

def check_large_meta(chk, ctx, c):
    """clauses of the property that need no reference at all, on a large spectrum: two stages = one, the axes one at a time in a
    random order = all at once, transposing the axes (and the targets along) commutes with projecting, an upward target on one axis is
    refused, projecting to the same sizes is the identity."""
    dadi = ctx['dadi']; R = c['recipe']
    inp = dict(small(c), what='meta')
    fs = build(dadi, c)
    sizes = [x - 1 for x in c['shape']]; ns = list(c['ns']); d = c['d']
    key = ('large-meta', R['family'], R['profile'], c['folded'])
    try:
        once = fs.project(ns)
    except Exception as e:
        chk.l3(key)
        chk.fail('project:raises:%s' % type(e).__name__, 'Spectrum.project(%r) on sample sizes %r (%d entries) raises %r' % (ns, sizes, int(np.prod(c['shape'])), e), inp)
        return
    chk.l3(key)
    if tuple(once.shape) != tuple(m + 1 for m in ns):
        chk.fail('project:shape', 'Spectrum.project(%r) on sample sizes %r (%d entries) returned sample sizes %r'
                 % (ns, sizes, int(np.prod(c['shape'])), [x - 1 for x in once.shape]), inp)
        return
    # two stages
    try:
        twice = fs.project(R['mid']).project(ns)
        ok, what = spec_close(twice, once, what_mask=not c['folded'])
        chk.l3(('large-compose', R['family'], c['folded']))
        if not ok:
            chk.fail('project:compose', 'projecting %r -> %r -> %r differs from %r -> %r: %s' % (sizes, R['mid'], ns, sizes, ns, what), inp)
    except Exception as e:
        chk.fail('project:compose:raises:%s' % type(e).__name__, 'two-stage projection %r -> %r -> %r raises %r' % (sizes, R['mid'], ns, e), inp)
    # one axis at a time, in the recipe's order
    if d >= 2:
        try:
            cur = fs; cur_ns = list(sizes)
            for k in R['order']:
                cur_ns[k] = ns[k]
                cur = cur.project(list(cur_ns))
            ok, what = spec_close(cur, once, what_mask=not c['folded'])
            chk.l3(('large-order', R['family'], tuple(R['order']), c['folded']))
            if not ok:
                chk.fail('project:axis-order', 'projecting the axes of %r one at a time in the order %r differs from projecting to %r at once: %s'
                         % (sizes, R['order'], ns, what), inp)
        except Exception as e:
            chk.fail('project:order:raises:%s' % type(e).__name__, 'axis-by-axis projection raises %r' % (e,), inp)
        # relabelling the populations: transpose source and targets, project, compare with the transposed projection
        perm = list(R['perm'])
        try:
            T = dadi.Spectrum(np.transpose(np.asarray(fs.data, dtype=float), perm), mask=np.transpose(np.array(np.ma.getmaskarray(fs)), perm),
                              mask_corners=False, data_folded=bool(fs.folded))
            PT = T.project([ns[k] for k in perm])
            want = dadi.Spectrum(np.transpose(np.asarray(once.data, dtype=float), perm), mask=np.transpose(np.array(np.ma.getmaskarray(once)), perm),
                                 mask_corners=False, data_folded=bool(once.folded))
            ok, what = spec_close(PT, want)
            chk.l3(('large-transpose', R['family'], tuple(perm), c['folded']))
            if not ok:
                chk.fail('project:axis-relabel', 'transposing the axes %r of a spectrum with sample sizes %r and projecting to the transposed targets differs '
                         'from transposing the projection to %r: %s' % (perm, sizes, ns, what), inp)
        except Exception as e:
            chk.fail('project:relabel:raises:%s' % type(e).__name__, 'projection of the transposed spectrum raises %r' % (e,), inp)
    # refusals and the identity
    up = list(ns); up[R['up_axis']] = sizes[R['up_axis']] + int(R['up_by'])
    chk.l3(('large-refusal', R['family'], c['folded']))
    try:
        res = fs.project(up)
        chk.fail('project:up-accepted', 'Spectrum.project(%r) on sample sizes %r returned a spectrum of shape %r instead of refusing' % (up, sizes, res.shape), inp)
    except ValueError:
        pass
    except Exception as e:
        chk.fail('project:up-wrong-exception:%s' % type(e).__name__, 'Spectrum.project(%r) on sample sizes %r raised %r, documented refusal is ValueError' % (up, sizes, e), inp)
    try:
        same = fs.project(list(sizes))
        ok, what = spec_close(same, fs)
        if not ok or bool(same.folded) != bool(fs.folded):
            chk.fail('project:identity', 'projecting to the same sample sizes %r changes the spectrum: %s' % (sizes, what), inp)
    except Exception as e:
        chk.fail('project:equal-refused', 'projecting to the same sizes %r raised %r' % (sizes, e), inp)

def l3_large(chk, ctx, rng):
    tier = ctx['tier']
    off = int(rng.integers(len(LARGE_PROFILES)))
    n_cases = 0; entries = []
    for fi, (family, count) in enumerate(LARGE_PLAN[tier]):
        for j in range(count):
            # every family starts with "later axes shrink more", then "a middle axis shrinks most"; the other profiles rotate with the seed
            profile = 'later-more' if j == 0 else ('middle-most' if j == 1 and family[0] in '34' else LARGE_PROFILES[(off + j) % len(LARGE_PROFILES)])
            folded = bool((fi + n_cases) % 2)
            data_kind = ['dense', 'zero-slices', 'dense', 'counts'][(j + off + fi) % 4]
            mask_kind = 'zero-slice' if data_kind == 'zero-slices' else ['none', 'single', 'corners', 'sparse', 'line'][(j + off + n_cases) % 5]
            c = large_build(large_recipe(rng, tier, family, profile, folded, mask_kind, data_kind))
            n_cases += 1; entries.append(int(np.prod(c['shape'])))
            chk.stat('large:%s' % family); chk.stat('large:profile:%s' % profile); chk.stat('large:folded:%s' % folded)
            check_project_case(chk, ctx, c, do_model=False)
            check_large_meta(chk, ctx, c)
            if j % 3 == 0 and c['d'] >= 2:
                c1 = dict(c); c1['axis'] = int(np.argmin(c['ns'])) if j else c['d'] - 1     # `_project_one_axis` itself on the large array
                check_one_axis_case(chk, ctx, c1, do_model=False)
    chk.stats['large_cases'] = n_cases
    chk.stats['large_entries_min'] = min(entries); chk.stats['large_entries_max'] = max(entries)
    chk.stats['large_cases_over_1e5_entries'] = sum(1 for e in entries if e > 1e5)
    # the other consumers of the weights at the upper end of the range: LowPass F = 0 operator, data-dictionary builds
    LP = _lowpass(chk)
    if LP is not None:
        for it in range(3 if tier == 'quick' else 12):
            n = int(rng.integers(120, 201)) if it else 200
            m = [n - 1, n // 2, int(rng.integers(1, n + 1)), 1][it % 4]
            check_lowpass_f0(chk, ctx, LP, n, m, [], rng, do_model=False)
            chk.stat('large:lowpass')
    l3_data_dict_history(chk, ctx, rng, 3 if tier == 'quick' else 9, big=True)

# --------------------------------------------------------------------------- round 6: projection inside the low-pass machinery
# dadi/LowPass/LowPass.py re-implements projection in three places besides `projection_matrix`:
#   (a) `lowpass_func` (inside `make_low_pass_func_GATK_multisample`) applies one projection matrix per population along that
#       population's axis (swapaxes / dot / swapaxes); with deep coverage nothing else happens to the model spectrum, so the
#       output must be `Spectrum.project` = the per-axis hypergeometric matrices, for 1..4 populations, equal and unequal sizes,
#       and relabelling the populations must transpose the output;
#   (b) `subsample_genotypes_1D` draws nsub/2 of the called individuals of every locus without replacement: over many loci that
#       share a genotype configuration the subsampled allele counts must follow the exact individual-subsampling weights;
#   (c) `simulate_GATK_multisample_calling` uses (b) per population: with deep coverage its table is the outer product of the
#       rows of `projection_matrix(nseq, nsub, F)`.
# Monte-Carlo comparisons use exact two-sided binomial tail probabilities (fixed seeds): an alarm needs a tail below PV_MIN.
PV_MIN = 1e-10

def cov_probs(c):
    """compact description -> probabilities by depth: ['point', D] | ['band', lo, hi] | ['poisson', lam, D] | ['list', p0, p1, …]"""
    k = c[0]
    if k == 'point':
        p = np.zeros(int(c[1]) + 1); p[int(c[1])] = 1.0
    elif k == 'band':
        p = np.zeros(int(c[2]) + 1); p[int(c[1]):] = 1.0 / (int(c[2]) - int(c[1]) + 1)
    elif k == 'poisson':
        lam = float(c[1]); D = int(c[2])
        p = np.array([math.exp(-lam + dd * math.log(lam) - math.lgamma(dd + 1)) for dd in range(D + 1)]); p = p / p.sum()
    else:
        p = np.array([float(v) for v in c[1:]], dtype=float)
    return p

def cov_array(c):
    p = cov_probs(c)
    return np.array([np.arange(len(p), dtype=float), p])

def lp_data(case):
    """the model spectrum of a low-pass case: a pure function of (data_seed, data_kind, nseq) so that replay files stay small"""
    r = np.random.default_rng(int(case['data_seed']))
    shape = [int(n) + 1 for n in case['nseq']]
    kind = case.get('data_kind', 'dense')
    if kind == 'sparse':
        data = r.uniform(0, 10, shape) * (r.random(shape) < 0.3)
    elif kind == 'one-entry':
        data = np.zeros(shape); data[tuple(int(r.integers(0, s)) for s in shape)] = float(r.integers(1, 100))
    elif kind == 'neutral':
        idx = np.indices(shape).sum(axis=0).astype(float); idx[idx == 0] = 1.0
        data = float(r.uniform(0.5, 100)) / idx * (1.0 + 0.25 * r.random(shape))     # not symmetric under exchanging the populations
    else:
        data = r.uniform(0, 1, shape) ** 2 * 100
    return gen.coarse(np.asarray(data, dtype=float), 20)

class PrecalcRecorder:
    """records the result of every `low_cov_precalc_…` call (a module global looked up by lowpass_func at call time)"""
    NAME = 'low_cov_precalc_GATK_multisample_GATK_multisample'
    def __init__(self, LP):
        self.LP = LP; self.calls = []; self.orig = None
    def __enter__(self):
        self.orig = getattr(self.LP, self.NAME, None)
        if self.orig is not None:
            orig = self.orig; calls = self.calls
            def recording(*a, **k):
                r = orig(*a, **k); calls.append(r); return r
            setattr(self.LP, self.NAME, recording)
        return self
    def __exit__(self, *exc):
        if self.orig is not None:
            setattr(self.LP, self.NAME, self.orig)
        return False

def lp_eval(ctx, LP, case, perm=None, record=False):
    """build `make_low_pass_func_GATK_multisample` for the case with its populations in the order `perm` (population perm[k] of
    the case becomes population k: sizes, coverage, inbreeding coefficients and the model's axes are permuted along) and evaluate
    it once; returns (output data, output object, recorded precalc tuple or None)"""
    dadi = ctx['dadi']
    d = len(case['nseq'])
    order = list(range(d)) if perm is None else [int(k) for k in perm]
    ids = ['pop%d' % k for k in range(d)]
    data = lp_data(case)
    nseq = [int(case['nseq'][k]) for k in order]; nsub = [int(case['nsub'][k]) for k in order]
    cov = {}
    for k in order:                                   # the dictionary's order is the population order (`cov_dist.values()` is zipped with nseq)
        cov[ids[k]] = cov_array(case['cov'][k])
    Fx = None if case.get('F') is None else [float(case['F'][k]) for k in order]
    pid = [ids[k] for k in order]
    tdata = np.ascontiguousarray(np.transpose(data, order))
    def func(params, ns, pts):
        return dadi.Spectrum(tdata.copy(), pop_ids=list(pid))
    kw = {}
    if case.get('thr') is not None:
        kw['sim_threshold'] = float(case['thr'])
    import warnings
    with warnings.catch_warnings():
        warnings.simplefilter('ignore')
        np.random.seed(int(case.get('sim_seed', 1)) % (2 ** 32)); LP.rng = np.random.default_rng(int(case.get('sim_seed', 1)))
        f = LP.make_low_pass_func_GATK_multisample(func, cov, pid, nseq, nsub, Fx=Fx, **kw)
        if record:
            with PrecalcRecorder(LP) as rec:
                out = f([1.0], nsub, None)
            pre = rec.calls[-1] if rec.calls else None
        else:
            out = f([1.0], nsub, None); pre = None
    return np.asarray(np.ma.getdata(out), dtype=float), out, pre

_LPF = {}
def lp_ref_matrix(n, m, F):
    """exact operator 'n chromosomes -> m chromosomes': hypergeometric for F = 0, individual subsampling under inbreeding otherwise"""
    if F == 0:
        return W(n, m)
    k = (n, m, float(F))
    if k not in _LPF:
        if len(_LPF) > 400: _LPF.clear()
        _LPF[k] = lowpass_F_exact(n, m, F)
    return _LPF[k]

def along_axes(data, mats):
    """apply matrix k along axis k, k = 0, 1, …"""
    out = np.asarray(data, dtype=float)
    for ax, M in enumerate(mats):
        out = np.moveaxis(np.tensordot(out, np.asarray(M, dtype=float), axes=([ax], [0])), -1, ax)
    return out

def lp_small(case, kind):
    return dict(kind=kind, nseq=[int(v) for v in case['nseq']], nsub=[int(v) for v in case['nsub']],
                F=(None if case.get('F') is None else [float(v) for v in case['F']]), cov=[list(c) for c in case['cov']],
                thr=case.get('thr'), data_seed=int(case['data_seed']), data_kind=case.get('data_kind', 'dense'),
                perms=[[int(k) for k in p] for p in case.get('perms', [])], sizes_kind=case.get('sizes_kind'), sim_seed=int(case.get('sim_seed', 1)),
                decoy_cov=([list(c) for c in case['decoy_cov']] if case.get('decoy_cov') else None))

def check_lowpass_deep(chk, ctx, case):
    """deep coverage (every individual has >= 60 reads): the low-pass model function is plain projection of every population axis"""
    LP = _lowpass(chk)
    if LP is None:
        return
    dadi = ctx['dadi']
    inp = lp_small(case, 'lpdeep')
    nseq = inp['nseq']; nsub = inp['nsub']; d = len(nseq)
    Fs = [0.0] * d if inp['F'] is None else inp['F']
    key = ('lpdeep', d, case.get('sizes_kind'), inp['F'] is None, tuple(f > 0 for f in Fs), case.get('thr'), case.get('data_kind'))
    if case.get('decoy_cov'):
        # history: another low-pass function with the same populations, sizes, threshold and Fx but SHALLOW coverage is built and evaluated
        # first; the projection the deep-coverage function applies must come from its own arguments
        try:
            lp_eval(ctx, LP, dict(case, cov=case['decoy_cov']))
            chk.stat('lpdeep:after-decoy')
        except Exception:
            pass
    try:
        got, out, _ = lp_eval(ctx, LP, case)
    except Exception as e:
        chk.l3(key)
        chk.fail('LowPass.lowpass_func:raises:%s' % type(e).__name__,
                 'low-pass model for %d populations, nseq=%r nsub=%r Fx=%r (deep coverage) raises %r' % (d, nseq, nsub, inp['F'], e), inp)
        return
    chk.l3(key)
    chk.stat('lpdeep:%dpop' % d); chk.stat('lpdeep:sizes:%s' % case.get('sizes_kind')); chk.stat('lpdeep:F:%s' % ('none' if inp['F'] is None else ('zero' if not any(Fs) else 'inbred')))
    if got.shape != tuple(m + 1 for m in nsub):
        chk.fail('LowPass.lowpass_func:shape', 'low-pass output has shape %r for nsub=%r (nseq=%r)' % (got.shape, nsub, nseq), inp)
        return
    if bool(getattr(out, 'folded', False)):
        chk.fail('LowPass.lowpass_func:folded-flag', 'low-pass output of an unfolded model is marked folded', inp)
    data = lp_data(case)
    src = data.copy(); src[tuple([0] * d)] = 0.0; src[tuple([-1] * d)] = 0.0          # the absent / fixed corners of a model spectrum are masked and carry nothing
    ref = along_axes(src, [lp_ref_matrix(n, m, F) for n, m, F in zip(nseq, nsub, Fs)])
    keep = np.ones(got.shape, dtype=bool); keep[tuple([0] * d)] = False; keep[tuple([-1] * d)] = False
    scale = max(float(np.max(np.abs(ref))), 1e-300)
    def worst(a, b, where):
        dv = np.where(where, np.abs(a - b), 0.0)
        j = tuple(int(v) for v in np.unravel_index(int(np.argmax(dv)), dv.shape))
        return float(dv[j]), j
    if not np.all(np.isfinite(got[keep])):
        chk.fail('LowPass.lowpass_func:nonfinite', 'low-pass output has non-finite entries (deep coverage, nseq=%r nsub=%r)' % (nseq, nsub), inp)
        return
    err, j = worst(got, ref, keep)
    if err > RTOL * scale:
        chk.fail('LowPass.lowpass_func:deep:entry', 'deep coverage, %d populations nseq=%r nsub=%r Fx=%r%s: entry %r of the low-pass model is %r; sampling %r of the sequenced '
                 'chromosomes of every population without replacement gives %r (max error %.3g, scale %.3g)'
                 % (d, nseq, nsub, inp['F'], ' (built after a low-pass function with the same sizes and shallow coverage)' if case.get('decoy_cov') else '',
                    list(j), float(got[j]), nsub, float(ref[j]), err, scale), inp)
    if not any(Fs):
        try:
            P = dadi.Spectrum(data.copy()).project(list(nsub))
            pm = ~np.array(np.ma.getmaskarray(P)) & keep
            e2, j2 = worst(got, np.asarray(P.data, dtype=float), pm)
            chk.l3(('lpdeep-vs-project', d, case.get('sizes_kind')))
            if e2 > RTOL * scale:
                chk.fail('LowPass.lowpass_func:deep:vs-project', 'deep coverage, nseq=%r nsub=%r: entry %r of the low-pass model is %r, Spectrum.project(%r) of the same model gives %r'
                         % (nseq, nsub, list(j2), float(got[j2]), nsub, float(np.asarray(P.data)[j2])), inp)
        except Exception as e:
            chk.fail('project:raises:%s' % type(e).__name__, 'Spectrum.project(%r) raises %r' % (nsub, e), inp)
    # relabelling the populations: sizes, coverage, inbreeding and the model's axes permuted along -> the output transposed
    for perm in inp['perms']:
        if perm == list(range(d)):
            continue
        try:
            gp, _, _ = lp_eval(ctx, LP, case, perm=perm)
        except Exception as e:
            chk.fail('LowPass.lowpass_func:relabel:raises:%s' % type(e).__name__, 'the same low-pass model with its populations in the order %r raises %r' % (perm, e), dict(inp, perm=perm))
            continue
        chk.l3(('lpdeep-relabel', d, tuple(perm), case.get('sizes_kind')))
        want = np.transpose(got, perm)
        if gp.shape != want.shape:
            chk.fail('LowPass.lowpass_func:relabel', 'populations in the order %r: output shape %r, expected the transposed shape %r' % (perm, gp.shape, want.shape), dict(inp, perm=perm))
            continue
        kp = np.transpose(keep, perm)
        e3, j3 = worst(gp, want, kp)
        if e3 > RTOL * scale:
            chk.fail('LowPass.lowpass_func:relabel', 'nseq=%r nsub=%r Fx=%r: with the populations listed in the order %r the low-pass model is not the transposed model '
                     '(entry %r: %r vs %r)' % (nseq, nsub, inp['F'], perm, list(j3), float(gp[j3]), float(want[j3])), dict(inp, perm=perm))

def fmt_mats(mats):
    return ';'.join(fmt_nd(np.asarray(M, dtype=float)) for M in mats)

def check_lowpass_axes(chk, ctx, case, do_model=True):
    """any coverage, everything analytic (sim_threshold = 1): the output is the damped model spectrum pushed through population
    k's own projection and calling-error matrices ALONG AXIS k (the matrices the implementation itself computed are recorded).
    K: the Lean model runs the per-population loop regenerated from the source on the same matrices."""
    LP = _lowpass(chk)
    if LP is None:
        return
    inp = lp_small(case, 'lpaxes')
    nseq = inp['nseq']; nsub = inp['nsub']; d = len(nseq)
    key = ('lpaxes', d, case.get('sizes_kind'), inp['F'] is None or not any(inp['F']))
    try:
        got, out, pre = lp_eval(ctx, LP, case, record=True)
    except Exception as e:
        chk.l3(key)
        chk.fail('LowPass.lowpass_func:raises:%s' % type(e).__name__, 'low-pass model for %d populations, nseq=%r nsub=%r Fx=%r raises %r' % (d, nseq, nsub, inp['F'], e), inp)
        return
    chk.l3(key); chk.stat('lpaxes:%dpop' % d)
    if pre is None:
        chk.stat('lpaxes:precalc-not-observed'); return
    pn, use_sim, proj_mats, heterr_mats, sims = pre
    pn = np.asarray(pn, dtype=float); use_sim = np.asarray(use_sim, dtype=bool)
    if use_sim.any() or len(proj_mats) != d or len(heterr_mats) != d:
        chk.stat('lpaxes:skipped'); return
    data = lp_data(case)
    src = data.copy(); src[tuple([0] * d)] = 0.0; src[tuple([-1] * d)] = 0.0
    analytic = src * (1.0 - pn)                     # `model * (1 - use_sim_mat)`, then `*= 1 - prob_nocall_ND` (the damping itself is C18's business)
    mats = [np.asarray(P, dtype=float).dot(np.asarray(H, dtype=float)) for P, H in zip(proj_mats, heterr_mats)]
    ref = along_axes(analytic, mats)
    scale = max(float(np.max(np.abs(ref))), 1e-300)
    if got.shape != ref.shape:
        chk.fail('LowPass.lowpass_func:shape', 'low-pass output has shape %r for nsub=%r (nseq=%r)' % (got.shape, nsub, nseq), inp); return
    err = float(np.max(np.abs(got - ref)))
    if not np.all(np.isfinite(got)) or err > RTOL * scale:
        j = tuple(int(v) for v in np.unravel_index(int(np.argmax(np.abs(got - ref))), got.shape))
        chk.fail('LowPass.lowpass_func:axes', '%d populations nseq=%r nsub=%r: entry %r of the low-pass model is %r; applying population k\'s own projection and calling-error '
                 'matrices along axis k (k = 0..%d) gives %r' % (d, nseq, nsub, list(j), float(got[j]), d - 1, float(ref[j])), inp)
    if do_model and have_driver(ctx) and np.prod([n + 1 for n in nseq]) <= 800:
        flat = []
        for P, H in zip(proj_mats, heterr_mats):
            flat += [np.asarray(P, dtype=float), np.asarray(H, dtype=float)]
        o = ctx['driver'].ask('lpaxes %s %s' % (fmt_nd(analytic), fmt_mats(flat)))
        if o.startswith('ok '):
            sh, dat = o[3:].split(':')
            mo = parse_floats(dat).reshape(tuple(int(t) for t in sh.split('x')))
            if mo.shape == got.shape and float(np.max(np.abs(mo - got))) <= RTOL * scale: chk.k_ok('lowpass:axes')
            else: chk.k_bad('lowpass:axes', inp, got, mo, float(np.max(np.abs(mo - got))) if mo.shape == got.shape else None)
        else:
            chk.k_bad('lowpass:axes', inp, got, o[:200], None)

def gen_lp_case(rng, tier, d, sizes_kind, F_kind, deep=True):
    hi = {1: 20, 2: 12, 3: 8, 4: 6}[d] if tier == 'quick' else {1: 30, 2: 16, 3: 10, 4: 8}[d]
    def even(lo, hi_):
        return 2 * int(rng.integers(max(1, lo // 2), hi_ // 2 + 1))
    if sizes_kind in ('equal', 'equal-same'):
        n = even(4, hi); m = n if sizes_kind == 'equal-same' else even(2, n - 2)
        nseq = [n] * d; nsub = [m] * d
    elif sizes_kind == 'nseq-equal':
        n = even(4, hi); nseq = [n] * d
        nsub = [even(2, n) for _ in range(d)]
        if d >= 2 and len(set(nsub)) == 1:
            nsub[-1] = nsub[-1] - 2 if nsub[-1] > 2 else nsub[-1] + 2
    elif sizes_kind == 'pair-equal':
        n = even(4, hi); m = even(2, n)
        nseq = [n] * d; nsub = [m] * d
        k = int(rng.integers(d))
        n2 = even(2, hi)
        while d >= 2 and n2 == n: n2 = even(2, hi)
        nseq[k] = n2; nsub[k] = even(2, n2)
    else:
        nseq = [even(2, hi) for _ in range(d)]
        for k in range(1, d):
            t = 0
            while nseq[k] in nseq[:k] and t < 8:
                nseq[k] = even(2, hi); t += 1
        nsub = [even(2, n) for n in nseq]
    if F_kind == 'none': F = None
    elif F_kind == 'zero': F = [0.0] * d
    elif F_kind == 'same': F = [float(rng.choice([0.125, 0.25, 0.5]))] * d
    else:
        vals = [0.0, 0.125, 0.25, 0.5, 0.75]
        F = [vals[int(k)] for k in rng.permutation(len(vals))[:d]]
    if deep:
        cov = []
        for _ in range(d):
            if rng.random() < 0.5: cov.append(['point', int(rng.integers(60, 101))])
            else:
                lo = int(rng.integers(60, 90)); cov.append(['band', lo, lo + int(rng.integers(1, 12))])
        thr = [1.0, None, 0.01][int(rng.integers(3))]
        decoy = None
        if rng.random() < 0.4:
            decoy = [['list', 0.25, 0.25, 0.25, 0.25] if rng.random() < 0.5 else ['poisson', 2.0, 12] for _ in range(d)]
    else:
        cov = []
        for _ in range(d):
            r = rng.random()
            if r < 0.6:
                lam = float(rng.choice([1.0, 2.0, 3.0, 5.0, 8.0])); cov.append(['poisson', lam, int(math.ceil(lam + 6 * math.sqrt(lam) + 2))])
            elif r < 0.8:
                D = int(rng.integers(2, 12)); cov.append(['list'] + [float(v) for v in (np.arange(1, D + 2) / float(np.arange(1, D + 2).sum()))])
            else:
                cov.append(['point', int(rng.integers(3, 30))])
        thr = 1.0; decoy = None
    perms = []
    if d >= 2:
        perms.append(list(range(d))[::-1])
        p = [int(k) for k in rng.permutation(d)]
        if p != list(range(d)) and p not in perms: perms.append(p)
        if d >= 3:
            perms.append(list(range(1, d)) + [0])               # a cyclic shift
    return dict(nseq=nseq, nsub=nsub, F=F, cov=cov, thr=thr, data_seed=int(rng.integers(1, 2 ** 31 - 1)),
                data_kind=['dense', 'dense', 'neutral', 'sparse', 'one-entry'][int(rng.integers(5))], perms=perms, sizes_kind=sizes_kind,
                sim_seed=int(rng.integers(1, 2 ** 31 - 1)), decoy_cov=decoy)

def l3_lowpass_axes(chk, ctx, rng, reps):
    """1..4 populations x {all sizes equal, equal and nothing subsampled, sequenced sizes equal / subsample sizes not, two populations
    equal and one different, all different} x {Fx=None, zeros, one F for all, a different F per population}"""
    tier = ctx['tier']
    kinds = ['equal', 'equal-same', 'nseq-equal', 'pair-equal', 'unequal']
    Fk = ['none', 'zero', 'distinct', 'same']
    n = 0
    for rep in range(reps):
        for d in (1, 2, 3, 4):
            for si, sk in enumerate(kinds):
                if d == 1 and sk in ('nseq-equal', 'pair-equal'):
                    continue
                fk = Fk[(rep + si + d) % 4]
                if d == 4 and fk in ('distinct', 'same') and (rep + si) % 2:
                    fk = 'zero'
                check_lowpass_deep(chk, ctx, gen_lp_case(rng, tier, d, sk, fk, deep=True)); n += 1
                if (rep + si) % 2 == 0:
                    check_lowpass_axes(chk, ctx, gen_lp_case(rng, tier, d, sk, ['zero', 'distinct'][(rep + d) % 2], deep=False), do_model=(d <= 3 or sk == 'equal'))
    chk.stats['lowpass_deep_cases'] = n

# ---- simulated subsampling
def binom_tail(k, n, p):
    """exact two-sided tail probability of observing k successes among n at success probability p"""
    from scipy.stats import binom
    if p <= 0.0: return 1.0 if k == 0 else 0.0
    if p >= 1.0: return 1.0 if k == n else 0.0
    return float(min(1.0, 2.0 * min(binom.cdf(k, n, p), binom.sf(k - 1, n, p))))

def mc_compare(chk, counts, n, probs, slack=0.0):
    """counts[s] observed among n draws vs probabilities probs[s] (each known up to +-slack): returns None or (s, frequency, probability, tail)"""
    worst = None
    for s in range(len(probs)):
        k = int(counts[s]); p = float(probs[s]); fq = k / float(n)
        if slack > 0:
            p = min(1.0, p + slack) if fq > p else max(0.0, p - slack)
            if abs(fq - float(probs[s])) <= slack:
                continue
        pv = binom_tail(k, n, p)
        if pv > 0:
            chk.stats['mc_min_tail'] = min(chk.stats.get('mc_min_tail', 1.0), pv)
        if pv < PV_MIN and (worst is None or pv < worst[3]):
            worst = (s, fq, float(probs[s]), pv)
    chk.stat('mc_comparisons', len(probs))
    return worst

def subsample_exact_row(called, k):
    """allele count among k/2 of the called individuals (genotypes `called`) drawn without replacement"""
    return inbreeding_exact(list(called), k)

def check_subsample_batch(chk, ctx, sc):
    """`subsample_genotypes_1D` on L loci per genotype configuration (99 = not called; the order of the individuals differs from locus
    to locus): every kept row is a sub-multiset of the called genotypes of a configuration of the batch, loci with fewer than nsub/2
    calls are dropped, and the subsampled allele counts follow the exact law "nsub/2 of the called individuals without replacement"
    — per configuration when the batch holds one configuration, pooled over the configurations otherwise."""
    LP = _lowpass(chk)
    if LP is None:
        return
    inp = dict(kind='subsample', configs=[[int(g) for g in c] for c in sc['configs']], L=int(sc['L']), nsub=int(sc['nsub']), seed=int(sc['seed']))
    cfgs = inp['configs']; L = inp['L']; nsub = inp['nsub']; r = nsub // 2
    N = len(cfgs[0])
    prng = np.random.default_rng(inp['seed'] + 17)
    rows = []
    for c in cfgs:
        block = np.tile(np.array(c, dtype=int), (L, 1))
        rows.append(prng.permuted(block, axis=1))                               # who carries which genotype differs from locus to locus
    calls = np.concatenate(rows)
    calls = calls[prng.permutation(len(calls))]                                 # configurations interleaved
    LP.rng = np.random.default_rng(inp['seed']); np.random.seed(inp['seed'] % (2 ** 32))
    called = [[g for g in c if g != 99] for c in cfgs]
    kept = [c for c in called if len(c) >= r]
    key = ('subsample', N, r, len(cfgs), tuple(sorted(set(len(c) for c in called))) , len(kept) < len(cfgs))
    try:
        sub = np.asarray(LP.subsample_genotypes_1D(calls.copy(), nsub))
    except Exception as e:
        chk.l3(key)
        chk.fail('LowPass.subsample_genotypes_1D:raises:%s' % type(e).__name__, 'subsample_genotypes_1D on %d loci x %d individuals, nsub=%d raises %r' % (len(calls), N, nsub, e), inp)
        return
    chk.l3(key); chk.stat('subsample:configs:%d' % len(cfgs)); chk.stat('subsample:%s' % ('subsampling' if any(len(c) > r for c in kept) else 'all-kept'))
    if sub.ndim != 2 or sub.shape != (L * len(kept), r):
        chk.fail('LowPass.subsample_genotypes_1D:shape', 'result shape %r; %d of the %d configurations have at least %d calls, so %d loci x %d individuals are expected'
                 % (sub.shape, len(kept), len(cfgs), r, L * len(kept), r), inp)
        return
    if sub.size == 0:
        return
    if sub.min() < 0 or sub.max() > 2:
        chk.fail('LowPass.subsample_genotypes_1D:uncalled-drawn', 'a subsample contains the value %r (an uncalled individual was drawn)' % int(sub.max() if sub.max() > 2 else sub.min()), inp)
        return
    # every row is a sub-multiset of some kept configuration
    cnt = np.stack([(sub == v).sum(axis=1) for v in (0, 1, 2)], axis=1)
    lim = np.array([[sum(1 for g in c if g == v) for v in (0, 1, 2)] for c in kept])
    fits = (cnt[:, None, :] <= lim[None, :, :]).all(axis=2).any(axis=1)
    if not fits.all():
        j = int(np.argmin(fits))
        chk.fail('LowPass.subsample_genotypes_1D:not-a-subsample', 'row %r of the result is not a subset of the called genotypes of any locus of the batch (configurations %r)'
                 % (sub[j].tolist(), cfgs), inp)
        return
    sums = sub.sum(axis=1)
    counts = np.bincount(sums, minlength=nsub + 1)
    exact = np.zeros(nsub + 1)
    for c in kept:
        exact += subsample_exact_row(c, nsub) / len(kept)
    bad = mc_compare(chk, counts, len(sums), exact)
    if bad is not None:
        what = 'configuration %r' % cfgs[0] if len(cfgs) == 1 else 'pooled over the configurations %r' % cfgs
        chk.fail('LowPass.subsample_genotypes_1D:distribution', '%d loci per configuration, %s, %d of the called individuals kept: the subsampled allele count %d has frequency %.4f, '
                 'drawing individuals without replacement gives %.4f (binomial tail %.2g); observed spectrum %s, exact %s'
                 % (L, what, r, bad[0], bad[1], bad[2], bad[3], np.round(counts / float(len(sums)), 4).tolist(), np.round(exact, 4).tolist()), inp)
        return
    # the library's own closed form for the same thing
    if len(kept) == 1:
        try:
            row = np.asarray(LP.projection_inbreeding(list(kept[0]), nsub), dtype=float)
            if row.shape != exact.shape or float(np.max(np.abs(row - exact))) > RTOL:
                chk.fail('LowPass.projection_inbreeding:value', 'projection_inbreeding(%r, %d) = %r; drawing %d of the %d individuals without replacement gives %r'
                         % (kept[0], nsub, row.tolist(), r, len(kept[0]), exact.tolist()), dict(kind='inbreeding', partition=list(kept[0]), k=nsub))
        except Exception as e:
            chk.fail('LowPass.projection_inbreeding:raises:%s' % type(e).__name__, 'projection_inbreeding(%r, %d) raises %r' % (kept[0], nsub, e), dict(kind='inbreeding', partition=list(kept[0]), k=nsub))

def gen_subsample_batch(rng, tier, mode):
    N = int(rng.integers(2, 11))
    def geno(ncalled):
        kind = int(rng.integers(5))
        if kind == 0: g = [0] * ncalled; g[int(rng.integers(ncalled))] = int(rng.integers(1, 3))        # a singleton / one homozygote
        elif kind == 1: g = [int(v) for v in rng.integers(0, 3, ncalled)]
        elif kind == 2: g = [int(v) for v in rng.choice([0, 2], ncalled)]
        elif kind == 3: g = [int(v) for v in rng.choice([0, 1, 2], ncalled, p=[0.6, 0.3, 0.1])]
        else: g = [int(v) for v in rng.choice([0, 1, 2], ncalled, p=[0.1, 0.3, 0.6])]
        if len(set(g)) == 1 and ncalled >= 2:
            g[0] = (g[0] + 1) % 3                                                                        # at least two different genotypes: the subsample is random
        return sorted(g) + [99] * (N - ncalled)
    L = int(4000 if tier == 'quick' else 12000)
    if mode == 'single-full':
        r = int(rng.integers(1, N)); cfgs = [geno(N)]
    elif mode == 'single-partial':
        c = int(rng.integers(max(2, N // 2), N + 1)) if N > 2 else 2
        r = int(rng.integers(1, max(2, c))); cfgs = [geno(c)]
    elif mode == 'mixed-same-calls':
        c = int(rng.integers(2, N + 1)); r = int(rng.integers(1, max(2, c)))
        # configurations with very different allele counts: mixing genotypes across loci would give counts no locus can produce
        lo = sorted([0] * (c - 1) + [1]) + [99] * (N - c); hi_ = sorted([2] * (c - 1) + [1]) + [99] * (N - c)
        cfgs = [lo, hi_, geno(c)]
    else:
        cs = sorted(set(int(v) for v in rng.integers(1, N + 1, size=3)) | {N})
        r = int(rng.integers(1, max(2, cs[-1])))
        cfgs = [geno(c) for c in cs]
        if rng.random() < 0.5: cfgs.append([99] * N)                                                     # a locus nobody was called at
    return dict(configs=cfgs, L=L, nsub=2 * r, seed=int(rng.integers(1, 2 ** 31 - 1)))

def check_simulate_deep(chk, ctx, sc):
    """`simulate_GATK_multisample_calling` with deep coverage: every genotype is called correctly, so the table of called allele
    counts is the outer product over the populations of 'nsub of the nseq chromosomes (F = 0) / nsub/2 of the nseq/2 individuals
    (F > 0) without replacement' given the true allele counts"""
    LP = _lowpass(chk)
    if LP is None:
        return
    inp = dict(kind='simulate', nseq=[int(v) for v in sc['nseq']], nsub=[int(v) for v in sc['nsub']], af=[int(v) for v in sc['af']],
               F=[float(v) for v in sc['F']], cov=[list(c) for c in sc['cov']], nsim=int(sc['nsim']), seed=int(sc['seed']))
    nseq, nsub, af, F, nsim = inp['nseq'], inp['nsub'], inp['af'], inp['F'], inp['nsim']
    d = len(nseq)
    cov = {}
    for k in range(d):
        cov['pop%d' % k] = cov_array(inp['cov'][k])
    LP.rng = np.random.default_rng(inp['seed']); np.random.seed(inp['seed'] % (2 ** 32))
    key = ('simulate', d, tuple(a == b for a, b in zip(nseq, nsub)), tuple(f > 0 for f in F))
    import warnings
    try:
        with warnings.catch_warnings():
            warnings.simplefilter('ignore')
            tab = np.asarray(LP.simulate_GATK_multisample_calling(cov, list(af), list(nseq), list(nsub), nsim, list(F)), dtype=float)
    except Exception as e:
        chk.l3(key)
        chk.fail('LowPass.simulate_GATK_multisample_calling:raises:%s' % type(e).__name__, 'simulate_GATK_multisample_calling(af=%r, nseq=%r, nsub=%r, F=%r) raises %r' % (af, nseq, nsub, F, e), inp)
        return
    chk.l3(key); chk.stat('simulate:%dpop' % d)
    if tab.shape != tuple(m + 1 for m in nsub) or not np.all(np.isfinite(tab)) or abs(float(tab.sum()) - 1) > 1e-9:
        chk.fail('LowPass.simulate_GATK_multisample_calling:table', 'result of shape %r, total %r is not a probability table over nsub=%r' % (tab.shape, float(np.nansum(tab)), nsub), inp)
        return
    E = np.ones(())
    nparts = 1
    for k in range(d):
        E = np.multiply.outer(E, lp_ref_matrix(nseq[k], nsub[k], F[k])[af[k]])
        nparts *= max(1, len(ctx['dadi'].Numerics.cached_part(af[k], nseq[k] // 2)))
    n_eff = max(1, nsim - nparts)                      # int() truncation of nsim * partition probability
    slack = 2.0 * nparts / nsim + 1e-12
    counts = np.rint(tab.ravel() * n_eff).astype(int)
    bad = mc_compare(chk, counts, n_eff, E.ravel(), slack=slack)
    if bad is not None:
        j = tuple(int(v) for v in np.unravel_index(bad[0], tab.shape))
        chk.fail('LowPass.simulate_GATK_multisample_calling:subsampling', 'deep coverage, true allele counts %r of nseq=%r, F=%r, %d simulated loci: called allele counts %r have frequency %.4f; '
                 'keeping nsub=%r without replacement gives %.4f (binomial tail %.2g; marginal of population 0: observed %s, exact %s)'
                 % (af, nseq, F, nsim, list(j), bad[1], nsub, bad[2], bad[3], np.round(tab.reshape(tab.shape[0], -1).sum(axis=1), 4).tolist(),
                    np.round(lp_ref_matrix(nseq[0], nsub[0], F[0])[af[0]], 4).tolist()), inp)

def gen_simulate(rng, tier, d):
    hi = {1: 14, 2: 8, 3: 6}[d]
    nseq = [2 * int(rng.integers(2, hi // 2 + 1)) for _ in range(d)]
    nsub = [2 * int(rng.integers(1, n // 2)) for n in nseq]                    # strictly fewer than sequenced
    if d >= 2 and rng.random() < 0.3:
        k = int(rng.integers(d)); nsub[k] = nseq[k]
    af = [int(rng.integers(1, n)) for n in nseq]
    F = [0.0 if rng.random() < 0.6 else float(rng.choice([0.125, 0.25, 0.5])) for _ in range(d)]
    cov = [['point', int(rng.integers(60, 101))] for _ in range(d)]
    return dict(nseq=nseq, nsub=nsub, af=af, F=F, cov=cov, nsim=int(20000 if tier == 'quick' else 60000), seed=int(rng.integers(1, 2 ** 31 - 1)))

def l3_subsampling(chk, ctx, rng, reps):
    tier = ctx['tier']
    for it in range(reps):
        for mode in ('single-full', 'single-partial', 'mixed-same-calls', 'mixed-calls'):
            check_subsample_batch(chk, ctx, gen_subsample_batch(rng, tier, mode))
        for d in (1, 1, 2, 3):
            check_simulate_deep(chk, ctx, gen_simulate(rng, tier, d))

# ---- brute force for small sizes
def inbreeding_brute(partition, k):
    import itertools
    r = k // 2; out = np.zeros(k + 1); tot = 0
    for c in itertools.combinations(range(len(partition)), r):
        out[sum(partition[i] for i in c)] += 1; tot += 1
    return out / tot

def lowpass_F_brute(n, m, F):
    """enumerate every assignment of genotypes to the n/2 individuals (weight = product of the genotype probabilities at frequency
    i/n under inbreeding F) and every choice of m/2 individuals"""
    import itertools
    ni = n // 2; M = np.zeros((n + 1, m + 1)); tot = np.zeros(n + 1)
    for g in itertools.product((0, 1, 2), repeat=ni):
        i = sum(g)
        gp = geno_probs(i / n, F) if 0 < i < n else [1.0, 1.0, 1.0]
        w = 1.0
        for v in g: w *= gp[v]
        tot[i] += w
        M[i] += w * inbreeding_brute(list(g), m)
    return M / tot[:, None]

def l3_bruteforce(chk, ctx, rng):
    """`projection_inbreeding` for EVERY genotype multiset of 1..5 individuals and every k, `projection_matrix(n, m, F)` for every
    even m <= n <= 8 (F in {0, 1/4, 3/5}) against plain enumeration of the subsets of individuals"""
    import itertools
    LP = _lowpass(chk)
    if LP is None:
        return
    for N in range(1, 6 if ctx['tier'] == 'quick' else 7):
        for part in itertools.combinations_with_replacement((0, 1, 2), N):
            for r in range(1, N + 1):
                inp = dict(kind='inbreeding', partition=list(part), k=2 * r)
                try:
                    got = np.asarray(LP.projection_inbreeding(list(part), 2 * r), dtype=float)
                except Exception as e:
                    chk.fail('LowPass.projection_inbreeding:raises:%s' % type(e).__name__, 'projection_inbreeding(%r, %d) raises %r' % (list(part), 2 * r, e), inp); continue
                ex = inbreeding_brute(list(part), 2 * r)
                chk.l3(('inbreeding-brute', N, r))
                if got.shape != ex.shape or float(np.max(np.abs(got - ex))) > RTOL:
                    chk.fail('LowPass.projection_inbreeding:value', 'projection_inbreeding(%r, %d) = %r; enumerating the %d-subsets of the %d individuals gives %r'
                             % (list(part), 2 * r, got.tolist(), r, N, ex.tolist()), inp)
                cf = inbreeding_exact(list(part), 2 * r)
                if float(np.max(np.abs(cf - ex))) > 1e-12:
                    chk.notes.append('harness: closed form and enumeration disagree for %r, k=%d' % (list(part), 2 * r))
    for n in (2, 4, 6, 8):
        for m in range(2, n + 1, 2):
            for F in (0.0, 0.25, 0.6):
                inp = dict(kind='lowpassF', n=n, m=m, F=F)
                try:
                    M = np.asarray(LP.projection_matrix(n, m, F), dtype=float)
                except Exception as e:
                    chk.fail('LowPass.projection_matrix:raises:%s' % type(e).__name__, 'projection_matrix(%d,%d,%g) raises %r' % (n, m, F, e), inp); continue
                chk.l3(('lowpassF-brute', n, m, F))
                ref = W(n, m) if F == 0 else lowpass_F_brute(n, m, F)
                if M.shape != ref.shape or not np.all(np.isfinite(M)) or float(np.max(np.abs(M - ref))) > RTOL:
                    i, j = np.unravel_index(int(np.argmax(np.abs(M - ref))), ref.shape) if M.shape == ref.shape else (0, 0)
                    chk.fail('LowPass.projection_matrix:%svalue' % ('F:' if F else ''), 'projection_matrix(%d,%d,F=%g) entry [%d,%d] is %r; enumerating genotype assignments and subsets of %d of the %d individuals gives %r'
                             % (n, m, F, i, j, float(M[i, j]) if M.shape == ref.shape else None, m // 2, n // 2, float(ref[i, j])), inp)

# --------------------------------------------------------------------------- entry points
def run(chk, ctx):
    tier = ctx['tier']
    rng = common.Rng(ctx['seed'], 'C08')
    nmax = 40 if tier == 'quick' else 80
    chk.rule = ('weights: every (m, n, i) with 1 <= m <= n <= %d (exhaustive), rows sampled for n up to 200 with i at the edges/middle/near m, '
                'cache cold and warm, numpy and Python ints, upward rows (n < m); spectra: d in 1..4, per-axis sizes from {1, 2, max, random}, '
                'targets from {same, n-1, 1, random}, masks from {corners, none, sparse, dense, single entry, full line}, folded (S.fold()) and unfolded, '
                'planted spikes and negative entries; refusals: one/all axes upward, upward by exactly 1, too few/many sizes, equal sizes (accepted); '
                'LARGE spectra on every run (L3 only; size-dependent code paths): 3-D with 44..60 chromosomes per axis, 4-D with 17..22, very unequal axes '
                '(200 x 30 x 20, 80 x 16 x 10 x 8), 2-D/1-D up to 200 — 7e4..2.6e5 entries quick, up to 1.1e6 thorough — target profiles {later axes shrink more, '
                'a middle axis most, earlier more, last axis only, all by one, down to 1..3, random}, pairwise different targets, folded and unfolded, '
                'masks {none, single, corners, sparse, line}, checked entrywise against per-axis exact hypergeometric matrices (tensordot) + reachability masks, '
                'plus two stages = one, axis-by-axis in random order, transposed axes, upward refusal, identity, `_project_one_axis`, LowPass F = 0 and '
                'from_data_dict at n up to 200; '
                'projection inside the low-pass machinery (LowPass.py): low-pass model functions for 1..4 populations at deep coverage (>= 60 reads per individual) with '
                'sizes {all equal, equal and nothing subsampled, sequenced sizes equal / subsample sizes not, two populations equal and one different, all different} x '
                'Fx {None, zeros, one F for all, a different F per population}, asymmetric model spectra, against per-axis exact matrices (hypergeometric / individual subsampling '
                'under inbreeding), against Spectrum.project, and with the populations relabelled (reversed, random, cyclic); moderate coverage with the implementation\'s own '
                'matrices recorded (matrix k along axis k; K through the translated loop); subsample_genotypes_1D on 4000 (12000 thorough) loci per genotype configuration '
                '(one configuration fully / partly called, several configurations with equal and with different numbers of calls, uncallable loci) and '
                'simulate_GATK_multisample_calling at deep coverage (1..3 populations, nsub < nseq, F = 0 and F > 0, 20000 / 60000 loci) against exact weights with exact binomial '
                'tails (alarm below 1e-10, fixed seeds); projection_inbreeding for every genotype multiset of 1..5 individuals and projection_matrix for every even m <= n <= 8 against '
                'plain enumeration; '
                'non-trivial = distinct (dimension, folded, mask kind, target kinds, size class) / (n, m) pair' % nmax)
    chk.unproved = [
        'round-off of gammaln/exp and of the float accumulation: agreement of the float code with the exact rational model is numerical (1e-9 of the array scale; observed <= 3e-13 up to n = 200)',
        'the numpy slice/broadcast bookkeeping of _project_one_axis in d dimensions is tied to the pointwise model (C08_axis_entry) by correspondence and by the statement-list check C08_wiring, not by translation',
        'fold/unfold of the model (Model/Spectrum.lean) are proved equal, entry by entry, to the programs regenerated from Spectrum.fold/unfold (tools/gen_ProjFold.py, using C09\'s translator; C08_fold_generated, C08_fold_wiring) and tied by correspondence; reverse_array (Spec.mirror) and the raw total (Spec.total) are tied by correspondence only',
        'the array theorems (C08_total_array, C08_compose_array, C08_axes_commute_array, C08_mask_array, C08_mirror_array, C08_fold_commute) assume no axis of length 0; mask spread of a *folded* source is stated through fold(project(unfold)) (C08_folded + C08_mask_array on the unfolded spectrum), not as a closed formula',
        'dictionary semantics of the cache (hit returns the stored row) is exercised (cold/warm), its transparency theorem is C20',
        'the per-axis loop of project is translated (axisVisits / visitDoes / visitCall; C08_axis_pairing) for loop headers of the form enumerate(<list>) / zip(<list>, <list>); '
        'a visiting order computed at run time (from the data, the array size, the amount of shrinkage) is outside the translated language (reported as a broken translation) '
        'and is covered by the large-spectrum L3 oracle only: spectra above ~2.6e5 entries (quick) / ~1.1e6 (thorough) are never built',
        'LowPass.lowpass_func: the per-population loop is translated (loopVisits / loopBody over swapaxes, moveaxis, dot, tensordot; C08_lowpass_axes about LPAx.runBody / runLoop on '
        'functions of an index assignment); the driver runs the same runBody per population and tabulates the array in between (evaluation strategy, not proved equal to runLoop); '
        'numpy.ma semantics of `dot` on the masked model (masked corners count as 0) is tied by correspondence and L3 only; a correct refactoring of the loop body into another statement '
        'list (e.g. moveaxis there and back) needs the proof of C08_lowpass_axes redone',
        'subsample_genotypes_1D / simulate_GATK_multisample_calling (random draws) are not in the Lean model: their subsampling law is checked statistically (exact binomial tails, '
        'fixed seeds) against exact individual-subsampling weights; projection_inbreeding and projection_matrix(F > 0) against closed forms and enumeration (L3 only)']
    sweep_weights(chk, ctx, nmax, rng)
    sample_weights(chk, ctx, rng, 150 if tier == 'quick' else 1500, nmax + 1, 200)
    upward_rows(chk, ctx, rng, 40 if tier == 'quick' else 300)
    window_tie(chk, ctx, rng, 100 if tier == 'quick' else 1000)
    cache_soundness(chk, ctx, 'the weight sweeps')
    l3_data_dict_history(chk, ctx, rng, 18 if tier == 'quick' else 90)
    cache_soundness(chk, ctx, 'from_data_dict / _from_count_dict builds')
    ncase = 160 if tier == 'quick' else 700
    for it in range(ncase):
        c = gen_case(rng, tier)
        c['cold'] = bool(it % 5 == 0)
        check_project_case(chk, ctx, c)
    zk = ['counts', 'zero-slices', 'zero-corners', 'all-zero', 'one-entry', 'zero-slices']
    for it in range(96 if tier == 'quick' else 480):      # exact zeros in the data, masked entries on them: 1-D..4-D
        c = gen_case(rng, tier, d=1 + it % 4, folded=bool((it // 4) % 3 == 2), data_kind=zk[(it // 12) % 6],
                     mask_kind=['on-zeros', 'zero-slice', 'on-zeros', 'single'][(it // 4) % 4] if zk[(it // 12) % 6] != 'dense' else None)
        c['cold'] = bool(it % 7 == 0)
        check_project_case(chk, ctx, c)
    for it in range(24 if tier == 'quick' else 120):
        c = gen_case(rng, tier, d=1 + it % 4, folded=False, data_kind=zk[it % 6], mask_kind=['zero-slice', 'on-zeros'][it % 2])
        c['axis'] = int(rng.integers(c['d']))
        check_one_axis_case(chk, ctx, c)
    for it in range(3 if tier == 'quick' else 12):        # large 1-D (n up to 200)
        c = gen_case(rng, tier, d=1, big=True); c['cold'] = False
        check_project_case(chk, ctx, c)
    for it in range(20 if tier == 'quick' else 150):
        c = gen_case(rng, tier, folded=False)
        c['axis'] = int(rng.integers(c['d']))
        check_one_axis_case(chk, ctx, c)
    cache_soundness(chk, ctx, 'Spectrum.project / _project_one_axis')
    l3_large(chk, ctx, rng)
    cache_soundness(chk, ctx, 'large spectra (project, _project_one_axis, LowPass F = 0, from_data_dict)', limit=40000, rng=rng)
    check_refusals(chk, ctx, rng, 36 if tier == 'quick' else 240)
    l3_compose_and_order(chk, ctx, rng, 100 if tier == 'quick' else 600)
    l3_neutral(chk, ctx, rng, 42 if tier == 'quick' else 280)
    l3_arrays(chk, ctx, rng, 60 if tier == 'quick' else 400)
    cache_soundness(chk, ctx, 'refusals, two-stage / axis-order projections, neutral spectra')
    l3_lowpass_history(chk, ctx, rng, 24 if tier == 'quick' else 120)     # before any plain F = 0 call touches these sizes
    l3_lowpass(chk, ctx, rng, 30 if tier == 'quick' else 200)
    order_weights(chk, ctx, rng, 12 if tier == 'quick' else 20)
    l3_inbreeding(chk, ctx, rng, 60 if tier == 'quick' else 400)
    cache_soundness(chk, ctx, 'LowPass.projection_matrix / projection_inbreeding')
    l3_attrs(chk, ctx, rng, 18 if tier == 'quick' else 90)
    l3_data_dict_history(chk, ctx, rng, 6 if tier == 'quick' else 30)     # once more on a warm cache
    # round 6: projection inside the low-pass machinery (own random stream: the families above keep their inputs)
    rng6 = common.Rng(ctx['seed'], 'C08/lowpass')
    l3_bruteforce(chk, ctx, rng6)
    l3_lowpass_axes(chk, ctx, rng6, 2 if tier == 'quick' else 10)
    l3_subsampling(chk, ctx, rng6, 5 if tier == 'quick' else 25)
    cache_soundness(chk, ctx, 'the whole run')
    chk.stats['exhaustive'] = True
    chk.assumptions += ['exhaustive: true for the weight table 1 <= m <= n <= %d (every i, every j)' % nmax]

def replay(chk, ctx, data):
    inp = data.get('input', {}) or {}
    kind = inp.get('kind')
    def arr(o, dtype=float):
        return np.array(o['data'], dtype=dtype).reshape(o['shape']) if isinstance(o, dict) else np.array(o, dtype=dtype)
    if kind == 'weights':
        m, n, i = int(inp['m']), int(inp['n']), int(inp['i'])
        model = None
        if have_driver(ctx):
            out = ctx['driver'].ask('projrow %d %d %d' % (m, n, i))
            model = parse_floats(out[3:]) if out.startswith('ok ') else None
        ctx['dadi'].Numerics._projection_cache.clear()
        chk.l3(('weights', n, m))
        check_row(chk, ctx['dadi'], m, n, i, model)
    elif kind == 'datadict':
        datadict_sequence(chk, ctx, inp)
    elif kind == 'inbreeding':
        check_inbreeding_case(chk, ctx, _lowpass(chk), list(inp['partition']), int(inp['k']))
    elif kind == 'lowpassF':
        check_lowpass_F(chk, ctx, _lowpass(chk), int(inp['n']), int(inp['m']), float(inp['F']))
    elif kind == 'lowpass':
        LP = _lowpass(chk)
        hist = [tuple(h) for h in inp.get('history', [])]
        done = []
        for (n, m, F) in hist:                       # re-create the call history in this fresh process
            if F == 0:
                check_lowpass_f0(chk, ctx, LP, int(n), int(m), done)
            else:
                LP.projection_matrix(int(n), int(m), float(F))
            done.append((int(n), int(m), float(F)))
        if inp.get('F') in (None, 0, 0.0):
            if inp.get('mid') is not None:
                A = check_lowpass_f0(chk, ctx, LP, int(inp['n']), int(inp['mid']), done)
                B = check_lowpass_f0(chk, ctx, LP, int(inp['mid']), int(inp['m']), done)
            check_lowpass_f0(chk, ctx, LP, int(inp['n']), int(inp['m']), done)
        else:
            run(chk, ctx)
    elif kind == 'lpdeep':
        check_lowpass_deep(chk, ctx, inp)
    elif kind == 'lpaxes':
        check_lowpass_axes(chk, ctx, inp)
    elif kind == 'subsample':
        check_subsample_batch(chk, ctx, inp)
    elif kind == 'simulate':
        check_simulate_deep(chk, ctx, inp)
    elif kind == 'large':
        c = large_build(inp)
        if inp.get('axis') is not None:
            c['axis'] = int(inp['axis']); check_one_axis_case(chk, ctx, c, do_model=False)
        elif inp.get('what') == 'meta':
            check_large_meta(chk, ctx, c)
        else:
            check_project_case(chk, ctx, c, do_model=False)
    elif kind == 'array':
        c = dict(inp); c['data'] = arr(inp['data']); c['mask'] = arr(inp['mask'], int).astype(bool)
        check_array_case(chk, ctx, c)
    elif kind in ('project', 'compose', 'attrs', 'refusal', 'refusal-one-axis'):
        c = dict(inp); c['data'] = arr(inp['data']); c['mask'] = arr(inp['mask'], int).astype(bool); c['kind'] = 'project'
        if kind == 'project' and inp.get('axis') is not None:
            check_one_axis_case(chk, ctx, c)
        elif kind == 'project':
            c['cold'] = True
            check_project_case(chk, ctx, c)
        else:
            run(chk, ctx)
    else:
        run(chk, ctx)
