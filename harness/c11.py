"""C11 — likelihoods are Poisson/multinomial over jointly unmasked entries, optimal theta.

K : Inference.ll / ll_per_bin / ll_multinom / ll_multinom_per_bin / optimal_sfs_scaling / optimally_scaled_sfs /
    linear_Poisson_residual / Anscombe_Poisson_residual  vs the exact-rational Lean model (Model/Likelihood.lean, whose
    entry-wise formulas are regenerated from the source).  log / gammaln / sqrt / powers are sent as tables of numbers
    evaluated at the exact rational arguments the model asks for (`lik_prep`).
L3: the property statement evaluated directly on the real code with numpy/scipy (Poisson log-pmf over the jointly
    unmasked entries, theta = sum(data)/sum(model) over them, maximality over theta, scale invariance, Gibbs, auto-fold,
    residual sign and masks, inputs untouched).
Round 4: K also for `Spectrum.fold` itself (model's hand-written fold and the C09 fold model, op `lik_fold`), for the mask rule of
    every primitive of the masked-cell algebra on numpy (`lik_cellop`: numpy.ma.log/sqrt/power, Spectrum **, gammaln) and for the generated
    zero-masking facts (`lik_flags`); L3 folds with an oracle written from the closed form (never calls Spectrum.fold), checks the
    closed form of ll_multinom over the joint set, the total of the folded model over the joint set from the unfolded model
    (C11_fold_joint_total) and theta(model, data.fold()) == theta(model, data) for symmetric joint masks (C11_fold_theta_consistent)."""
import math, itertools
from fractions import Fraction
import numpy as np
from . import common, gen
from .common import rat, fmt_list, close

PROP = 'C11'
GENERATED = ['Likelihood', 'Fold']      # Fold: the C09 fold programs the auto-fold is proved equal to (Lemmas/LikFold.lean)
NEEDS_BUILD = False
NEEDS_DRIVER = True
DRIVER_MODULES = ['Likelihood']

# ------------------------------------------------------------------ spectra <-> wire
def mk_spec(dadi, vals, mask, folded=False):
    return dadi.Spectrum(np.array(vals, dtype=float), mask=np.array(mask, dtype=bool), mask_corners=False,
                         data_folded=bool(folded), check_folding=False)

def spec_tokens(S):
    sh = 'x'.join(str(s) for s in S.shape)
    vals = fmt_list(np.asarray(S.data, dtype=float).ravel().tolist())
    bits = ''.join('1' if b else '0' for b in np.ma.getmaskarray(S).ravel().tolist())
    return '%s %s %s %s' % (sh, vals, bits, '1' if S.folded else '0')

def case_tokens(c):
    return spec_tokens(c['M']) + ' ' + spec_tokens(c['D'])

def small(c):
    M, D = c['M'], c['D']
    return dict(shape=list(M.shape), model=np.asarray(M.data).ravel().tolist(), model_mask=np.ma.getmaskarray(M).ravel().astype(int).tolist(),
                model_folded=bool(M.folded), data=np.asarray(D.data).ravel().tolist(),
                data_mask=np.ma.getmaskarray(D).ravel().astype(int).tolist(), data_folded=bool(D.folded),
                resid_mask=c.get('mk'), kind=c.get('kind'))

def from_small(dadi, d):
    sh = tuple(d['shape'])
    M = mk_spec(dadi, np.array(d['model'], dtype=float).reshape(sh), np.array(d['model_mask'], dtype=bool).reshape(sh), d['model_folded'])
    D = mk_spec(dadi, np.array(d['data'], dtype=float).reshape(sh), np.array(d['data_mask'], dtype=bool).reshape(sh), d['data_folded'])
    return dict(M=M, D=D, mk=d.get('resid_mask'), kind=d.get('kind', 'replay'))

def parse_cells(s):
    """'--' masked, 'nf' non-finite, else Fraction"""
    if s == '-':
        return []
    out = []
    for t in s.split(','):
        out.append(None if t == '--' else ('nf' if t == 'nf' else Fraction(t)))
    return out

# ------------------------------------------------------------------ tables
def tab(xs, f, ok):
    seen = {}
    for x in xs:
        if x not in seen and ok(x):
            try:
                y = float(f(x))
            except (ValueError, OverflowError, ZeroDivisionError):
                continue
            if math.isfinite(y):
                seen[x] = y
    if not seen:
        return '-;-'
    return ','.join(rat(x) for x in seen) + ';' + ','.join(rat(y) for y in seen.values())

def ptab(exps, xs):
    es, xx, yy = [], [], []
    seen = set()
    for e in exps:
        for x in xs:
            if (e, x) in seen: continue
            seen.add((e, x))
            if x < 0 or (x == 0 and e < 0): continue
            y = float(x) ** float(e)
            if math.isfinite(y):
                es.append(e); xx.append(x); yy.append(y)
    if not es:
        return '-;-;-'
    return ','.join(rat(e) for e in es) + ';' + ','.join(rat(x) for x in xx) + ';' + ','.join(rat(y) for y in yy)

def gammaln(x):
    from scipy.special import gammaln as g
    return g(float(x))

class Model:
    """thin wrapper over the Lean driver for one case"""
    def __init__(self, driver, c):
        self.d = driver; self.c = c; self.tok = case_tokens(c)
        self.dvals = [Fraction(float(v)) for v in np.asarray(c['D'].data, dtype=float).ravel().tolist()]
        self._prep = {}
    def prep(self, kind):
        if kind not in self._prep:
            out = self.d.ask('lik_prep %s %s' % (kind, self.tok))
            self._prep[kind] = common.parse_list(out[3:]) if out.startswith('ok ') else out
        return self._prep[kind]
    def ll_tables(self, kind):
        mv = self.prep(kind)
        if isinstance(mv, str): return None, mv
        return (tab(mv, lambda x: math.log(x), lambda x: x > 0), tab([d + 1 for d in self.dvals], gammaln, lambda x: x > 0)), None
    def ll_op(self, op):
        tabs, err = self.ll_tables('multinom' if 'multinom' in op else 'plain')
        if tabs is None: return err
        return self.d.ask('%s %s %s %s' % (op, self.tok, tabs[0], tabs[1]))
    def simple(self, op):
        return self.d.ask('%s %s' % (op, self.tok))
    def linres(self, mk):
        mv = self.prep('resid')
        if isinstance(mv, str): return mv
        return self.d.ask('lik_linres %s %s %s' % (self.tok, '-' if mk is None else rat(mk), tab(mv, lambda x: math.sqrt(x), lambda x: x >= 0)))
    def anscombe(self, mk, exps):
        mv = self.prep('resid')
        if isinstance(mv, str): return mv
        return self.d.ask('lik_anscombe %s %s %s' % (self.tok, '-' if mk is None else rat(mk), ptab(exps, list(mv) + self.dvals)))

# ------------------------------------------------------------------ K comparisons
def cmp_cells(impl, cells, rtol=1e-9):
    """impl: masked array (any shape) ; cells: parsed model answer.  returns (ok, message)"""
    iv = np.asarray(np.ma.getdata(impl), dtype=float).ravel()
    im = np.ma.getmaskarray(impl).ravel()
    if len(cells) != iv.size:
        return False, 'size %d vs %d' % (iv.size, len(cells))
    mm = np.array([c is None for c in cells], dtype=bool)
    if not np.array_equal(im, mm):
        k = int(np.nonzero(im != mm)[0][0])
        return False, 'mask differs at flat index %d: impl %s model %s' % (k, bool(im[k]), bool(mm[k]))
    vis = [k for k in range(iv.size) if not mm[k]]
    fin = [k for k in vis if cells[k] != 'nf']
    for k in vis:
        if cells[k] == 'nf' and math.isfinite(iv[k]):
            return False, 'entry %d: model says non-finite (division by zero), impl %r' % (k, iv[k])
    if fin:
        mv = np.array([float(cells[k]) for k in fin])
        ok, err, scale = close(iv[fin], mv, rtol=rtol)
        if not ok:
            return False, 'values differ by %.3g (scale %.3g)' % (err, scale)
    return True, ''

def cmp_scalar(impl, cell, atol):
    if cell is None:
        return (impl is np.ma.masked), 'model masked, impl %r' % (impl,)
    if impl is np.ma.masked:
        return False, 'impl masked, model %s' % (cell,)
    if cell == 'nf':
        return (not math.isfinite(float(impl))), 'model non-finite, impl %r' % (impl,)
    x = float(impl)
    if not math.isfinite(x):
        return False, 'impl %r, model %s' % (x, float(cell))
    return abs(x - float(cell)) <= atol, 'impl %r model %r (atol %.3g)' % (x, float(cell), atol)

def call(f, *a, **k):
    """run the implementation; floating-point warnings off; the stray `print` of ll_per_bin swallowed"""
    import io, contextlib
    with np.errstate(all='ignore'), contextlib.redirect_stdout(io.StringIO()):
        try:
            return f(*a, **k), None
        except Exception as e:
            return None, e

def k_judge(chk, inp, op, impl, exc, out, kind, atol=None):
    """one correspondence verdict: implementation result (or exception) vs the driver's answer line"""
    if out.startswith('err ') or not out.startswith('ok'):
        if out in ('err folding', 'err shape') and exc is not None:
            chk.k_ok(op); return
        if out == 'err empty_joint_set':
            # theta is numpy.ma.masked: the real code returns masked or trips over `masked * model` (AttributeError);
            # there is no entry to compare -- degenerate, outside the property's domain
            chk.k_skipped += 1; chk.stat('k_skipped:empty_joint_set'); return
        if out == 'err zero_model_sum':
            # theta is inf/nan in floating point: nothing finite to compare
            chk.k_skipped += 1; chk.stat('k_skipped:zero_model_sum'); return
        chk.k_bad(op, inp, repr(exc) if exc is not None else 'returned', out, None); return
    if exc is not None:
        chk.k_bad(op, inp, repr(exc), out, None); return
    body = out[3:] if len(out) > 3 else ''
    if kind == 'cells':
        ok, msg = cmp_cells(impl, parse_cells(body))
    elif kind == 'scaled':
        f, cells = body.split(' ', 1)
        ok, msg = cmp_cells(impl, parse_cells(cells))
        if ok and hasattr(impl, 'folded') and (f == '1') != bool(impl.folded):
            ok, msg = False, 'folded flag impl %s model %s' % (impl.folded, f)
    else:
        ok, msg = cmp_scalar(impl, parse_cells(body)[0], atol)
    if ok: chk.k_ok(op)
    else: chk.k_bad(op, inp, common.jsonable(np.ma.filled(impl, np.nan) if isinstance(impl, np.ndarray) else impl), out[:400], msg)

def k_case(chk, ctx, c, exps):
    dadi = ctx['dadi']; I = dadi.Inference; drv = ctx['driver']
    if drv is None or not drv.ok():
        return
    M, D, mk = c['M'], c['D'], c.get('mk')
    mod = Model(drv, c)
    inp = small(c)
    judge = lambda *a, **k: k_judge(chk, inp, *a, **k)
    r, e = call(I.ll_per_bin, M, D)
    judge('ll_per_bin', r, e, mod.ll_op('lik_ll_per_bin'), 'cells')
    atol = 1e-9 * (float(np.ma.sum(np.ma.abs(r))) if (r is not None and np.ma.count(r)) else 1.0) + 1e-12
    r2, e2 = call(I.ll, M, D)
    judge('ll', r2, e2, mod.ll_op('lik_ll'), 'scalar', atol)
    r, e = call(I.optimal_sfs_scaling, M, D)
    thabs = abs(float(r)) if (r is not None and r is not np.ma.masked and math.isfinite(float(r))) else 1.0
    judge('optimal_sfs_scaling', r, e, mod.simple('lik_theta'), 'scalar', 1e-9 * thabs)
    r, e = call(I.optimally_scaled_sfs, M, D)
    judge('optimally_scaled_sfs', r, e, mod.simple('lik_scaled'), 'scaled')
    r, e = call(I.ll_multinom_per_bin, M, D)
    judge('ll_multinom_per_bin', r, e, mod.ll_op('lik_ll_multinom_per_bin'), 'cells')
    atol = 1e-9 * (float(np.ma.sum(np.ma.abs(r))) if (r is not None and np.ma.count(r)) else 1.0) + 1e-12
    r2, e2 = call(I.ll_multinom, M, D)
    judge('ll_multinom', r2, e2, mod.ll_op('lik_ll_multinom'), 'scalar', atol)
    r, e = call(I.linear_Poisson_residual, M, D, mask=mk)
    judge('linear_Poisson_residual', r, e, mod.linres(mk), 'cells')
    r, e = call(I.Anscombe_Poisson_residual, M, D, mask=mk)
    judge('Anscombe_Poisson_residual', r, e, mod.anscombe(mk, exps), 'cells')

def _fail(chk, key, what, inp):
    chk.stat('fail:' + key)
    chk.fail(key, what, inp)

# ------------------------------------------------------------------ L3: the property, written from its statement
def arrs(S):
    return np.asarray(S.data, dtype=float), np.ma.getmaskarray(S)

def poisson_terms(m, d):
    """log P(d | mean m) for m > 0 (continuous extension through gammaln for projected data)"""
    from scipy.special import gammaln as g
    from scipy.stats import poisson
    t = -m + d * np.log(m) - g(d + 1.)
    isint = (d == np.round(d)) & (d >= 0)
    if np.any(isint):
        ref = poisson.logpmf(d[isint], m[isint])
        fin = np.isfinite(ref)
        if np.any(fin) and not np.allclose(t[isint][fin], ref[fin], rtol=1e-9, atol=1e-9):
            raise AssertionError('oracle self-check: formula vs scipy.stats.poisson.logpmf')
    if np.any(~isint & (d > -1)):
        # non-integer (projected) data: e^-m m^d / Gamma(d+1) is the Gamma(shape d+1, scale 1) density at m  (C11_poisson_logpmf_real)
        from scipy.stats import gamma as gdist
        sel = ~isint & (d > -1)
        ref = gdist.logpdf(m[sel], d[sel] + 1.)
        fin = np.isfinite(ref)
        if np.any(fin) and not np.allclose(t[sel][fin], ref[fin], rtol=1e-8, atol=1e-8):
            raise AssertionError('oracle self-check: formula vs log of the Gamma density (real-valued data)')
    return t

def oracle_ll(M, D):
    mv, mm = arrs(M); dv, dm = arrs(D)
    vis = ~mm & ~dm & (mv > 0)
    if not vis.any():
        return None, vis, 0.0
    t = poisson_terms(mv[vis], dv[vis])
    return float(t.sum()), vis, float(np.abs(t).sum())

def oracle_theta(M, D):
    mv, mm = arrs(M); dv, dm = arrs(D)
    j = ~mm & ~dm
    if not j.any():
        return None, j
    sm = mv[j].sum()
    return (dv[j].sum() / sm if sm != 0 else float('nan')), j

def rev_all(a):
    return a[tuple(slice(None, None, -1) for _ in a.shape)]

def fold_geometry(shape):
    tot = np.indices(shape).sum(axis=0); T = sum(int(x) - 1 for x in shape)
    corner = np.zeros(shape, bool); corner.flat[0] = True; corner.flat[-1] = True
    return 2 * tot > T, 2 * tot == T, corner

def fold_oracle(mv, mm):
    """Spectrum.fold from its closed form (C09_fold_pair / C09_fold_mask = second half of C11_autofold_value); numpy only"""
    fo, amb, corner = fold_geometry(mv.shape)
    pair = mv + rev_all(mv)
    v = np.where(fo, 0.0, np.where(amb, pair / 2., pair))
    return v, (mm | rev_all(mm) | fo | corner)

def corner_class(M, D):
    """inputs on which intersect_masks' constructor call changes the joint mask: a corner visible in both, masks differ"""
    mm = np.ma.getmaskarray(M).ravel(); dm = np.ma.getmaskarray(D).ravel()
    j = mm | dm
    return (not np.array_equal(mm, dm)) and (not j[0] or not j[-1])

def near(a, b, atol, rtol=1e-9):
    return abs(a - b) <= atol + rtol * max(abs(a), abs(b))

def l3_case(chk, ctx, c, rng):
    dadi = ctx['dadi']; I = dadi.Inference
    M0, D = c['M'], c['D']
    inp = small(c)
    mk = c.get('mk')
    if M0.folded and not D.folded:
        # a folded model against unfolded data is rejected by Spectrum arithmetic: not in the property's domain
        chk.stat('l3:folded-model-unfolded-data'); return
    keep = (np.array(M0.data, copy=True), np.ma.getmaskarray(M0).copy(), np.array(D.data, copy=True), np.ma.getmaskarray(D).copy())
    fns = dict(ll=I.ll, ll_multinom=I.ll_multinom, optimal_sfs_scaling=I.optimal_sfs_scaling)
    # --- auto-fold: every entry point gives, for an unfolded model against folded data, what the folded model gives
    M = M0
    if D.folded and not M0.folded:
        # the folded model from the closed form, NOT from Spectrum.fold: every oracle below is then independent of the fold code
        fv, fm = fold_oracle(*arrs(M0))
        M = mk_spec(dadi, fv, fm, True)
        Mr, e = call(M0.fold)
        chk.l3(('fold-value', M0.ndim, bool(np.any(fold_geometry(M0.shape)[1]))))
        if e is not None:
            _fail(chk, 'autofold:fold:raises', 'model.fold() raises %r' % (e,), inp)
        elif not (np.array_equal(np.ma.getmaskarray(Mr), fm) and np.allclose(np.asarray(Mr.data), fv, rtol=1e-12, atol=0) and Mr.folded):
            _fail(chk, 'autofold:fold-value', 'model.fold() is not: 0 / half the pair sum / pair sum on folded-out / ambiguous / kept entries, '
                  'mask = own | mirror | folded-out | corners', inp)
    if not (~np.ma.getmaskarray(M) & ~np.ma.getmaskarray(D)).any():
        # nothing is visible in both: ll must be masked / 0, everything else is degenerate
        got, e = call(I.ll, M0, D)
        chk.l3(('empty-joint', M0.ndim))
        if e is not None or not (got is np.ma.masked or float(got) == 0.0):
            _fail(chk, 'll:all-masked', 'no jointly unmasked entry but ll = %r / %r' % (got, e), inp)
        chk.stat('l3:empty-joint-set'); return
    if D.folded and not M0.folded:
        for name, f in list(fns.items()) + [('ll_per_bin', I.ll_per_bin), ('linear_Poisson_residual', lambda a, b: I.linear_Poisson_residual(a, b, mask=mk)),
                                            ('Anscombe_Poisson_residual', lambda a, b: I.Anscombe_Poisson_residual(a, b, mask=mk))]:
            a, ea = call(f, M0, D); b, eb = call(f, M, D)
            chk.l3(('autofold', name, M0.ndim))
            if ea is not None or eb is not None:
                _fail(chk, '%s:autofold:raises' % name, '%s raises with folded data: %r / %r' % (name, ea, eb), inp); continue
            same = np.array_equal(np.ma.getmaskarray(a), np.ma.getmaskarray(b)) and \
                np.allclose(np.ma.filled(a, 0.), np.ma.filled(b, 0.), rtol=1e-9, atol=1e-12, equal_nan=True)
            if not same:
                _fail(chk, '%s:autofold' % name, '%s(model, folded data) differs from %s(model.fold(), folded data)' % (name, name), inp)
    mv, mm = arrs(M); dv, dm = arrs(D)
    joint = ~mm & ~dm
    pos_ok = bool(np.all(mv[joint] > 0)) and joint.any()
    corner = corner_class(M, D)
    tag = ':corner-remasked' if corner else ''
    key = (M.ndim, bool(D.folded), c['kind'], bool(pos_ok), bool(np.array_equal(mm, dm)), corner, bool(np.any(dv[joint] == 0)) if joint.any() else False)
    # --- ll = sum of Poisson log-probabilities over exactly the jointly unmasked entries
    want, vis, mag = oracle_ll(M, D)
    got, e = call(I.ll, M, D)
    chk.l3(key + ('ll',))
    if e is not None:
        _fail(chk, 'll:raises:%s' % type(e).__name__, 'll raises %r' % e, inp)
    elif want is None:
        if got is not np.ma.masked and float(got) != 0.0:
            _fail(chk, 'll:all-masked', 'no jointly unmasked entry but ll = %r' % (got,), inp)
    elif got is np.ma.masked or not near(float(got), want, 1e-9 * mag):
        _fail(chk, 'll:value', 'll = %r, sum of Poisson log-probabilities over the joint set = %r' % (got, want), inp)
    pb, e = call(I.ll_per_bin, M, D)
    chk.l3(key + ('ll_per_bin',))
    if e is not None:
        _fail(chk, 'll_per_bin:raises:%s' % type(e).__name__, 'll_per_bin raises %r' % e, inp)
    else:
        if not np.array_equal(np.ma.getmaskarray(pb), ~vis):
            _fail(chk, 'll_per_bin:mask', 'visible entries of ll_per_bin are not exactly the entries masked in neither (with model > 0)', inp)
        elif vis.any() and not np.allclose(np.ma.getdata(pb)[vis], poisson_terms(mv[vis], dv[vis]), rtol=1e-9, atol=1e-9 * max(mag, 1e-300)):
            _fail(chk, 'll_per_bin:value', 'an entry of ll_per_bin is not the Poisson log-probability', inp)
    # --- theta
    th_want, j = oracle_theta(M, D)
    th, e = call(I.optimal_sfs_scaling, M, D)
    chk.l3(key + ('theta',))
    th_ok = False
    if e is not None:
        _fail(chk, 'optimal_sfs_scaling:raises:%s' % type(e).__name__, 'optimal_sfs_scaling raises %r' % e, inp)
    elif th_want is None:
        pass
    elif not math.isfinite(th_want):
        chk.stat('l3:zero-model-sum')
    elif th is np.ma.masked or not math.isfinite(float(th)) or not near(float(th), th_want, 0.0):
        _fail(chk, 'optimal_sfs_scaling:theta' + tag, 'optimal_sfs_scaling = %r, sum(data)/sum(model) over the entries masked in neither = %r'
                 % (th, th_want), inp)
    else:
        th_ok = True
    # optimally_scaled_sfs = theta * model
    if th_want is not None and math.isfinite(th_want):
        sc, e = call(I.optimally_scaled_sfs, M, D)
        chk.l3(key + ('scaled',))
        if e is not None:
            _fail(chk, 'optimally_scaled_sfs:raises:%s' % type(e).__name__, 'raises %r' % e, inp)
        elif not (np.array_equal(np.ma.getmaskarray(sc), mm) and
                  np.allclose(np.ma.getdata(sc)[~mm], th_want * mv[~mm], rtol=1e-9, atol=0)):
            _fail(chk, 'optimally_scaled_sfs:value' + tag, 'optimally_scaled_sfs is not (sum(data)/sum(model) over the joint set) * model', inp)
    # --- the array layout is irrelevant (C11_layout_irrelevant): the same entries listed in another order (axes transposed)
    if M.ndim >= 2 and want is not None and th_ok:
        Mt = mk_spec(dadi, mv.T.copy(), mm.T.copy(), M.folded); Dt = mk_spec(dadi, dv.T.copy(), dm.T.copy(), D.folded)
        g1, e1 = call(I.ll, Mt, Dt); g2, e2 = call(I.optimal_sfs_scaling, Mt, Dt)
        chk.l3(key + ('layout',))
        if e1 is not None or e2 is not None or g1 is np.ma.masked or g2 is np.ma.masked or \
                not near(float(g1), want, 1e-9 * mag) or not near(float(g2), th_want, 0.0):
            _fail(chk, 'layout', 'll / optimal_sfs_scaling change when both spectra are transposed: %r / %r vs %r / %r' % (g1, g2, want, th_want), inp)
    # --- multinomial likelihood = max over positive rescalings, invariant under rescaling
    if pos_ok and th_want is not None and math.isfinite(th_want) and th_want > 0:
        lm, e = call(I.ll_multinom, M, D)
        chk.l3(key + ('multinom',))
        if e is not None or lm is np.ma.masked:
            _fail(chk, 'll_multinom:raises' + tag, 'll_multinom raises / is masked although the joint set is non-empty, model > 0 and sum(data) > 0: %r' % (e,), inp)
        else:
            lm = float(lm)
            worst = None
            for fac in [1.0, 0.5, 0.9, 0.99, 1.01, 1.1, 2.0, float(np.exp(rng.uniform(-2, 2)))]:
                v, e2 = call(I.ll, (th_want * fac) * M, D)
                if e2 is None and v is not np.ma.masked:
                    tol = 1e-9 * (mag + abs(lm) + th_want * float(mv[joint].sum()))
                    if float(v) > lm + tol and (worst is None or float(v) - lm > worst[1]):
                        worst = (fac, float(v) - lm)
                    if fac == 1.0 and abs(float(v) - lm) > tol and worst is None:
                        worst = (fac, float(v) - lm)
            if worst is not None:
                _fail(chk, 'll_multinom:not-max' + tag, 'll_multinom(model, data) = %r but ll(%g*theta_opt*model, data) exceeds/differs by %.3g '
                         '(theta_opt = sum(data)/sum(model) over the joint set)' % (lm, worst[0], worst[1]), inp)
            # closed form over the JOINTLY unmasked entries (C11_multinom_closed_form)
            l0, e0 = call(I.ll, M, D)
            chk.l3(key + ('closed_form',))
            if e0 is None and l0 is not np.ma.masked:
                sD = float(dv[joint].sum()); sM = float(mv[joint].sum())
                cf = float(l0) + sD * math.log(th_want) - (th_want - 1.0) * sM
                tol = 1e-9 * (mag + abs(lm) + abs(float(l0)) + abs(sD * math.log(th_want)) + abs(th_want - 1.0) * sM + 1.0)
                if abs(cf - lm) > tol:
                    _fail(chk, 'll_multinom:closed-form' + tag, 'll_multinom = %r but ll + sum(data)*log(theta) - (theta-1)*sum(model) over the '
                          'jointly unmasked entries = %r' % (lm, cf), inp)
            cfac = float(np.exp(rng.uniform(-3, 3)))
            lm2, e3 = call(I.ll_multinom, cfac * M, D)
            chk.l3(key + ('scale_inv',))
            if e3 is not None or lm2 is np.ma.masked or not near(float(lm2), lm, 1e-9 * (mag + abs(lm) + 1.0)):
                _fail(chk, 'll_multinom:scale-invariance', 'll_multinom(%g*model) = %r vs %r' % (cfac, lm2, lm), inp)
            # Gibbs: model == data*const maximises the multinomial likelihood over all (positive) models
            if np.all(dv[joint] >= 0) and dv[joint].sum() > 0:
                best = mk_spec(dadi, dv * float(np.exp(rng.uniform(-2, 2))), mm, M.folded)
                lb, e4 = call(I.ll_multinom, best, D)
                chk.l3(key + ('gibbs',))
                if e4 is not None or lb is np.ma.masked:
                    _fail(chk, 'll_multinom:gibbs:raises', 'll_multinom(data*const, data) raises/masked %r' % (e4,), inp)
                elif float(lb) < lm - 1e-9 * (mag + abs(lm) + 1.0):
                    _fail(chk, 'll_multinom:gibbs' + tag, 'll_multinom(data*const, data) = %r < ll_multinom(model, data) = %r' % (lb, lm), inp)
    # --- residuals: documented sign and masking
    tom = ((mv <= mk) & (dv <= mk)) if mk is not None else np.zeros(mv.shape, bool)
    rl, e = call(I.linear_Poisson_residual, M, D, mask=mk)
    chk.l3(key + ('linres', mk is None))
    if e is not None:
        _fail(chk, 'linear_Poisson_residual:raises:%s' % type(e).__name__, 'raises %r' % e, inp)
    else:
        want_mask = ~joint | (mv < 0) | tom
        if not np.array_equal(np.ma.getmaskarray(rl), want_mask):
            _fail(chk, 'linear_Poisson_residual:mask', 'masked entries are not: masked in either input, model < 0, or (model <= mask and data <= mask)', inp)
        else:
            v = ~want_mask & (mv > 0)
            r = np.ma.getdata(rl)
            if v.any() and not np.allclose(r[v], (mv[v] - dv[v]) / np.sqrt(mv[v]), rtol=1e-9, atol=1e-12):
                _fail(chk, 'linear_Poisson_residual:value', 'not (model - data)/sqrt(model)', inp)
            elif v.any() and not np.array_equal(np.sign(r[v]), np.sign(mv[v] - dv[v])):
                _fail(chk, 'linear_Poisson_residual:sign', 'sign is not that of model - data', inp)
    ra, e = call(I.Anscombe_Poisson_residual, M, D, mask=mk)
    chk.l3(key + ('anscombe', mk is None))
    if e is not None:
        _fail(chk, 'Anscombe_Poisson_residual:raises:%s' % type(e).__name__, 'raises %r' % e, inp)
    else:
        want_mask = ~joint | (mv <= 0) | (dv <= 0) | tom
        if not np.array_equal(np.ma.getmaskarray(ra), want_mask):
            _fail(chk, 'Anscombe_Poisson_residual:mask', 'masked entries are not: masked in either input, model <= 0, data <= 0 (data == 0 documented), '
                     'or (model <= mask and data <= mask)', inp)
        else:
            v = ~want_mask
            r = np.ma.getdata(ra)
            if v.any():
                tr = lambda x: x ** (2. / 3) - x ** (-1. / 3) / 9
                wantv = 1.5 * (tr(mv[v]) - tr(dv[v])) / mv[v] ** (1. / 6)
                if not np.allclose(r[v], wantv, rtol=1e-9, atol=1e-12):
                    _fail(chk, 'Anscombe_Poisson_residual:value', 'not 1.5*(t(model) - t(data))/model^(1/6), t(x) = x^(2/3) - x^(-1/3)/9', inp)
                else:
                    clear = np.abs(mv[v] - dv[v]) > 1e-9 * np.maximum(mv[v], dv[v])
                    if not np.array_equal(np.sign(r[v][clear]), np.sign((mv[v] - dv[v])[clear])):
                        _fail(chk, 'Anscombe_Poisson_residual:sign', 'residual is not positive exactly where the model is high', inp)
    # --- the inputs are left as they were (values and masks)
    chk.l3(key + ('inputs',))
    if not (np.array_equal(keep[0], np.asarray(M0.data), equal_nan=True) and np.array_equal(keep[1], np.ma.getmaskarray(M0))
            and np.array_equal(keep[2], np.asarray(D.data), equal_nan=True) and np.array_equal(keep[3], np.ma.getmaskarray(D))):
        _fail(chk, 'inputs-modified', 'a likelihood/residual function changed the values or the mask of its arguments', inp)
    chk.stat('l3:pos_ok=%s' % pos_ok); chk.stat('l3:corner_class=%s' % corner)


# ------------------------------------------------------------------ Round 4: fold, primitives, totals under folding
def k_fold(chk, ctx, M, inp):
    """Spectrum.fold on the real code vs the model's two folds (hand-written Lik.foldSpec, and the C09 model through toC09/ofC09)"""
    drv = ctx['driver']
    if drv is None or not drv.ok() or M.folded:
        return
    out = drv.ask('lik_fold ' + spec_tokens(M))
    r, e = call(M.fold)
    if not out.startswith('ok '):
        chk.k_bad('fold', inp, repr(e) if e is not None else 'returned', out, None); return
    if e is not None:
        chk.k_bad('fold', inp, repr(e), out[:200], None); return
    t = out[3:].split(' ')
    iv = np.asarray(r.data, dtype=float).ravel(); im = np.ma.getmaskarray(r).ravel()
    for name, (vals, bits, fl) in (('fold:lik', t[0:3]), ('fold:c09', t[3:6])):
        mv_ = np.array([float(x) for x in common.parse_list(vals)]); mb = np.array([b == '1' for b in bits], dtype=bool)
        if mv_.size != iv.size or not np.array_equal(mb, im):
            chk.k_bad(name, inp, common.jsonable(im.astype(int)), bits, 'mask differs'); continue
        ok, err, scale = close(iv, mv_, rtol=1e-12)
        if not ok:
            chk.k_bad(name, inp, common.jsonable(iv), vals[:300], 'values differ by %.3g' % err); continue
        if (fl == '1') != bool(r.folded):
            chk.k_bad(name, inp, bool(r.folded), fl, 'folded flag'); continue
        chk.k_ok(name)

CELL_PROBE = [-2.0, -0.5, -0.0, 0.0, 1e-9, 0.25, 1.0, 7.0]
def k_cellops(chk, ctx, rng, exps, n):
    """the mask rule of each primitive of the masked-cell algebra (Model/LikCell.lean, hand-written) vs numpy on a dadi.Spectrum"""
    drv = ctx['driver']; dadi = ctx['dadi']
    if drv is None or not drv.ok():
        return
    from scipy.special import gammaln as g
    es = sorted(set([float(e) for e in exps] + [-1. / 3, 2. / 3, 1. / 6, -2.5, 0.5, -0.25]))     # fractional only (the rule's domain)
    fr = {float(e): Fraction(e).limit_denominator(1000) for e in es}
    for it in range(n):
        k = int(rng.integers(3, 9))
        vals = [float(rng.choice(CELL_PROBE)) for _ in range(k)]
        mask = [bool(rng.random() < 0.25) for _ in range(k)]
        S = mk_spec(dadi, vals, mask)
        ops = [('log', lambda: np.ma.log(S)), ('log', lambda: S.log()), ('sqrt', lambda: np.ma.sqrt(S)), ('gammaln1', lambda: g(S + 1.))]
        e = float(rng.choice(es))
        tag = '%d/%d' % (fr[e].numerator, fr[e].denominator)
        ops += [('mapow:' + tag, lambda: np.ma.power(S, e)), ('spow:' + tag, lambda: S ** e)]
        for op, f in ops:
            r, exc = call(f)
            out = drv.ask('lik_cellop %s %s %s' % (op, fmt_list(vals), ''.join('1' if b else '0' for b in mask)))
            name = 'cellop:' + op.split(':')[0]
            inp = dict(op=op, values=vals, mask=[int(b) for b in mask])
            if exc is not None or not out.startswith('ok '):
                chk.k_bad(name, inp, repr(exc), out, None); continue
            im = ''.join('1' if b else '0' for b in np.ma.getmaskarray(r).ravel().tolist())
            if im == out[3:]: chk.k_ok(name)
            else: chk.k_bad(name, inp, im, out[3:], 'mask of the primitive differs')

def k_flags(chk, ctx):
    """generated facts `anscombeZeroMasked data/model` vs what the implementation does with an exact zero (mask=None)"""
    drv = ctx['driver']; dadi = ctx['dadi']
    if drv is None or not drv.ok():
        return
    out = drv.ask('lik_flags')
    A = dadi.Inference.Anscombe_Poisson_residual
    r1, e1 = call(A, mk_spec(dadi, [1., 1., 2., 1.], [1, 0, 0, 1]), mk_spec(dadi, [0., 0., 3., 0.], [1, 0, 0, 1]))
    r2, e2 = call(A, mk_spec(dadi, [1., 0., 2., 1.], [1, 0, 0, 1]), mk_spec(dadi, [0., 2., 3., 0.], [1, 0, 0, 1]))
    inp = dict(probe='Anscombe_Poisson_residual at an exact zero of data / of model, mask=None')
    if e1 is not None or e2 is not None or not out.startswith('ok '):
        chk.k_bad('flags', inp, repr((e1, e2)), out, None); return
    impl = '%d %d' % (int(np.ma.getmaskarray(r1)[1]), int(np.ma.getmaskarray(r2)[1]))
    if impl == out[3:]: chk.k_ok('flags')
    else: chk.k_bad('flags', inp, impl, out[3:], 'zero of data/model masked: implementation vs generated fact')

def gen_fold_pair(dadi, rng, tier, symmetric):
    """unfolded model and data of one shape; joint mask mirror-symmetric with corners (symmetric=True) or arbitrary"""
    nd = int(rng.choice([1, 2, 3], p=[0.4, 0.35, 0.25]))
    lo, hi = (SHAPES_T if tier == 'thorough' else SHAPES_Q)[nd]
    shape = tuple(int(rng.integers(lo, hi + 1)) for _ in range(nd))
    tot = np.indices(shape).sum(axis=0)
    mv = gen.coarse(rng.uniform(0.3, 3.0, shape) / (1.0 + tot) * float(np.exp(rng.uniform(-2, 3))), 24)
    dv = rng.poisson(mv * float(np.exp(rng.uniform(0, 3)))).astype(float)
    if rng.random() < 0.4:
        dv = dv * rng.uniform(0.3, 1.0, shape)
    dv = gen.coarse(dv, 24)
    mm = rng.random(shape) < float(rng.choice([0.0, 0.1, 0.25])); dm = rng.random(shape) < float(rng.choice([0.0, 0.1, 0.25]))
    for msk in (mm, dm):
        msk.flat[0] = True; msk.flat[-1] = True
    if symmetric:
        # make the JOINT mask symmetric while the two masks stay different and individually asymmetric where possible
        j = mm | dm
        need = rev_all(j) & ~j
        put_m = rng.random(shape) < 0.5
        mm = mm | (need & put_m); dm = dm | (need & ~put_m)
    return mk_spec(dadi, mv, mm), mk_spec(dadi, dv, dm)

def l3_fold_totals(chk, ctx, rng, n):
    """C11_fold_joint_total / C11_fold_theta_consistent on the real code: theta against folded data from the UNFOLDED model's entries"""
    dadi = ctx['dadi']; I = dadi.Inference
    for it in range(n):
        symmetric = bool(rng.random() < 0.5)
        Mu, Du = gen_fold_pair(dadi, rng, ctx['tier'], symmetric)
        Df, e = call(Du.fold)
        if e is not None:
            _fail(chk, 'fold:raises', 'data.fold() raises %r' % (e,), small(dict(M=Mu, D=Du, kind='fold-totals'))); continue
        fo, amb, corner = fold_geometry(Mu.shape)
        extra = bool(rng.random() < 0.5)
        if extra:
            # mask further entries of the folded data (singletons ...), the two members of an ambiguous pair alike
            x = (rng.random(Mu.shape) < 0.2) & ~fo
            x = x | (rev_all(x) & amb)
            Df = mk_spec(dadi, np.asarray(Df.data), np.ma.getmaskarray(Df) | x, True)
        inp = small(dict(M=Mu, D=Df, kind='fold-totals'))
        mv, mm = arrs(Mu); dfv, dfm = arrs(Df)
        # the mask of the folded model and the image of every unfolded entry, from the statement (no call to fold)
        fmask = mm | rev_all(mm) | fo | corner
        J = ~fmask & ~dfm
        img_masked = np.where(fo, rev_all(dfm), dfm)                      # D's mask at foldImage(k)
        u = ~(mm | rev_all(mm) | corner | img_masked)
        chk.l3(('fold-joint-total', Mu.ndim, symmetric, extra, bool(amb.any())))
        if not J.any() or mv[u].sum() == 0:
            chk.stat('l3:fold-totals:degenerate'); continue
        th, e = call(I.optimal_sfs_scaling, Mu, Df)
        want = float(dfv[J].sum()) / float(mv[u].sum())
        if e is not None or th is np.ma.masked or not near(float(th), want, 1e-12 * abs(want), 1e-9):
            _fail(chk, 'fold:joint-total', 'optimal_sfs_scaling(model, folded data) = %r; sum(data over the joint set) / (total of the UNFOLDED '
                  'model over the entries visible with their mirror, no corner, image visible in the data) = %r' % (th, want), inp)
        if symmetric and not extra:
            du, dmk = arrs(Du)
            ju = ~mm & ~dmk
            chk.l3(('fold-theta-consistent', Mu.ndim, bool(amb.any())))
            if ju.any() and mv[ju].sum() != 0:
                thu, e2 = call(I.optimal_sfs_scaling, Mu, Du)
                wantu = float(du[ju].sum()) / float(mv[ju].sum())
                if e2 is not None or thu is np.ma.masked or e is not None or th is np.ma.masked or \
                        not near(float(thu), float(th), 0.0, 1e-9) or not near(float(thu), wantu, 0.0, 1e-9):
                    _fail(chk, 'fold:theta-consistent', 'joint mask mirror-symmetric with corners: optimal_sfs_scaling(model, data.fold()) = %r '
                          'but optimal_sfs_scaling(model, data) = %r (sum ratio %r)' % (th, thu, wantu), inp)

# ------------------------------------------------------------------ history-aware cases (state carried between calls)
# The property is about the CURRENT contents of the two spectra at every call.  A sequence re-uses the same model / data
# objects over many evaluations with in-place edits in between (mask set / cleared, counts changed through __setitem__,
# through .data and through `*=`), alternates between two data objects of equal shape, and mixes all entry points.
# Every evaluation is compared (L3) with the numpy oracle computed from what the objects contain *now* -- the oracle never
# calls into dadi.Inference, so it cannot disturb or refresh any hidden state -- sometimes also with the same call on
# fresh deep copies, and (K) with the Lean model fed the current contents.
HIST_FNS = ['ll', 'll_per_bin', 'll_multinom', 'optimal_sfs_scaling', 'linear_Poisson_residual', 'Anscombe_Poisson_residual',
            'll_multinom_per_bin', 'optimally_scaled_sfs']
HIST_P = [0.26, 0.18, 0.18, 0.08, 0.08, 0.08, 0.08, 0.06]
HIST_EDITS = ['none', 'dmask', 'dunmask', 'dset', 'ddata', 'dimul', 'mmask', 'munmask', 'mset', 'mimul', 'swap']
HIST_EP = [0.08, 0.2, 0.1, 0.14, 0.1, 0.05, 0.08, 0.05, 0.08, 0.04, 0.08]

def gen_history(rng, tier):
    """a sequence as plain data (replayable): initial contents + steps"""
    nd = int(rng.choice([1, 2, 3], p=[0.45, 0.4, 0.15]))
    lo, hi = {1: (4, 12), 2: (3, 6), 3: (3, 4)}[nd]
    shape = tuple(int(rng.integers(lo, hi + 1)) for _ in range(nd))
    n = int(np.prod(shape))
    tot = np.indices(shape).sum(axis=0)
    mv = gen.coarse(rng.uniform(0.3, 3.0, shape) / (1.0 + tot) * float(np.exp(rng.uniform(-1, 3))), 24)
    theta = float(np.exp(rng.uniform(0, 3)))
    def data():
        dv = rng.poisson(mv * theta).astype(float)
        if rng.random() < 0.4:
            dv = dv * rng.uniform(0.3, 1.0, shape)            # projected
        return gen.coarse(dv, 24)
    def mask(p):
        m = rng.random(shape) < p
        m.flat[0] = True; m.flat[-1] = True                      # corners stay masked throughout a sequence
        return m
    folded = bool(rng.random() < 0.2)
    nsteps = int(rng.integers(5, 11)) if tier == 'quick' else int(rng.integers(6, 16))
    steps = []
    for _ in range(nsteps):
        ed = str(rng.choice(HIST_EDITS, p=HIST_EP))
        k = int(rng.integers(1, n - 1))                          # never a corner
        val = float(gen.round_sig(float(rng.choice([0.0, 1.0, 2.0, 7.0, float(rng.uniform(0.1, 9))])), 20))
        fac = float(rng.choice([0.5, 2.0, 3.0]))
        steps.append(dict(edit=ed, idx=k, value=val, factor=fac, fn=str(rng.choice(HIST_FNS, p=HIST_P)),
                          also_copies=bool(rng.random() < 0.25)))
    mk = None if rng.random() < 0.6 else float(gen.round_sig(float(np.exp(rng.uniform(-3, 1))), 20))
    return dict(kind='history', shape=list(shape), model=mv.ravel().tolist(), model_mask=mask(0.1).ravel().astype(int).tolist(),
                data=data().ravel().tolist(), data_mask=mask(0.15).ravel().astype(int).tolist(),
                data2=data().ravel().tolist(), data2_mask=mask(0.15).ravel().astype(int).tolist(),
                data_folded=folded, resid_mask=mk, steps=steps)

def fixed_histories():
    """hand-made sequences, every run: the two edits the property is most sensitive to (mask a data entry, change a count)
    between two evaluations on the same objects, for each of the likelihood entry points"""
    out = []
    base = dict(kind='history', shape=[4, 3], model=[9., .9, .5, .8, .6, .4, .5, .4, .3, .3, .2, 9.],
                model_mask=[1] + [0] * 10 + [1], data=[0., 9., 4., 7., 5., 3., 6., 2., 0., 3., 1., 0.], data_mask=[1] + [0] * 10 + [1],
                data2=[0., 5., 5., 5., 1., 1., 1., 2., 2., 3., 3., 0.], data2_mask=[1, 0, 0, 1, 0, 0, 0, 0, 1, 0, 0, 1],
                data_folded=False, resid_mask=None)
    for fn in ('ll', 'll_multinom', 'll_per_bin'):
        for ed in ('dmask', 'dset', 'ddata', 'dimul', 'swap', 'mmask'):
            st = [dict(edit='none', idx=3, value=0., factor=2., fn=fn, also_copies=False),
                  dict(edit=ed, idx=3, value=2., factor=2., fn=fn, also_copies=False),
                  dict(edit='dunmask', idx=3, value=2., factor=2., fn=fn, also_copies=False),
                  dict(edit='none', idx=3, value=2., factor=2., fn='optimal_sfs_scaling', also_copies=True),
                  dict(edit='dset', idx=7, value=11., factor=2., fn=fn, also_copies=False)]
            out.append(dict(base, steps=st))
    return out

def apply_edit(st, M, Ds, active):
    """in-place edit of the live objects; returns the index of the active data object"""
    ed = st['edit']; D = Ds[active]
    k = st['idx']
    idx = np.unravel_index(k, M.shape)
    if ed == 'dmask': D.mask[idx] = True
    elif ed == 'dunmask': D.mask[idx] = False
    elif ed == 'dset': D[idx] = st['value']               # __setitem__: also clears the mask of that entry
    elif ed == 'ddata': D.data[idx] = st['value']         # through the bare array: mask untouched
    elif ed == 'dimul': D *= st['factor']
    elif ed == 'mmask': M.mask[idx] = True
    elif ed == 'munmask': M.mask[idx] = False
    elif ed == 'mset': M[idx] = max(st['value'], 0.125)   # the model stays positive
    elif ed == 'mimul': M *= st['factor']
    elif ed == 'swap': active = 1 - active
    return active

def oracle_resid(which, mv, mm, dv, dm, mk):
    """(expected mask, entries with a defined value, expected values there) from the documented formulas"""
    joint = ~mm & ~dm
    tom = ((mv <= mk) & (dv <= mk)) if mk is not None else np.zeros(mv.shape, bool)
    with np.errstate(all='ignore'):
        if which == 'linear_Poisson_residual':
            wm = ~joint | (mv < 0) | tom
            v = ~wm & (mv > 0)
            return wm, v, (mv[v] - dv[v]) / np.sqrt(mv[v])
        wm = ~joint | (mv <= 0) | (dv <= 0) | tom
        v = ~wm
        tr = lambda x: x ** (2. / 3) - x ** (-1. / 3) / 9
        return wm, v, 1.5 * (tr(mv[v]) - tr(dv[v])) / mv[v] ** (1. / 6)

def hist_expect(dadi, fn, M, D, mk):
    """what the property says `fn(M, D)` is, from the current contents; never calls dadi.Inference.
    returns None (nothing to compare: degenerate) or a dict"""
    Mf = M.fold() if (D.folded and not M.folded) else M
    mv, mm = arrs(Mf); dv, dm = arrs(D)
    joint = ~mm & ~dm
    if not joint.any():
        return None
    if fn in ('ll', 'll_per_bin'):
        want, vis, mag = oracle_ll(Mf, D)
        if want is None: return None
        t = np.zeros(mv.shape); t[vis] = poisson_terms(mv[vis], dv[vis])
        return dict(scalar=want, mask=~vis, values=t, mag=mag) if fn == 'll_per_bin' else dict(scalar=want, mag=mag)
    th, _ = oracle_theta(Mf, D)
    if th is None or not math.isfinite(th):
        return None
    if fn == 'optimal_sfs_scaling':
        return dict(scalar=th, mag=abs(th))
    if fn == 'optimally_scaled_sfs':
        m0v, m0m = arrs(M)
        return dict(mask=m0m, values=th * m0v, mag=float(np.abs(th * m0v[~m0m]).max()) if (~m0m).any() else 1.0)
    if fn in ('ll_multinom', 'll_multinom_per_bin'):
        if th <= 0: return None
        vis = joint & (th * mv > 0)
        if not vis.any(): return None
        t = np.zeros(mv.shape); t[vis] = poisson_terms(th * mv[vis], dv[vis])
        mag = float(np.abs(t).sum())
        return dict(scalar=float(t[vis].sum()), mag=mag) if fn == 'll_multinom' else dict(mask=~vis, values=t, mag=mag)
    wm, v, wv = oracle_resid(fn, mv, mm, dv, dm, mk)
    vals = np.zeros(mv.shape); vals[v] = wv
    return dict(mask=wm, values=vals, defined=v, mag=float(np.abs(wv).max()) if v.any() else 1.0)

def hist_differs(got, exp):
    """None if the implementation's answer is what `exp` says, else a description"""
    if 'mask' in exp:
        gm = np.ma.getmaskarray(got)
        if gm.shape != exp['mask'].shape or not np.array_equal(gm, exp['mask']):
            k = int(np.nonzero((gm != exp['mask']).ravel())[0][0]) if gm.shape == exp['mask'].shape else -1
            return 'mask differs (first at flat index %d: got %s)' % (k, bool(gm.ravel()[k]) if k >= 0 else '?')
        v = exp.get('defined', ~exp['mask'])
        if v.any() and not np.allclose(np.ma.getdata(got)[v], exp['values'][v], rtol=1e-9, atol=1e-9 * max(exp['mag'], 1e-300)):
            return 'values differ by %.3g' % float(np.max(np.abs(np.ma.getdata(got)[v] - exp['values'][v])))
        return None
    if got is np.ma.masked or not math.isfinite(float(got)):
        return 'returned %r, expected %r' % (got, exp['scalar'])
    if not near(float(got), exp['scalar'], 1e-9 * exp['mag']):
        return 'returned %r, expected %r' % (float(got), exp['scalar'])
    return None

def hist_call(I, fn, M, D, mk):
    f = getattr(I, fn)
    if fn.endswith('residual'):
        return call(f, M, D, mask=mk)
    return call(f, M, D)

def k_hist(chk, ctx, fn, M, D, mk, r, e, exps, inp):
    """K for one evaluation of a sequence: the answer obtained on the live objects vs the model on their current contents"""
    drv = ctx['driver']
    if drv is None or not drv.ok():
        return
    mod = Model(drv, dict(M=M, D=D))
    op = 'history:' + fn
    j = lambda out, kind, atol=None: k_judge(chk, inp, op, r, e, out, kind, atol)
    if fn in ('ll', 'll_multinom'):
        pb = mod.ll_op('lik_ll_per_bin' if fn == 'll' else 'lik_ll_multinom_per_bin')
        mag = 1.0
        if pb.startswith('ok '):
            mag = sum(abs(float(c)) for c in parse_cells(pb[3:]) if c is not None and c != 'nf') or 1.0
        j(mod.ll_op('lik_' + fn), 'scalar', 1e-9 * mag + 1e-12)
    elif fn in ('ll_per_bin', 'll_multinom_per_bin'):
        j(mod.ll_op('lik_' + fn), 'cells')
    elif fn == 'optimal_sfs_scaling':
        thabs = abs(float(r)) if (r is not None and r is not np.ma.masked and math.isfinite(float(r))) else 1.0
        j(mod.simple('lik_theta'), 'scalar', 1e-9 * thabs)
    elif fn == 'optimally_scaled_sfs':
        j(mod.simple('lik_scaled'), 'scaled')
    elif fn == 'linear_Poisson_residual':
        j(mod.linres(mk), 'cells')
    else:
        j(mod.anscombe(mk, exps), 'cells')

def run_history(chk, ctx, seq, exps):
    dadi = ctx['dadi']; I = dadi.Inference
    sh = tuple(seq['shape'])
    arr = lambda k: np.array(seq[k], dtype=float).reshape(sh)
    msk = lambda k: np.array(seq[k], dtype=bool).reshape(sh)
    M = mk_spec(dadi, arr('model'), msk('model_mask'))
    Ds = [mk_spec(dadi, arr('data'), msk('data_mask')), mk_spec(dadi, arr('data2'), msk('data2_mask'))]
    if seq.get('data_folded'):
        Ds = [d.fold() for d in Ds]
    mk = seq.get('resid_mask')
    active = 0
    chk.stat('history:sequences')
    for n, st in enumerate(seq['steps']):
        active = apply_edit(st, M, Ds, active)
        D = Ds[active]
        fn = st['fn']
        # snapshot of what the objects contain now (replay / message), before the call
        before = (np.array(M.data, copy=True), np.ma.getmaskarray(M).copy(), np.array(D.data, copy=True), np.ma.getmaskarray(D).copy())
        exp = hist_expect(dadi, fn, M, D, mk)
        r, e = hist_call(I, fn, M, D, mk)
        chk.l3(('history', fn, st['edit'], len(sh), bool(D.folded)))
        chk.stat('history:edit:' + st['edit']); chk.stat('history:fn:' + fn)
        where = 'step %d of the sequence (after in-place edit `%s`, entry %d)' % (n, st['edit'], st['idx'])
        if exp is None:
            chk.stat('history:degenerate-step')
        elif e is not None:
            _fail(chk, 'history:%s:raises:%s' % (fn, type(e).__name__), '%s raises %r at %s' % (fn, e, where), seq)
        else:
            bad = hist_differs(r, exp)
            if bad is not None:
                _fail(chk, 'history:%s:stale' % fn, '%s on objects used before: %s at %s -- not what the current contents of model/data give'
                      % (fn, bad, where), seq)
        if exp is not None:
            k_hist(chk, ctx, fn, M, D, mk, r, e, exps, dict(seq, at_step=n))
        if not (np.array_equal(before[0], np.asarray(M.data), equal_nan=True) and np.array_equal(before[1], np.ma.getmaskarray(M))
                and np.array_equal(before[2], np.asarray(D.data), equal_nan=True) and np.array_equal(before[3], np.ma.getmaskarray(D))):
            _fail(chk, 'history:inputs-modified', '%s changed its arguments at %s' % (fn, where), seq)
        if st.get('also_copies') and exp is not None and e is None:
            # the same call on fresh deep copies must give the same answer (done AFTER the live call; it may refresh hidden state,
            # which is why only a quarter of the steps do it)
            M2 = mk_spec(dadi, np.array(M.data, copy=True), np.ma.getmaskarray(M).copy(), M.folded)
            D2 = mk_spec(dadi, np.array(D.data, copy=True), np.ma.getmaskarray(D).copy(), D.folded)
            r2, e2 = hist_call(I, fn, M2, D2, mk)
            chk.l3(('history-copies', fn))
            same = e2 is None and np.array_equal(np.ma.getmaskarray(r), np.ma.getmaskarray(r2)) and \
                np.allclose(np.ma.filled(r, 0.), np.ma.filled(r2, 0.), rtol=1e-12, atol=0, equal_nan=True)
            if not same:
                _fail(chk, 'history:%s:copies-differ' % fn, '%s(model, data) differs from %s(copy of model, copy of data) at %s'
                      % (fn, fn, where), seq)

# ------------------------------------------------------------------ generators
SHAPES_Q = {1: (3, 14), 2: (3, 6), 3: (3, 4)}
SHAPES_T = {1: (3, 30), 2: (3, 9), 3: (3, 5)}

def gen_case(dadi, rng, tier, force=None):
    nd = int(rng.choice([1, 2, 3], p=[0.4, 0.35, 0.25]))
    lo, hi = (SHAPES_T if tier == 'thorough' else SHAPES_Q)[nd]
    shape = tuple(int(rng.integers(lo, hi + 1)) for _ in range(nd))
    n = int(np.prod(shape))
    kind = force or str(rng.choice(['counts', 'projected', 'sparse', 'nonpos', 'same', 'allmasked', 'tiny'],
                                   p=[0.28, 0.28, 0.14, 0.1, 0.1, 0.03, 0.07]))
    # model: neutral-like decay times a random factor, strictly positive unless `nonpos`
    tot = np.indices(shape).sum(axis=0)
    mv = rng.uniform(0.3, 3.0, shape) / (1.0 + tot) * float(np.exp(rng.uniform(-3, 4)))
    theta = float(np.exp(rng.uniform(-2, 3)))
    if kind in ('counts', 'same', 'allmasked'):
        dv = rng.poisson(np.minimum(mv * theta, 1e6)).astype(float)
    elif kind == 'projected':
        dv = rng.poisson(np.minimum(mv * theta, 1e6)).astype(float) * rng.uniform(0.2, 1.0, shape) + rng.uniform(0, 0.5, shape) * (rng.random(shape) < 0.5)
    elif kind == 'sparse':
        dv = rng.poisson(np.minimum(mv * theta, 1e6)).astype(float) * (rng.random(shape) < 0.4)
    elif kind == 'tiny':
        mv = mv * 1e-6; dv = rng.uniform(0, 2, shape) * (rng.random(shape) < 0.7)
    else:
        dv = rng.poisson(np.minimum(mv * theta, 1e6)).astype(float)
        z = rng.random(shape)
        mv = np.where(z < 0.15, 0.0, np.where(z < 0.3, -mv, mv))
    mv = gen.coarse(mv, 24); dv = gen.coarse(dv, 24)
    pm = float(rng.choice([0.0, 0.1, 0.3])); pd = float(rng.choice([0.0, 0.1, 0.3]))
    mm = rng.random(shape) < pm; dm = rng.random(shape) < pd
    # corners: masked as dadi does by default, or left visible (mask_corners=False / unmask_all)
    cm = rng.random() < 0.7; cd = rng.random() < 0.7
    for msk, cc in ((mm, cm), (dm, cd)):
        msk.flat[0] = cc or msk.flat[0]; msk.flat[-1] = cc or msk.flat[-1]
    if kind == 'same':
        dm = mm.copy()
    if kind == 'allmasked':
        mm = np.ones(shape, bool) if rng.random() < 0.5 else ~dm
    fold = rng.random() < 0.3 and kind != 'allmasked'
    M = mk_spec(dadi, mv, mm); D = mk_spec(dadi, dv, dm)
    mfold = False
    if fold:
        D = D.fold()
        r = rng.random()
        if r < 0.25:
            M = M.fold(); mfold = True
    elif rng.random() < 0.04:
        M = M.fold(); mfold = True          # folded model, unfolded data: rejected by the real code
    mk = None
    r = rng.random()
    if r < 0.25: mk = 0.0
    elif r < 0.5: mk = float(gen.round_sig(float(np.exp(rng.uniform(-4, 2))), 20))
    return dict(M=M, D=D, mk=mk, kind=kind + ('+fold' if fold else '') + ('+mfold' if mfold else ''))

def run_case(chk, ctx, c, rng, exps):
    chk.stat('kind:' + c['kind']); chk.stat('ndim:%d' % c['M'].ndim)
    chk.stat('resid_mask:' + ('None' if c.get('mk') is None else ('0' if c['mk'] == 0 else 'positive')))
    l3_case(chk, ctx, c, rng)
    k_case(chk, ctx, c, exps)
    if not c['M'].folded and rng.random() < 0.5:
        k_fold(chk, ctx, c['M'], small(c))
    chk.sample(dict(kind=c['kind'], shape=list(c['M'].shape), model_masked=int(np.ma.getmaskarray(c['M']).sum()),
                    data_masked=int(np.ma.getmaskarray(c['D']).sum()), data_folded=bool(c['D'].folded), resid_mask=c.get('mk')))

def exponents(ctx):
    drv = ctx['driver']
    if drv is None or not drv.ok():
        return [Fraction(2, 3), Fraction(-1, 3), Fraction(1, 6)]
    out = drv.ask('lik_exponents')
    if not out.startswith('ok '):
        raise common.Infra('lik_exponents: ' + out)
    return [Fraction(t) for t in out[3:].split(',') if t]

def fixed_cases(dadi):
    """hand-made edge cases, every run"""
    out = []
    S = lambda v, m, f=False: mk_spec(dadi, v, m, f)
    # visible corners, masks differ in one interior entry (the class on which intersect_masks re-masks corners)
    out.append(dict(M=S([0.7, 0.5, 0.3, 0.2, 0.15, 0.1], [0] * 6), D=S([4., 3., 1., 0., 2., 1.], [0, 0, 1, 0, 0, 0]), mk=None, kind='fixed:corners-visible'))
    out.append(dict(M=S([[0.7, 0.5, 0.3], [0.2, 0.15, 0.1]], [[0, 0, 0], [0, 1, 0]]), D=S([[4., 3., 1.], [0., 2., 1.]], [[0] * 3] * 2), mk=0.0, kind='fixed:corners-visible'))
    # default corner masks, identical masks, integer data
    out.append(dict(M=S([9., 0.5, 0.3, 0.2, 9.], [1, 0, 0, 0, 1]), D=S([0., 3., 1., 0., 0.], [1, 0, 0, 0, 1]), mk=None, kind='fixed:plain'))
    # zero and negative model entries
    out.append(dict(M=S([0.5, 1.0, -0.3, 0.0, 2.0, 0.0, 1.0], [1, 0, 0, 0, 0, 0, 1]), D=S([3., 2., 1., 0., 0., 4., 1.], [1, 0, 0, 0, 0, 0, 1]), mk=0.0, kind='fixed:nonpos'))
    # everything masked
    out.append(dict(M=S([1., 2., 3.], [1, 1, 1]), D=S([1., 2., 3.], [1, 0, 1]), mk=None, kind='fixed:allmasked'))
    # one visible entry
    out.append(dict(M=S([1., 2., 3.], [1, 0, 1]), D=S([1., 5., 3.], [1, 0, 1]), mk=1.0, kind='fixed:single'))
    # folded data, even total (ambiguous diagonal), 2-D
    M = S(np.arange(1, 13, dtype=float).reshape(3, 4) / 7, np.zeros((3, 4), bool)); M.mask_corners()
    D = S(np.arange(12, 0, -1, dtype=float).reshape(3, 4), np.zeros((3, 4), bool)); D.mask_corners()
    out.append(dict(M=M, D=D.fold(), mk=None, kind='fixed:fold-2D'))
    M = S(np.arange(1, 8, dtype=float) / 3, np.zeros(7, bool)); M.mask_corners()
    D = S([0., 5., 3., 2., 2., 1., 0.], np.zeros(7, bool)); D.mask_corners()
    out.append(dict(M=M, D=D.fold(), mk=0.5, kind='fixed:fold-1D-even'))
    return out

def run(chk, ctx):
    dadi = ctx['dadi']; tier = ctx['tier']
    rng = common.Rng(ctx['seed'], 'C11')
    chk.rule = ('model/data spectra of 1-3 dimensions (sizes 3..14 / 3..6 / 3..4 per axis, larger in the thorough tier); model = neutral-like '
                'decay x random factors over 7 orders of magnitude; data kinds: Poisson counts, projected (non-integer), sparse (60% zeros), '
                'tiny model, non-positive model entries, identical masks, everything masked; independent random masks (density 0/0.1/0.3) with '
                'corners masked (70%) or visible; data folded via Spectrum.fold() in 30% (model then unfolded 75% / folded 25%); folded model '
                'vs unfolded data (rejected) 4%; residual mask None/0/positive; plus 8 fixed edge cases.  non-trivial = distinct (ndim, folded, '
                'kind, model>0 on the joint set, masks equal, corner class, zeros in data, which clause).  History: 18 fixed + 40 (600 thorough) '
                'random sequences of 5-15 evaluations on the SAME model/data objects (all 8 entry points mixed) with an in-place edit before each '
                '(data/model mask set or cleared, count changed via __setitem__ / .data / *=, switch between two data objects); every evaluation vs the '
                'oracle on the current contents, 25% also vs the same call on deep copies, and vs the Lean model (K).')
    chk.unproved = [
        'log, gammaln, sqrt and the fractional powers enter the model as tables of numbers computed by libm/scipy at the exact rational arguments: '
        'that numpy\'s log/gammaln/power are the real functions (to 1e-9) is validated numerically, not proved',
        'the n-D -> flat (C-order) layout of numpy arrays and numpy.ma reductions are tied by correspondence only; Spectrum.fold is now proved equal to '
        'the C09 fold model (generated from the source) for rational-valued spectra and its real instance is the image of the rational one',
        'the mask rules of numpy.ma.log / sqrt / power, Spectrum ** and gammaln (Model/LikCell.lean) are hand-written and tied to numpy by correspondence (lik_cellop)',
        'IEEE round-off: agreement of the float implementation with the exact model at 1e-9 is numerical',
        'gammaln(k+1) = log k! is proved for the real Gamma function, the implementation\'s scipy gammaln is compared numerically (L3 cross-check with scipy.stats.poisson.logpmf)',
    ]
    chk.assumptions += ['finite inputs; data >= 0 in the theorems about maximality (generated data are >= 0)',
                        'theorems about maximality/Gibbs assume model > 0 on the jointly unmasked entries; the non-positive branch is covered by K and by C11_nonpos_partial']
    exps = exponents(ctx)
    for c in fixed_cases(dadi):
        run_case(chk, ctx, c, rng, exps)
    n = 120 if tier == 'quick' else 4000
    for it in range(n):
        c = gen_case(dadi, rng, tier)
        run_case(chk, ctx, c, rng, exps)
    # Round 4: primitives of the cell algebra on numpy, generated zero facts, totals under folding
    xrng = common.Rng(ctx['seed'], 'C11/round4')
    k_flags(chk, ctx)
    k_cellops(chk, ctx, xrng, exps, 40 if tier == 'quick' else 600)
    for c in fixed_cases(dadi):
        if not c['M'].folded:
            k_fold(chk, ctx, c['M'], small(c))
    l3_fold_totals(chk, ctx, xrng, 60 if tier == 'quick' else 1500)
    # state carried between calls: sequences on the same objects with in-place edits
    hrng = common.Rng(ctx['seed'], 'C11/history')
    for seq in fixed_histories():
        run_history(chk, ctx, seq, exps)
    for it in range(40 if tier == 'quick' else 600):
        run_history(chk, ctx, gen_history(hrng, tier), exps)

def replay(chk, ctx, data):
    inp = data.get('input') or {}
    rng = common.Rng(ctx['seed'], 'C11')
    if inp.get('kind') == 'history' and 'steps' in inp:
        run_history(chk, ctx, inp, exponents(ctx))
    elif 'model' in inp:
        c = from_small(ctx['dadi'], inp)
        run_case(chk, ctx, c, rng, exponents(ctx))
    else:
        run(chk, ctx)
